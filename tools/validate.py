"""Validates MANIFEST.json and every evidence/*.json against the schemas; run with python3-vt."""
import json, sys
from pathlib import Path
import jsonschema
ROOT = Path(__file__).resolve().parent.parent
ms = json.loads(Path('/root/.vp/MANIFEST.schema.json').read_text())
es = json.loads(Path('/root/.vp/EVIDENCE.schema.json').read_text())
man = json.loads((ROOT / 'MANIFEST.json').read_text())
jsonschema.validate(man, ms)
bad = 0
for c in man['checks']:
    f = ROOT / c['evidence_file']
    if not f.exists():
        print('MISSING evidence', f); bad += 1; continue
    e = json.loads(f.read_text())
    try:
        jsonschema.validate(e, es)
    except jsonschema.ValidationError as ex:
        print('INVALID', f, ex.message[:200]); bad += 1; continue
    cov = e['coverage']
    flags = []
    if cov.get('obligations', 0) != cov.get('discharged', -1): flags.append('obligations!=discharged')
    if e.get('violations'): flags.append('violations=%d' % e['violations'])
    if cov.get('evaluations', 0) == 0: flags.append('no evaluations')
    print('%s ok tier=%s obligations=%s evaluations=%s nontrivial=%s wall=%ss %s' % (
        e['property_id'], e['tier'], cov.get('obligations'), cov.get('evaluations'), cov.get('distinct_nontrivial'), e['wall_s'], ' '.join(flags)))
ids = [c['property_id'] for c in man['checks']] + [n['property_id'] for n in man.get('not_applicable', [])]
assert sorted(ids) == ['C%02d' % i for i in range(1, 21)], ids
print('manifest valid;', len(man['checks']), 'claimed;', bad, 'problems')
sys.exit(1 if bad else 0)
