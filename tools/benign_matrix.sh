#!/bin/bash
# Runs every behaviour-preserving change under /verif/benign against the check of its property (quick tier) and writes benign/RESULTS.md
# (C11_* and C12_* ids are run against both C11 and C12, C06_*/C07_* against both C06 and C07: the translated functions are shared)
# ONLY="C01 C08" OUT=file restricts to some properties and writes the rows elsewhere (used by tools/matrix_parallel.sh)
cd /verif
out=${OUT:-benign/RESULTS.md}
echo "| change | check | quick check | what was reported |" > $out.tmp
echo "|---|---|---|---|" >> $out.tmp
for d in $(ls -d benign/C*_b* | sort); do
  id=$(basename $d); prop=${id%%_*}
  if [ -n "$ONLY" ] && ! echo " $ONLY " | grep -q " $prop "; then continue; fi
  props=$prop
  case $prop in C11|C12) props="C11 C12";; C06|C07) props="C06 C07";; C08) props="C08 C01";; esac
  for p in $props; do
    res=$(SEEDDIR=/verif/benign tools/run_seed.sh $id $p quick 2>&1 | grep '^seed ' | head -1)
    rc=$(echo "$res" | sed -n 's/.*rc=\([0-9]*\).*/\1/p')
    if [ "$rc" = "0" ]; then st="quiet (exit 0)"; what=""; else
      if grep -q "no-failing-input-found" /tmp/runseed_${id}.out; then st="tie no longer checks (exit $rc, no-failing-input-found)"; else st="ALARM (exit $rc)"; fi
      what=$(grep -m1 "^  " /tmp/runseed_${id}.err | cut -c1-140 | tr '|' '/')
    fi
    echo "| $id | $p | $st | $what |" >> $out.tmp
    echo "$id $p $st"
  done
done
mv $out.tmp $out
