#!/bin/bash
# tools/benign_run.sh Cxx [Cyy ...] -- collects /tmp/benign_Cxx/benign_out/* into /verif/benign/ and runs the quick check of the
# property against each behaviour-preserving change (expected: rc=0, no VIOLATION line)
for P in "$@"; do
  for d in /tmp/benign_$P/benign_out/${P}_b* /tmp/benign2_$P/benign_out/${P}_b*; do
    [ -d "$d" ] || continue
    id=$(basename $d); mkdir -p /verif/benign/$id; cp $d/patch.diff $d/meta.json /verif/benign/$id/ 2>/dev/null
  done
  for d in /verif/benign/${P}_b*; do
    [ -d "$d" ] || continue
    id=$(basename $d)
    out=$(SEEDDIR=/verif/benign /verif/tools/run_seed.sh $id $P quick 2>&1)
    echo "$out" | head -1 | sed 's/^seed/benign/' | cut -c1-220
    if ! echo "$out" | head -1 | grep -q "rc=0"; then grep -E "^VIOLATION|^  " /tmp/runseed_${id}.out /tmp/runseed_${id}.err 2>/dev/null | head -6 | cut -c1-300; fi
  done
done
