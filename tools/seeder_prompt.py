"""prints the prompt for an independent mutation-seeding agent: tools/seeder_prompt.py Cxx <worktree> [n]"""
import json, sys
pid, wt = sys.argv[1], sys.argv[2]
n = int(sys.argv[3]) if len(sys.argv) > 3 else 2
p = {json.loads(l)['id']: json.loads(l) for l in open('/verif/properties.jsonl')}[pid]
print(f"""You are testing how well a property of the Python project pydoctor (an API documentation generator) is protected against
regressions. You have your own scratch git worktree of the project at {wt} (work ONLY there; never touch /repo or /verif; do not
read anything under /verif). Python to use: /venv/bin/python with PYTHONPATH={wt} (all dependencies are installed; there is no network).

The property (id {pid}): "{p['title']}"
Statement: {p['statement']}
Quantified over: {p['quantifier']['text']}
Code it is anchored in: {', '.join(p['anchors']['files'])}
Mechanisms meant to make it hold: {'; '.join(m['name'] + ' @ ' + m.get('where', '') for m in p['anchors']['mechanism'])}

Your job: produce {n} DIFFERENT, realistic changes to pydoctor's source (each one independently, each as a separate patch against the
worktree's HEAD) that BREAK this property while the code still imports/compiles and the EXISTING test suite still passes. Think of the
kind of slip a maintainer could make in a refactoring or an "optimisation": a boundary condition, a dropped branch, a wrong variable, a
reordered statement, a narrowed except clause, a filter lost in one of several places, two sites that each look fine alone. Prefer
changes that need something SPECIFIC to manifest (an unusual input, a particular order/schedule of modules, a multi-step sequence, a
fault at a particular point, a rarely used option) over changes that any ordinary run would expose at once. Do not make cosmetic or
trivially detectable changes (no syntax errors, no removed public functions, no changed messages only), and do not edit tests.

For each change i (1..{n}) create the directory {wt}/seed_out/{pid}_i/ containing:
  - patch.diff   : `git diff` of ONLY that change against HEAD (apply-able with `git apply` on a clean checkout)
  - demo.py (or demo_test.py): a small standalone program (run as `PYTHONPATH=<checkout> /venv/bin/python demo.py`) that exits 0 and
    prints PASS on the ORIGINAL code and exits non-zero (prints FAIL with what went wrong) WITH the change applied, demonstrating that
    the property statement above is violated (observable behaviour, not implementation details)
  - meta.json    : {{"property": "{pid}", "summary": "<one line>", "needs": "<what specific input/order/sequence/fault/option is
    needed for it to manifest>", "files_changed": [...], "test_suite": "<what you ran and the result>"}}

You MUST verify, for each change: (a) with the patch applied, the existing tests still pass: run at least the test files most related
to the files you changed plus a broad run, e.g. `cd {wt} && /venv/bin/python -m pytest -q -x -p no:cacheprovider -n 8 pydoctor/test`
(the unchanged tree has 11 known failing tests: test_epytext_inline, test_epytext_url, test_get_toc (2 files), test_nested_markup (2 files),
test_unquote_naughty_quoted_strings, and a few c-module/packaging ones — failures that also occur WITHOUT your patch do not count);
(b) demo fails with the patch and passes without it (`git stash` / `git checkout -- .` to switch). Leave the worktree CLEAN at the
end (`git -C {wt} checkout -- .`; the seed_out directory is untracked and stays). Final message: list the {n} changes (one paragraph
each: what, why it breaks the property, what it needs to manifest, test-suite result).""")
