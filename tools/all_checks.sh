#!/bin/bash
# Runs every claimed check (tools/claimed.txt, or the ids given) at the given tier and prints a summary.
# usage: tools/all_checks.sh [quick|thorough] [Cxx ...]
cd "$(dirname "$0")/.."
TIER=${1:-quick}; shift
IDS=${@:-$(cat tools/claimed.txt)}
mkdir -p /tmp/verif_all
for id in $IDS; do
  s=$(date +%s)
  ./check $id --tier $TIER > /tmp/verif_all/$id.out 2> /tmp/verif_all/$id.err
  rc=$?
  e=$(date +%s)
  echo "$id rc=$rc $((e-s))s $(grep -c '^VIOLATION' /tmp/verif_all/$id.out) violations, $(grep -c '^KNOWN-FINDING' /tmp/verif_all/$id.out) known | $(tail -1 /tmp/verif_all/$id.out)"
done
