#!/bin/bash
# tools/confirm_seed.sh <seed_src_dir> <seed_id>   e.g. /tmp/seed_C19/seed_out/C19_1 C19_1
# Confirms in a fresh scratch worktree: demo passes on HEAD, fails with the patch, baseline suite unaffected.
# On success copies patch.diff, demo, meta.json to /verif/seeded/<seed_id>/ and records what was run.
SRC=$1; ID=$2
W=/tmp/confirm_${ID}_$$
git -C /repo worktree add --detach "$W" HEAD -q >/dev/null 2>&1
DEMO=$(ls "$SRC"/demo*.py | head -1)
NEUTRAL=$(mktemp -d /tmp/confirm_cwd.XXXXXX)   # demos must not pick up the checkout's own setup.cfg (intersphinx, no network)
cd "$NEUTRAL"
PYTHONPATH="$W" PYTHONHASHSEED=0 timeout 900 /venv/bin/python "$DEMO" > /tmp/confirm_${ID}_head.out 2>&1; rc_head=$?
git -C "$W" apply "$SRC/patch.diff" || { echo "PATCH DOES NOT APPLY"; git -C /repo worktree remove --force "$W"; exit 2; }
PYTHONPATH="$W" PYTHONHASHSEED=0 timeout 900 /venv/bin/python "$DEMO" > /tmp/confirm_${ID}_mut.out 2>&1; rc_mut=$?
cd /; rm -rf "$NEUTRAL"
base=$(/verif/tools/baseline.sh "$W" | head -3)
echo "$ID demo_on_head=$rc_head demo_with_patch=$rc_mut | $base"
ok=0
if [ $rc_head -eq 0 ] && [ $rc_mut -ne 0 ] && echo "$base" | grep -q "missing=0"; then
  ok=1
  mkdir -p /verif/seeded/$ID
  cp "$SRC/patch.diff" "$DEMO" /verif/seeded/$ID/
  /venv/bin/python - "$SRC/meta.json" "/verif/seeded/$ID/meta.json" "$rc_head" "$rc_mut" "$base" <<'PY'
import json, sys
src, dst, rh, rm, base = sys.argv[1:6]
try:
    m = json.load(open(src))
except Exception:
    m = {}
m['confirmed_by_coordinator'] = {'demo_exit_on_head': int(rh), 'demo_exit_with_patch': int(rm), 'baseline': base,
    'how': 'fresh git worktree of /repo HEAD; demo run before/after `git apply patch.diff`; tools/baseline.sh <worktree> (1322 stable tests)'}
json.dump(m, open(dst, 'w'), indent=1)
PY
fi
cd /; git -C /repo worktree remove --force "$W"
[ $ok -eq 1 ] && echo "CONFIRMED $ID" || { echo "NOT CONFIRMED $ID"; tail -5 /tmp/confirm_${ID}_head.out /tmp/confirm_${ID}_mut.out; }
