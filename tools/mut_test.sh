#!/bin/bash
# usage: tools/mut_test.sh Cxx <sed-file-relative-path> <python-expr-old> <python-expr-new>  -- applies a textual
# replacement in a scratch worktree of /repo and runs the quick check against it.
# tools/mut_test.sh C01 pydoctor/model.py 'old text' 'new text'
PROP=$1; FILE=$2; OLD=$3; NEW=$4
W=/tmp/mut_${PROP}_$$
git -C /repo worktree add --detach "$W" HEAD -q >/dev/null 2>&1
python3 - "$W/$FILE" "$OLD" "$NEW" <<'PY'
import sys
p, old, new = sys.argv[1:4]
s = open(p).read()
assert s.count(old) >= 1, 'pattern not found'
open(p, 'w').write(s.replace(old, new, 1))
PY
rc=$?
if [ $rc -eq 0 ]; then
  (cd /verif && VERIF_EVIDENCE_DIR=/tmp/verif_seed_evidence VERIF_REPO="$W" ./check "$PROP" --tier quick 2>&1 | grep -v "^  " | tail -6)
fi
git -C /repo worktree remove --force "$W"
