"""Regenerates /verif/MANIFEST.json from the check modules present under harness/ (Check.manifest dicts)."""
import importlib, json, sys
from pathlib import Path
ROOT = Path(__file__).resolve().parent.parent
sys.path.insert(0, str(ROOT / 'harness'))

ALL = ['C%02d' % i for i in range(1, 21)]

def main() -> None:
    checks = []
    claimed = set()
    ready = set((ROOT / 'tools' / 'claimed.txt').read_text().split())
    for f in sorted((ROOT / 'harness').glob('c[0-9][0-9].py')):
        mod = importlib.import_module(f.stem)
        c = mod.Check
        m = getattr(c, 'manifest', None)
        if not m or c.id not in ready:
            continue
        claimed.add(c.id)
        checks.append({
            'property_id': c.id,
            'quick_cmd': './check %s --tier quick' % c.id,
            'thorough_cmd': './check %s --tier thorough' % c.id,
            'evidence_file': 'evidence/%s.json' % c.id,
            'replay_cmd_template': './check %s --replay {path}' % c.id,
            'engine': 'coq-proofs+correspondence',
            'level_claimed': {'category': 'proof', 'text': m['text'], 'design_ref': m.get('design_ref', 'DESIGN.md section 5, ' + c.id)},
            'level_note': m['note'],
            'technique': m['technique'] if any(w in m['technique'].lower() for w in ('translat', 'deep-embedded')) else
                         m['technique'] + ' + source tie: the bodies of the anchored functions are translated from the current source on '
                         'every run into a deep-embedded statement language (Gen/*Code.v, Model/*IR.v) and proved equal to the model '
                         'by symbolic execution (the *_code_*_is_model obligations of Props/%s.v)' % c.id,
        })
    na_reasons = json.loads((ROOT / 'tools' / 'not_applicable.json').read_text())
    na = [{'property_id': p, 'reason': na_reasons.get(p, 'check not built yet in this round; planned per DESIGN.md section 6')}
          for p in ALL if p not in claimed]
    man = {
        'version': 1,
        'setup_cmd': 'make -C /verif setup',
        'hooks': {
            'guard': 'PYDOCTOR_VERIF',
            'enable': 'no source hooks: the harness observes pydoctor from outside (wrapping public methods, permuting System.unprocessed_modules, substituting parsers); checks export PYDOCTOR_VERIF=1 for uniformity',
            'baseline_off_cmd': 'cd /repo && /venv/bin/python -m pytest -ra -q -p no:cacheprovider --timeout=900 --continue-on-collection-errors',
            'source_commits': [],
            'add_only': True,
        },
        'engines': [
            {'name': 'coq-proofs', 'path': 'coq/theories', 'serves_properties': sorted(claimed),
             'kind_free_text': 'Coq 8.16.1 development: Model/ (hand-written executable models), Spec/ (independent contracts), Proofs/, Props/Cxx.v (theorems closed by exact + Print Assumptions)'},
            {'name': 'gen-tables', 'path': 'harness/gen_tables.py', 'serves_properties': sorted(claimed),
             'kind_free_text': 'fail-closed translator: regenerates coq/theories/Gen/*.v (tables, exception/listing skeletons) from /repo on every run'},
            {'name': 'ocaml-model', 'path': 'coq/ocaml/driver.ml', 'serves_properties': sorted(claimed),
             'kind_free_text': 'models extracted with ExtrOcamlBasic only, one generic s-expression driver'},
            {'name': 'py-harness', 'path': 'harness', 'serves_properties': sorted(claimed),
             'kind_free_text': 'generators, adapters running the real pydoctor from /repo, differ, oracle search, evidence and replay writers'},
        ],
        'checks': checks,
        'not_applicable': na,
        'notes': 'Family: machine-checked proof in Coq 8.16.1. Each check = proof obligations (Props/Cxx.v) + model/implementation correspondence + oracle search for a failing input. See DESIGN.md.',
    }
    (ROOT / 'MANIFEST.json').write_text(json.dumps(man, indent=1) + '\n')
    merged = {'known': [], 'fixed': []}
    for f in sorted((ROOT / 'known_findings').glob('C*.json')):
        d = json.loads(f.read_text())
        for e in d.get('known', []):
            e = dict(e); e['property'] = f.stem; merged['known'].append(e)
        for e in d.get('fixed', []):
            e = dict(e); e['property'] = f.stem; merged['fixed'].append(e)
    (ROOT / 'KNOWN_FINDINGS.json').write_text(json.dumps(merged, indent=1) + '\n')
    try:
        import jsonschema
        jsonschema.validate(man, json.loads(Path('/root/.vp/MANIFEST.schema.json').read_text()))
        print('MANIFEST.json valid; claimed:', sorted(claimed))
    except ImportError:
        print('MANIFEST.json written (jsonschema not available for validation); claimed:', sorted(claimed))

main()
