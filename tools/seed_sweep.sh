#!/bin/bash
# Runs every claimed quick check under several VERIF_SEED values (flakiness / false-alarm sweep on the unchanged tree).
cd "$(dirname "$0")/.."
for seed in ${@:-1 2 3 7 12345}; do
  for id in $(cat tools/claimed.txt); do
    out=$(VERIF_EVIDENCE_DIR=/tmp/verif_sweep_evidence VERIF_SEED=$seed ./check $id --tier quick 2>/tmp/verif_sweep_err | grep -v '^KNOWN-FINDING' | tail -2 | tr '\n' ' ')
    echo "seed=$seed $out"
    if echo "$out" | grep -q 'VIOLATION\|FAIL'; then cp /tmp/verif_sweep_err /tmp/verif_sweep_err_${id}_${seed}; fi
  done
done
