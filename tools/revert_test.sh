#!/bin/bash
# tools/revert_test.sh <commit> <Cxx> : reverts one fix: commit in a scratch worktree and runs the quick check on it (must exit 1)
C=$1; PROP=$2
W=/tmp/revert_${C}_$$
git -C /repo worktree add --detach "$W" HEAD -q >/dev/null 2>&1
git -C /repo diff $C~1 $C | (cd "$W" && git apply -R) || { echo "cannot revert $C"; git -C /repo worktree remove --force "$W"; exit 2; }
cd /verif && VERIF_EVIDENCE_DIR=/tmp/verif_seed_evidence VERIF_REPO="$W" ./check $PROP --tier quick > /tmp/revert_${C}.out 2> /tmp/revert_${C}.err; rc=$?
echo "revert $C vs $PROP: rc=$rc | $(grep -m1 '^  ' /tmp/revert_${C}.err | cut -c1-200)"
git -C /repo worktree remove --force "$W"
