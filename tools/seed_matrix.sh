#!/bin/bash
# Runs every confirmed seed under /verif/seeded against the check of its property (quick tier) and writes seeded/RESULTS.md
# ONLY="C01 C08" OUT=file restricts to some properties and writes the rows elsewhere (used by tools/matrix_parallel.sh)
cd /verif
out=${OUT:-seeded/RESULTS.md}
echo "| seed | property | quick check | first violation |" > $out.tmp
echo "|---|---|---|---|" >> $out.tmp
for d in $(ls -d seeded/C*_* | sort); do
  id=$(basename $d); prop=${id%%_*}
  if [ -n "$ONLY" ] && ! echo " $ONLY " | grep -q " $prop "; then continue; fi
  if ! grep -qw $prop tools/claimed.txt; then echo "| $id | $prop | (check not claimed yet) | |" >> $out.tmp; continue; fi
  res=$(tools/run_seed.sh $id $prop quick 2>&1 | grep '^seed ' | head -1)
  rc=$(echo "$res" | sed -n 's/.*rc=\([0-9]*\).*/\1/p')
  what=$(grep -m1 "^  " /tmp/runseed_${id}.err | cut -c1-160 | tr '|' '/')
  if [ "$rc" = "1" ]; then st="caught (exit 1)"; else st="MISSED (exit $rc)"; fi
  echo "| $id | $prop | $st | $what |" >> $out.tmp
  echo "$id $st"
done
mv $out.tmp $out
