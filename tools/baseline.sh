#!/bin/bash
# Runs the pinned baseline suite of /repo (guard OFF) and compares with /root/.vp/BASELINE.json stable_pass.
# usage: tools/baseline.sh [repo_dir]   (default /repo)
REPO=${1:-/repo}
OUT=$(mktemp /tmp/baseline.XXXXXX.xml)
unset PYDOCTOR_VERIF
(cd "$REPO" && /venv/bin/python -m pytest -ra -q -p no:cacheprovider --timeout=900 --continue-on-collection-errors -n 8 --junitxml="$OUT" >/dev/null 2>&1)
/venv/bin/python - "$OUT" <<'PY'
import sys, json, xml.etree.ElementTree as ET
base = json.load(open('/root/.vp/BASELINE.json'))
want = set(base['stable_pass'])
root = ET.parse(sys.argv[1]).getroot()
passed = set()
for tc in root.iter('testcase'):
    ok = not any(ch.tag in ('failure', 'error', 'skipped') for ch in tc)
    if ok:
        passed.add(tc.get('classname') + '::' + tc.get('name'))
missing = sorted(want - passed)
print('baseline stable_pass=%d passed_now=%d missing=%d' % (len(want), len(passed & want), len(missing)))
for m in missing[:40]:
    print('  MISSING', m)
sys.exit(1 if missing else 0)
PY
rc=$?
rm -f "$OUT"
exit $rc
