"""prints the prompt for an independent agent producing BEHAVIOUR-PRESERVING changes: tools/benign_prompt.py Cxx <worktree> [n]"""
import json, sys
pid, wt = sys.argv[1], sys.argv[2]
n = int(sys.argv[3]) if len(sys.argv) > 3 else 3
p = {json.loads(l)['id']: json.loads(l) for l in open('/verif/properties.jsonl')}[pid]
print(f"""You are helping to test a regression-detection tool for the Python project pydoctor (an API documentation generator): the tool
must stay QUIET on changes that keep a given property true. You have your own scratch git worktree of the project at {wt} (work ONLY
there; never touch /repo or /verif; do not read anything under /verif; never use `git stash`). Python to use: /venv/bin/python with
PYTHONPATH={wt} (all dependencies are installed; there is no network).

The property (id {pid}): "{p['title']}"
Statement: {p['statement']}
Quantified over: {p['quantifier']['text']}
Code it is anchored in: {', '.join(p['anchors']['files'])}
Mechanisms meant to make it hold: {'; '.join(m['name'] + ' @ ' + m.get('where', '') for m in p['anchors']['mechanism'])}

Your job: produce {n} DIFFERENT, realistic changes to pydoctor's source — each one independently, each as a separate patch against the
worktree's HEAD — that TOUCH THE CODE THIS PROPERTY IS ANCHORED IN (the functions / mechanisms named above, not unrelated files) but
keep the property TRUE and keep the observable behaviour relevant to it unchanged for every input. These are the edits a maintainer makes
all the time: renaming local variables or a private helper, extracting or inlining a helper function, restructuring control flow
(early return vs nested if, loop vs comprehension, merging/splitting except clauses that do the same thing, reordering independent
statements), adding type annotations / comments / docstrings, replacing an idiom by an equivalent one (`dict.get` vs `in` + index,
f-string vs %-format producing the same text, `sorted(x)` vs `x.sort()` on a fresh copy), adding a fast path that returns the same
result, adding defensive code that cannot trigger. Make the {n} changes of different kinds and of different sizes (one small, one
medium that rewrites a whole function body, one that moves code between functions/files if sensible). Do NOT change any observable
output (HTML, messages, exit status, ordering) and do not edit tests.

For each change i (1..{n}) create the directory {wt}/benign_out/{pid}_b<i>/ containing:
  - patch.diff   : `git diff` of ONLY that change against HEAD (apply-able with `git apply` on a clean checkout)
  - meta.json    : {{"property": "{pid}", "summary": "<one line: what was refactored>", "why_equivalent": "<the argument that behaviour
    is unchanged for every input>", "files_changed": [...], "test_suite": "<what you ran and the result>"}}

You MUST verify, for each change, that with the patch applied the existing tests still pass:
`cd {wt} && /venv/bin/python -m pytest -q -p no:cacheprovider -n 8 pydoctor/test` (the unchanged tree has 11 known failing tests:
test_epytext_inline, test_epytext_url, test_get_toc (2 files), test_nested_markup (2 files), test_unquote_naughty_quoted_strings, and a
few c-module/packaging ones — failures that also occur WITHOUT your patch do not count), and that the output of a real run is unchanged:
build the docs of pydoctor itself before and after (`/venv/bin/python -m pydoctor --project-name=x --html-output=/tmp/{pid}_out_<a|b>
--docformat=epytext -q {wt}/pydoctor`, fixed PYTHONHASHSEED=0) and `diff -r` the two output directories (must be identical), then delete them.
Think hard about equivalence on EDGE cases (empty inputs, None, duplicates, exceptions raised part-way, ordering, aliasing/mutation of
shared lists): a refactoring that changes behaviour on some corner input is NOT wanted here. Leave the worktree CLEAN at the end
(`git -C {wt} checkout -- .`; the benign_out directory is untracked and stays). Final message: list the {n} changes, one short paragraph each.""")
