#!/bin/bash
# Runs tools/seed_matrix.sh and tools/benign_matrix.sh for all properties, property groups in parallel (properties that share a
# generator module or a translated function stay in one serial group), then assembles seeded/RESULTS.md and benign/RESULTS.md.
cd /verif
R=$(mktemp -d /tmp/matrix_rows.XXXXXX)
groups=("C01 C08" "C06 C07" "C11 C12" "C02" "C03" "C04" "C05" "C09" "C10" "C13" "C14" "C15" "C16" "C17" "C18" "C19" "C20")
i=0
for g in "${groups[@]}"; do
  i=$((i+1))
  ( ONLY="$g" OUT=$R/seed_$i.md tools/seed_matrix.sh > $R/seed_$i.log 2>&1; ONLY="$g" OUT=$R/benign_$i.md tools/benign_matrix.sh > $R/benign_$i.log 2>&1 ) &
done
wait
for k in seed benign; do
  d=seeded; [ $k = benign ] && d=benign
  head -2 $R/${k}_1.md > $d/RESULTS.md
  for f in $R/${k}_*.md; do tail -n +3 $f; done | sort >> $d/RESULTS.md
done
echo "seeds:  $(grep -c 'caught' seeded/RESULTS.md) caught, $(grep -c 'MISSED' seeded/RESULTS.md) missed"
echo "benign: $(grep -c 'quiet' benign/RESULTS.md) quiet, $(grep -c 'no longer checks' benign/RESULTS.md) tie-broken, $(grep -c 'ALARM' benign/RESULTS.md) alarms"
rm -rf $R
