#!/bin/bash
# [SEEDDIR=/verif/benign] tools/run_seed.sh <seed_id> <Cxx> [tier]  -- applies /verif/seeded/<seed_id>/patch.diff in a scratch worktree and runs the check on it
ID=$1; PROP=$2; TIER=${3:-quick}
W=/tmp/runseed_${ID}_$$
git -C /repo worktree add --detach "$W" HEAD -q >/dev/null 2>&1
(cd "$W" && git apply --whitespace=nowarn ${SEEDDIR:-/verif/seeded}/$ID/patch.diff) || { echo "patch does not apply"; git -C /repo worktree remove --force "$W"; exit 2; }
cd /verif && VERIF_EVIDENCE_DIR=/tmp/verif_seed_evidence VERIF_REPO="$W" ./check $PROP --tier $TIER > /tmp/runseed_${ID}.out 2> /tmp/runseed_${ID}.err; rc=$?
echo "seed $ID vs $PROP ($TIER): rc=$rc $(grep -c '^VIOLATION' /tmp/runseed_${ID}.out) VIOLATION lines | $(grep '^VIOLATION' /tmp/runseed_${ID}.out | head -1)"
grep -A0 "^  " /tmp/runseed_${ID}.err | head -3
git -C /repo worktree remove --force "$W"
exit $rc
