"""C15 generators: encoded expression trees (see harness/impl/c15_colorize.py for the encoding)."""
from __future__ import annotations
import itertools
from typing import Any, List

U_ALL = [0, 1, 2, 3]                      # USub UAdd Not Invert
B_ALL = list(range(13))                   # Sub Add Mult Div FloorDiv Mod Pow LShift RShift BitOr BitXor BitAnd MatMult
B_QUICK = [0, 2, 6, 7, 9, 10, 11]         # one per precedence level: Sub Mult Pow LShift BitOr BitXor BitAnd
BOOL_ALL = [0, 1]
UOP_TXT = ['-', '+', 'not ', '~']
BOP_TXT = ['-', '+', '*', '/', '//', '%', '**', '<<', '>>', '|', '^', '&', '@']


def N(s: str) -> Any:
    return [1, s]


def K(src: str) -> Any:
    return [0, 0, src]


def S(s: str) -> Any:
    return [0, 1, [ord(c) for c in s]]


def leaves() -> List[Any]:
    return [N('a')]


def d1_forms(tier: str, x: Any = None, y: Any = None, z: Any = None) -> List[Any]:
    """Every form of the property's quantifier with leaf children (depth one)."""
    a, b, c = x or N('a'), y or N('b'), z or N('c')
    bops = B_ALL if tier == 'thorough' else B_QUICK
    out: List[Any] = []
    out += [[3, u, a] for u in U_ALL]
    out += [[4, o, a, b] for o in bops]
    out += [[5, o, [a, b]] for o in BOOL_ALL]
    if tier == 'thorough':
        out += [[5, o, [a, b, c]] for o in BOOL_ALL]
    out += [[13, 0, [2], a, [b]]]                                   # a < b
    if tier == 'thorough':
        out += [[13, 0, [2, 3], a, [b, c]], [13, 0, [8], a, [b]], [13, 0, [7], a, [b]]]
    out += [[13, 1, a, b, c]]                                       # b if a else c
    out += [[11, N('f'), [], []], [11, N('f'), [a], []], [11, N('f'), [a, b], []], [11, N('f'), [[12, a]], []],
            [11, N('f'), [], [['k', a]]], [11, N('f'), [], [[None, a]]], [11, N('f'), [a], [['k', b]]]]
    out += [[10, a, b], [10, a, [6, [b, c]]], [10, a, [6, []]], [10, a, [6, [b]]], [10, a, [13, 3, b, c, None]]]
    out += [[2, a, 'm']]
    out += [[6, []], [6, [a]], [6, [a, b]], [7, []], [7, [a]], [7, [a, b]], [8, [a]], [8, [a, b]],
            [9, []], [9, [[a, b]]], [9, [[None, a]]], [9, [[a, b], [None, c]]]]
    out += [[7, [[12, a]]], [6, [[12, a], b]], [8, [[12, a]]], [10, a, [6, [[12, b]]]]]
    out += [[13, 2, ['p'], a]]                                      # lambda p: a
    if tier == 'thorough':
        out += [[13, 4, a], [13, 5, a], [13, 5, None], [13, 6, 'w', a], [13, 7, a, N('t'), b, []],
                [13, 8, a, N('t'), b, []], [13, 9, ['s', a]], [13, 3, a, None, b], [13, 10, a, N('t'), b, []],
                [13, 11, a, b, N('t'), c], [13, 12, a]]
    return out


def slots(form: Any) -> int:
    return len(fill_positions(form))


def fill_positions(form: Any, path: tuple = ()) -> List[tuple]:
    """Paths of the Name leaves a/b/c (the child slots) inside a depth-one form."""
    out = []
    if isinstance(form, list):
        if len(form) == 2 and form[0] == 1 and form[1] in ('a', 'b', 'c'):
            return [path]
        for i, x in enumerate(form):
            out += fill_positions(x, path + (i,))
    return out


def put(form: Any, path: tuple, val: Any) -> Any:
    if not path:
        return val
    cp = list(form)
    cp[path[0]] = put(form[path[0]], path[1:], val)
    return cp


def valid_child(form: Any, path: tuple, child: Any) -> bool:
    """Python restricts where Starred / Slice may stand; everything else may stand anywhere an expression may."""
    return True


def is_operator_form(e: Any) -> bool:
    return e[0] in (3, 4, 5) or (e[0] == 13 and e[1] in (0, 1))


def depth2(tier: str) -> List[Any]:
    """Every form x every assignment of {leaf} + depth-one forms to its child slots; forms with more than two slots get
    every assignment in which at most two slots are not leaves.
    quick: every single-slot substitution for every form; pairs of substitutions with both children taken from the
    operator forms (unary, binary, boolean, comparison, conditional) -- the children whose display depends on the parent."""
    subs = d1_forms(tier)
    op_subs = [x for x in subs if is_operator_form(x)]
    out: List[Any] = []
    for form in d1_forms(tier):
        pos = fill_positions(form)
        if not pos:
            continue
        for k in (1, 2):
            pool = subs if (k == 1 or tier == 'thorough') else op_subs
            for chosen in itertools.combinations(range(len(pos)), k):
                for vals in itertools.product(pool, repeat=k):
                    e = form
                    for ci, v in zip(chosen, vals):
                        e = put(e, pos[ci], v)
                    out.append(e)
    return out


def op_contexts(tier: str) -> List[Any]:
    """One-hole operator contexts: functions hole -> expr."""
    bops = B_ALL if tier == 'thorough' else B_QUICK
    ctxs = []
    for u in (U_ALL if tier == 'thorough' else [0, 2, 3]):
        ctxs.append(lambda h, u=u: [3, u, h])
    for o in bops:
        ctxs.append(lambda h, o=o: [4, o, h, N('r')])
        ctxs.append(lambda h, o=o: [4, o, N('l'), h])
    for o in BOOL_ALL:
        ctxs.append(lambda h, o=o: [5, o, [h, N('r')]])
        ctxs.append(lambda h, o=o: [5, o, [N('l'), h]])
        if tier == 'thorough':
            ctxs.append(lambda h, o=o: [5, o, [N('l'), h, N('r')]])
    return ctxs


def chains3(tier: str) -> List[Any]:
    bops = B_ALL if tier == 'thorough' else B_QUICK
    bottoms = [[3, u, N('a')] for u in U_ALL] + [[4, o, N('a'), N('b')] for o in bops] + \
              [[5, o, [N('a'), N('b')]] for o in BOOL_ALL]
    cs = op_contexts(tier)
    return [c1(c2(b)) for c1 in cs for c2 in cs for b in bottoms]


def literal_leaves() -> List[Any]:
    out: List[Any] = []
    for src in ['0', '1', '7', '255', '1000000', '12345678901234567890123', '0x10', '0o17', '0b101', '1_000',
                '1.0', '0.5', '1.5e10', '1e100', '1e-7', '.5', '5.', '1e22', '1e16', '123456789.123456789', '0.1', '1e999',
                '1j', '0j', '2.5j', '1e10j', '1e999j', '1_0.0_1']:
        out.append(K(src))
    strs = ['', 'a', 'abc def', "it's", 'say "hi"', 'both \' and "', '\\', 'a\\b', '\\n', 'tab\there', 'nl\nhere', 'two\nnew\nlines',
            '\r', '\x0c', '\x0b', '\x00', '\x01', '\x1b', '\x7f', '\x85', '\xa0', 'é', 'ü ß', '日本語', ' ', ' ', '﻿',
            '\U0001f600', '\ud800', 'a\udfffb', "'''", '"""', "ends with '", "\\'", 'x' * 30, ' ', '  lead', 'trail  ',
            '{x}', '%s', '↵', '...', "'\n'"]
    for s in strs:
        out.append(S(s))
    byts = [b'', b'a', b'abc', b"it's", b'say "hi"', b'both \' and "', b'\\', b'\n', b'a\nb', b'\t', b'\r', b'\x00', b'\xff',
            b'\x7f', b'\x80abc', b"'", b'"', b"''", b"'\n'", b"a'\nb"]
    for bs in byts:
        out.append([0, 2, list(bs)])
    out += [[0, 3, None], [0, 4, None], [0, 5, None], [0, 6, None]]
    return out


def single_char_strings() -> List[Any]:
    cps = list(range(0, 0x180)) + [0x2028, 0x2029, 0x21b5, 0xd7ff, 0xd800, 0xdbff, 0xdc00, 0xdfff, 0xe000, 0xfffd, 0xfffe,
                                   0xffff, 0x10000, 0x10ffff]
    return [[0, 1, [cp]] for cp in cps] + [[0, 2, [b]] for b in range(256)]


def random_tree(rng: Any, depth: int, pos: str = 'expr') -> Any:
    """Mostly valid deeper trees over all forms."""
    names = ['a', 'b', 'c', 'xs', 'value', 'T']
    if depth <= 0 or rng.random() < 0.12:
        r = rng.random()
        if r < 0.5:
            return N(rng.choice(names))
        if r < 0.7:
            return K(rng.choice(['0', '1', '42', '2.5', '1e3', '3j', '10000000000']))
        if r < 0.85:
            return S(rng.choice(['', 'x', "it's", 'a\nb', 'longer string value', '"', '\\d+', 'nul\x00 here']))
        if r < 0.9:
            return [0, 2, list(rng.choice([b'', b'ab', b'\x00\xff', b'a"b', b"it's", b"a'\nb"]))]
        return [0, rng.choice([3, 4, 5, 6]), None]
    sub = lambda: random_tree(rng, depth - 1)
    r = rng.random()
    if r < 0.12:
        return [3, rng.choice(U_ALL), sub()]
    if r < 0.40:
        return [4, rng.choice(B_ALL), sub(), sub()]
    if r < 0.50:
        return [5, rng.choice(BOOL_ALL), [sub() for _ in range(rng.randint(2, 4))]]
    if r < 0.54:
        n = rng.randint(1, 2)
        return [13, 0, [rng.randrange(10) for _ in range(n)], sub(), [sub() for _ in range(n)]]
    if r < 0.57:
        return [13, 1, sub(), sub(), sub()]
    if r < 0.66:
        args = [sub() if rng.random() < 0.85 else [12, sub()] for _ in range(rng.randint(0, 3))]
        kws = [[rng.choice(['k', 'key', None]), sub()] for _ in range(rng.randint(0, 2))]
        return [11, rng.choice([N('f'), [2, N('m'), 'g'], sub()]), args, kws]
    if r < 0.74:
        k = rng.random()
        if k < 0.5:
            sl = sub()
        elif k < 0.7:
            sl = [6, [sub() if rng.random() < 0.9 else [12, sub()] for _ in range(rng.randint(0, 3))]]
        else:
            sl = [13, 3, sub() if rng.random() < 0.7 else None, sub() if rng.random() < 0.7 else None,
                  sub() if rng.random() < 0.2 else None]
        return [10, sub(), sl]
    if r < 0.79:
        return [2, rng.choice([N('m'), [2, N('m'), 'n'], sub()]), rng.choice(['x', 'attr'])]
    if r < 0.95:
        k = rng.randrange(4)
        elts = [sub() if rng.random() < 0.9 else [12, sub()] for _ in range(rng.randint(0, 4))]
        if k == 0:
            return [6, elts]
        if k == 1:
            return [7, elts]
        if k == 2:
            return [8, elts or [N('a')]]
        return [9, [[(sub() if rng.random() < 0.85 else None), sub()] for _ in range(rng.randint(0, 3))]]
    if r < 0.98:
        return [13, 2, ['p'][:rng.randint(0, 1)], sub()]
    return rng.choice([[13, 4, sub()], [13, 6, 'w', sub()], [13, 7, sub(), N('t'), sub(), []],
                       [13, 9, ['s', rng.choice([N('a'), [4, 1, N('a'), N('b')], [11, N('f'), [N('a')], []]])]]])


def has_re_compile(e: Any) -> bool:
    if not isinstance(e, list):
        return False
    if e and e[0] == 11 and e[1] == [2, [1, 're'], 'compile']:
        return True
    return any(has_re_compile(x) for x in e)


def re_compile_calls(tier: str) -> List[Any]:
    """Calls to re.compile displayed on their own (the regex colouriser): argument shapes x patterns."""
    RC = [2, [1, 're'], 'compile']
    I = [2, [1, 're'], 'I']
    pats = ['a+b', '', '(', 'a\nb', "it's", '[a-z]+\\d{2,3}', '(?P<n>x)|y', '\\bfoo\\b', 'caf\u00e9', 'a{1,1}(?i)', '[', 'x' * 30]
    if tier == 'thorough':
        pats += ['^$', '(?:ab)*?', '[^a]', '\\.', 'a|b|c', '(a)(b)\\2', '\\x41', '"', ' ', '(?=a)(?!b)(?<=c)(?<!d)', '\\Z', '.']
    out: List[Any] = []
    for p_ in pats:
        P = S(p_)
        out += [[11, RC, [P], []], [11, RC, [P, I], []], [11, RC, [P], [['flags', [4, 9, I, [2, [1, 're'], 'M']]]]],
                [11, RC, [], [['pattern', P]]], [11, RC, [], [['flags', K('0')], ['pattern', P]]]]
    P = S('a+b')
    out += [[11, RC, [P], [[None, N('kw')]]], [11, RC, [P], [['flags', I], [None, N('kw')]]], [11, RC, [[12, N('a')]], []],
            [11, RC, [P, K('1'), K('2')], []], [11, RC, [], [['foo', P]]], [11, RC, [P], [['pattern', P]]], [11, RC, [], []],
            [11, RC, [N('x')], []], [11, RC, [K('1')], []], [11, RC, [[0, 2, list(b'\\d+')]], []], [11, RC, [[0, 2, list(b'a\nb')]], [['flags', I]]],
            [11, RC, [P, I], [['flags', I]]], [11, RC, [[0, 3, None]], []], [11, RC, [P, [4, 1, N('a'), N('b')]], []]]
    return out
