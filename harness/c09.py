"""C09 -- rendering a docstring keeps its text: nothing is lost, altered or reordered."""
from __future__ import annotations
import json, random, re
from typing import Any, Dict, List, Optional, Tuple
import lib
from lib import PropertyCheck, Violation, enc, dec, txt
import c09_gen as G
import c09_docs as D

# ============================================================================================ segments
STYLE_NAMES = ['str', 'py-prompt', 'py-more', 'py-keyword', 'py-builtin', 'py-comment', 'py-string', 'py-defname',
               'py-output', 'py-except']


def seg_model_input(case: Dict[str, Any], obs: Dict[str, Any]) -> str:
    return enc([case['fn'], case['s'], obs['words'], obs['spaces'],
                [[t, [[a, b, k] for a, b, k in sp]] for t, sp in obs['tables']],
                obs['exs'], obs['excepts']])


def seg_model_canon(out: Any) -> Dict[str, Any]:
    return {'status': out[0], 'segs': [[g[0], txt(g[1])] for g in out[2]]}


def check_finditer_contract(text: str, spans: List[List[int]], words: List[int], spaces: List[int]) -> Optional[str]:
    """Spec.Conserve.finditer_contract restated on the spans the real `re` returned."""
    idx = 0
    n = len(text)
    W, S = set(words), set(spaces)
    for a, b, k in spans:
        if not (idx <= a <= b <= n):
            return 'span (%d,%d) out of order/range after %d (len %d)' % (a, b, idx, n)
        if k < 0:
            return 'span (%d,%d): not exactly one named alternative matched' % (a, b)
        if k == 7:
            if a != b:
                return 'EOS span (%d,%d) is not empty' % (a, b)
        elif a >= b:
            return 'empty span (%d,%d) of kind %d' % (a, b, k)
        if k == 2:
            t = text[a:b]
            i = 0
            while i < len(t) and ord(t[i]) in W:
                i += 1
            j = i
            while j < len(t) and ord(t[j]) in S:
                j += 1
            l = j
            while l < len(t) and ord(t[l]) in W:
                l += 1
            if not (0 < i < j < l == len(t)):
                return 'DEFINE span %r is not word+ space+ word+' % t
        idx = b
    if idx != n:
        return 'last span ends at %d, len(s) = %d (no \\Z match)' % (idx, n)
    if W & S:
        return r'\w and \s overlap on %r' % sorted(W & S)
    return None


def check_examples_contract(text: str, exs: List[List[int]]) -> Optional[str]:
    idx = 0
    for a, m, b in exs:
        if not (idx <= a <= m <= b <= len(text)):
            return 'example (%d,%d,%d) out of order/range after %d' % (a, m, b, idx)
        idx = b
    return None


_PYSPACE = None


def oracle_body(case: Dict[str, Any], obs: Dict[str, Any]) -> Optional[str]:
    """The property on one code / doctest body: the text of what the coloriser yields is the input, character for
    character (code); for doctest bodies the same up to white space at the end of an expected-output block
    (the only characters that may disappear are white space, at the end of a line, and one newline may be appended)."""
    s = case['s']
    if obs['status'] != 0:
        return 'the coloriser raised %s' % obs['exc']
    got = ''.join(t for _, t in obs['segs'])
    for st, t in obs['segs']:
        if st < 0:
            return 'unexpected yielded item (code %d): %r' % (st, t[:60])
    if case['fn'] == 0:
        if got != s:
            return 'colorize_codeblock_body does not conserve the text: %s' % first_diff(s, got)
    else:
        d = doctest_deviation(s, got)
        if d:
            return 'colorize_doctest_body: ' + d
    vis = obs.get('visible')
    if vis is None:
        return 'colorize_%s raised: %s' % ('codeblock' if case['fn'] == 0 else 'doctest', obs.get('visible_exc'))
    if vis != '\n' + got:
        return 'flattened <pre> text differs from the yielded text: %s' % first_diff('\n' + got, vis)
    return None


def first_diff(a: str, b: str) -> str:
    i = 0
    while i < len(a) and i < len(b) and a[i] == b[i]:
        i += 1
    return 'at %d expected %r got %r' % (i, a[max(0, i - 10):i + 20], b[max(0, i - 10):i + 20])


def ws_runs(s: str) -> List[Tuple[bool, str]]:
    out: List[Tuple[bool, str]] = []
    for ch in s:
        sp = ch.isspace()
        if out and out[-1][0] == sp:
            out[-1] = (sp, out[-1][1] + ch)
        else:
            out.append((sp, ch))
    return out


def doctest_deviation(s: str, got: str) -> Optional[str]:
    """`got` must be `s` where some white-space runs  X+P+Q  became  X+'\\n'+Q : P is white space that ends a line (or the
    string), and any whole line inside P is a non-blank white-space-only line (tabs, form feeds ... -- a blank line
    ends an expected-output block, so it is never removed).  Nothing else may change."""
    if got == s:
        return None
    a, b = ws_runs(s), ws_runs(got)
    if a and not a[-1][0]:
        a.append((True, ''))
    if b and not b[-1][0]:
        b.append((True, ''))
    if not a and b == [(True, '\n')]:
        a = [(True, '')]
    if len(a) != len(b):
        return 'text altered (different number of words) ' + first_diff(s, got)
    for k, ((sa, ta), (sb, tb)) in enumerate(zip(a, b)):
        if sa != sb:
            return 'text altered ' + first_diff(s, got)
        if ta == tb:
            continue
        if not sa:
            return 'text altered: %r became %r' % (ta, tb)
        last = k == len(a) - 1
        ok = False
        for x in range(len(ta) + 1):
            for cut in range(x, len(ta) + 1):
                X, P, Q = ta[:x], ta[x:cut], ta[cut:]
                if tb != X + '\n' + Q:
                    continue
                if not (P.endswith('\n') or (last and Q == '')):
                    continue
                inner = P.split('\n')[1:-1]
                if any(l.strip(' ') == '' for l in inner):
                    continue
                ok = True
                break
            if ok:
                break
        if not ok:
            return 'white space altered beyond the end of an expected-output block: %r became %r' % (ta, tb)
    return None


# ============================================================================================ fields
MSG = [
    lambda n, v: 'Unexpected argument in %s field' % n,
    lambda n, v: 'Parameter name missing',
    lambda n, v: 'Documented parameter "%s" does not exist' % n + (
        '' if v == 0 else ', variable keywords should be documented with the ' +
        ('"Keyword Arguments" section' if v == 1 else '"keyword" field')),
    lambda n, v: 'Parameter "%s" was already documented' % n,
    lambda n, v: 'Parameter "%s" is documented as keyword' % n,
    lambda n, v: 'Exception type missing',
    lambda n, v: "Unknown field '%s'" % n,
    lambda n, v: 'Field in variable docstring should not include a name',
]


def field_model_input(case: Dict[str, Any]) -> str:
    ctor = case.get('ctor') or []
    return enc([case['obj'], [[p[0], p[1], 1 if p[2] else 0] for p in case['sig']], case['ret'],
                [[p[0], p[1]] for p in ctor], 1 if case['unknown_base'] else 0, 1 if case['gn'] else 0,
                [[t, 0 if a is None else 1, a or ''] for t, a in case['fields']]])


def field_model_canon(out: Any) -> Dict[str, Any]:
    secs = []
    for lab, rows in out[0]:
        rr = []
        for name, ty, body in rows:
            tytext = None
            if ty:
                code, arg = ty[0]
                tytext = {0: lambda: 'T_' + txt(arg), 1: lambda: 'B%d' % arg, 2: lambda: txt(arg),
                          3: lambda: 'Unknown exception'}[code]()
            nm = None
            if name:
                nm = '*' * name[0][1] + txt(name[0][0]) + (':' if tytext is not None else '')
            rr.append([nm, tytext, 'B%d' % body[0] if body else 'Undocumented'])
        secs.append([txt(lab), rr])
    reps = [[r[0], MSG[r[1]](txt(r[2]), r[3])] for r in out[1]]
    return {'sections': secs, 'reports': reps, 'attr_type': ('B%d' % out[2][0]) if out[2] else None}


def field_impl_canon(obs: Dict[str, Any]) -> Dict[str, Any]:
    return {'sections': obs['sections'], 'reports': obs['reports'], 'attr_type': obs['attr_type']}


LABELS = {}
for _t in ('return', 'returns', 'rtype', 'returntype'):
    LABELS[_t] = ['Returns']
for _t in ('yield', 'yields', 'ytype', 'yieldtype'):
    LABELS[_t] = ['Yields']
for _t in ('param', 'arg', 'keyword', 'type'):
    LABELS[_t] = ['Parameters']
for _t in ('raise', 'raises', 'except'):
    LABELS[_t] = ['Raises']
for _t in ('warn', 'warns'):
    LABELS[_t] = ['Warns']
for _t in ('see', 'seealso'):
    LABELS[_t] = ['See Also']
LABELS['note'] = ['Note', 'Notes']
LABELS['author'] = ['Author', 'Authors']
LABELS['since'] = ['Present Since']
ELSEWHERE = ('ivar', 'cvar', 'var')
SLOT = {'return': 'return', 'returns': 'return', 'rtype': 'rtype', 'returntype': 'rtype', 'yield': 'yield', 'yields': 'yield',
        'ytype': 'ytype', 'yieldtype': 'ytype'}
PARAMISH = ('param', 'arg', 'keyword')


def stripped(a: Optional[str]) -> Optional[str]:
    return None if a is None else a.lstrip('*')


def first_types_key(case: Dict[str, Any]) -> Optional[str]:
    """the first key of FieldHandler.types: the first parameter of the signature, or -- for an empty signature -- the
    first name a @type field introduces"""
    if case['sig']:
        return case['sig'][0][0]
    for t, a in case['fields']:
        if t == 'type' and a is not None:
            return stripped(a)
    return None


def oracle_fields(case: Dict[str, Any], obs: Dict[str, Any]) -> List[Dict[str, Any]]:
    """C09 on one field list handled by the REAL FieldHandler: every field shows its text (the marker B<i>) exactly once,
    under the label its tag belongs to, or a warning was reported for it.  Returns one finding per silent loss, with the
    class of the loss computed from the INPUT alone (used to recognise the known findings)."""
    if obs.get('exc'):
        return [{'field': None, 'class': 'exception', 'what': 'FieldHandler raised ' + obs['exc'][:300]}]
    fields = case['fields']
    where: Dict[str, List[str]] = {}
    for lab, rows in obs['sections']:
        for name, ty, body in rows:
            for cell in (ty, body):
                if cell is not None and re.fullmatch(r'B\d+', cell):
                    where.setdefault(cell, []).append(lab)
    reported = {ln for ln, _ in obs['reports']}
    dup_reports = set()
    for ln, msg in obs['reports']:
        m = re.fullmatch(r'Parameter "(.*)" (?:was already documented|is documented as keyword)', msg, flags=re.S)
        if m:
            dup_reports.add(m.group(1))
    out = []
    is_fn = case['obj'] <= 3
    for i, (tag, arg) in enumerate(fields):
        mark = 'B%d' % i
        labs = where.get(mark, [])
        if tag in LABELS:
            want = LABELS[tag]
        elif tag in ELSEWHERE:
            want = None
        else:
            want = ['Unknown Field: ' + tag]
        if tag in ELSEWHERE and not is_fn:
            continue            # class / module variables are routed by extract_fields (checked on whole documents)
        if tag == 'type' and case['obj'] in (4, 5):
            continue            # idem: @type of a class / module variable
        if tag == 'type' and case['obj'] == 6:
            if obs['attr_type'] == mark or i in reported:
                continue
            later = any(t == 'type' for t, _ in fields[i + 1:])
            out.append({'field': i, 'tag': tag, 'class': 'type-replaced-in-attribute' if later else 'lost',
                        'what': '@type #%d of a variable docstring is neither the displayed type nor reported' % i})
            continue
        if len(labs) == 1 and want is not None and labs[0] in want:
            continue
        if len(labs) > 1:
            out.append({'field': i, 'tag': tag, 'class': 'duplicated',
                        'what': 'the text of field #%d @%s is shown %d times (%s)' % (i, tag, len(labs), labs)})
            continue
        if len(labs) == 1:
            out.append({'field': i, 'tag': tag, 'class': 'wrong-entry',
                        'what': 'the text of field #%d @%s is shown under %r, expected %r' % (i, tag, labs[0], want)})
            continue
        if i in reported:
            continue
        if tag in PARAMISH and arg is not None and stripped(arg) in dup_reports:
            continue
        # silently lost: classify from the input
        cls = 'lost'
        if tag in SLOT and any(SLOT.get(t) == SLOT[tag] for t, _ in fields[i + 1:]):
            cls = 'replaced:' + SLOT[tag]
        elif tag == 'type' and is_fn and arg is not None and any(
                t == 'type' and a is not None and stripped(a) == stripped(arg) for t, a in fields[i + 1:]):
            cls = 'replaced:type'
        elif tag == 'type' and case['obj'] in (1, 2) and arg is not None and \
                stripped(arg) == first_types_key(case) == ('self' if case['obj'] == 1 else 'cls') and not any(
                    t in PARAMISH and a is not None and stripped(a) == stripped(arg) for t, a in fields):
            cls = 'type-of-stripped-self'
        elif tag in ELSEWHERE and is_fn:
            cls = 'var-in-function'
        elif tag in PARAMISH and is_fn and arg is not None and any(
                t == 'keyword' and a is not None and stripped(a) == stripped(arg) for t, a in fields[i + 1:]):
            cls = 'replaced:keyword'
        out.append({'field': i, 'tag': tag, 'class': cls,
                    'what': 'field #%d @%s%s: its text appears nowhere in the rendered field table and no warning was '
                            'reported for it (%s)' % (i, tag, '' if arg is None else ' ' + arg, cls)})
    return out


def oracle_extract(case: Dict[str, Any], obs: Dict[str, Any]) -> List[Dict[str, Any]]:
    """C09 on the variables a class / module docstring documents: the text of @ivar/@cvar/@var x is the docstring of the
    attribute x (and of nothing else), the text of @type x its type, or the field is reported."""
    out = []
    fields = case['fields']
    reported = {r[0] for r in obs['reports']}
    for i, (tag, arg) in enumerate(fields):
        if tag not in ('ivar', 'cvar', 'var', 'type'):
            continue
        slot = 2 if tag == 'type' else 1
        holders = [a for a in obs['attrs'] if a[1] == i or a[2] == i]
        if arg is None:
            if i not in reported:
                out.append({'class': 'lost', 'what': '@%s without a name (#%d) is not reported' % (tag, i)})
            continue
        if len(holders) == 1 and holders[0][0] == arg and holders[0][slot] == i and holders[0][3 - slot] != i:
            continue
        if i in reported:
            continue
        later = any(t in ('ivar', 'cvar', 'var', 'type') and a == arg and (t == 'type') == (tag == 'type') for t, a in fields[i + 1:])
        cls = 'attr-replaced' if (later and not holders) else ('lost' if not holders else 'misplaced')
        out.append({'class': cls, 'what': 'field #%d @%s %s: its text is on %s (expected: the %s of %r), no warning (%s)'
                    % (i, tag, arg, [h[0] for h in holders] or 'no attribute', 'type' if slot == 2 else 'docstring', arg, cls)})
    return out


# ============================================================================================ the check
class Check(PropertyCheck):
    id = 'C09'
    props_module = 'Props.C09'
    models = {'segments': 'XSegments.v', 'fields': 'XFields.v', 'epyinline': 'XEpyInline.v', 'extract': 'XExtractFields.v', 'rstfields': 'XRstFields.v', 'epystruct': 'XEpyStruct.v',
              'fields_ir': 'XFieldsIR.v'}
    needs_gen = True
    gen_modules = ['gen_c09', 'gen_c09_code']
    rule = ('(A) code/doctest bodies: every string of <= N characters over a 10-letter alphabet of the characters the '
            'highlighter reacts to, a corpus, generated Python snippets / doctest sessions and random junk; non-trivial = at '
            'least 3 yielded pieces of 2 different styles; (B) field lists: every list of <= 2 fields over every handler tag '
            'x 4 arguments on 2 signatures (+ every single field on 6 objects), a corpus and random lists of <= 7 fields on '
            'random signatures/objects; non-trivial = at least 2 fields and one emitted section; (C) documents: N intended '
            'documents (paragraphs, nested bullet/ordered lists, bold/italic/code/links, literal, doctest and code blocks, a '
            'section, fields of every kind with multi-paragraph bodies and types, on a function / class / module) each '
            'serialised to epytext, restructuredtext, google and numpy + N plaintext docstrings; non-trivial = at least 2 block '
            'kinds and one field; (D) epytext inline markup: every string of <= N characters over {, }, B, x, E, <, >, space, '
            'generated well-formed markup trees (with the shown text known) and random junk, tree-for-tree against _colorize')
    trusted_base = [
        'Coq 8.16.1 kernel; vm_compute for the _refuted witnesses, Examples and table well-formedness; no native_compute; no axioms',
        'translator harness/gen/gen_c09.py (fail-closed): handle_* table, format() plan, str.rstrip class, pinned PROMPT2_RE/DEFINE_FUNC_RE',
        'translator harness/gen/gen_c09_code.py (fail-closed): the bodies of FieldHandler._report_unexpected_argument, _handle_param_name, '
        '_handle_param_not_found, handle_<tag> x14, handleUnknownField and resolve_types, statement by statement, into the language of Model/FieldsIR.v '
        '(Gen/FieldsCode.v); the meaning that Model/FieldsIR.v gives to its primitives (field.format() = the stan of the body, '
        'linker.link_to = a tag showing the name, str.lstrip/%-format/f-string/==, isinstance on self.obj, dict/list/defaultdict '
        'operations incl. pop/KeyError/values/remove, enumerate, attrs classes as records with value semantics, the pinned '
        '_SignatureDesc.is_documented, next(... reversed ...)/any(...) over a list) and the normalisations of the translator (aliases of '
        'self.<attribute>, inlined module-level helpers, hoisted conditional expressions, tuple assignment through temporaries) '
        '-- sampled against the real class by the fields_ir leg of the correspondence',
        'oracle contracts (Spec/Conserve.v): what re.finditer guarantees about DOCTEST_RE / DOCTEST_EXAMPLE_RE matches '
        '(checked on every span the real `re` returned during the run)',
        'extraction ExtrOcamlBasic only + coq/ocaml/driver.ml',
        'harness/c09.py, harness/c09_gen.py, harness/impl/c09_*.py',
    ]
    assumptions = ['re.finditer contract for DOCTEST_RE and DOCTEST_EXAMPLE_RE (Spec/Conserve.v)',
                   'the docstring is not inherited (field.source is self.obj) in the FieldHandler model']
    manifest = {
        'text': ('Theorems (unbounded) over executable Gallina models tied to /repo on every run: the code highlighter '
                 '(doctest.colorize_codeblock_body, subfunc, colorize_doctest_body) yields exactly the input text for every '
                 'string and every finditer result that satisfies the re.finditer contract, its assertions cannot fire '
                 '(C09_codeblock_conserves); doctest bodies likewise up to white space at the end of an expected-output block, '
                 'stated exactly (C09_doctest_conserves_partial, _exact_when_normal, _exact_refuted); FieldHandler (every handle_* '
                 'method, resolve_types, format; the handle_* table and the format() plan are REGENERATED from the live class) '
                 'shows the text of every field of a function docstring in exactly one row under the label its tag belongs to, '
                 'or reports it -- outside five input classes that are proved to be dropped silently (C09_fields_routed_partial, '
                 'eight _refuted witnesses: duplicate @return/@rtype/@yield/@ytype, duplicate @type x, @ivar/@cvar/@var in a '
                 'function, duplicate @keyword, @type self); format() emits every bucket once under the documented label '
                 '(C09_format_emits_every_bucket); parameter rows are in signature order, then leftovers, **kwargs last, '
                 'dropping only an undocumented self/cls (C09_param_order*); a plaintext docstring is one <p class=pre> holding '
                 'the docstring (C09_plaintext_exact). Tie: exhaustive + random piece-for-piece correspondence of both models '
                 'with the real functions (real regex spans fed to the model, contract checked on them), and a structure-aware '
                 'document generator rendered through format_docstring in epytext / reST / google / numpy / plaintext with the '
                 'property as oracle (word sequence of the description, verbatim blocks, every field under its entry or warned). '
                 'Tie of the FieldHandler model as THEOREMS: harness/gen/gen_c09_code.py translates the current bodies of handle / '
                 'handle_<tag> / handleUnknownField / _handle_param_name / _handle_param_not_found / _report_unexpected_argument '
                 'and resolve_types into a small statement language (Model/FieldsIR.v, Gen/FieldsCode.v) and C09_code_handle_is_model, '
                 '_handle_all_, _handler_, _unknown_field_, _param_name_, _param_not_found_, _unexpected_argument_, _resolve_types_, '
                 '_final_state_is_model prove that interpreting THAT code is Model/Fields.v for every object, field and state (same '
                 'buckets, same duplicate handling, same parameter order, same warning texts via Spec/Routing.render_report); '
                 'C09_code_fields_routed states the property on the translated code; the interpreted code is a third leg of the '
                 'correspondence. format() stays hand-modelled over the regenerated plan (sampled).'),
        'note': ('Also proved since the first version: extract_fields lands every @ivar/@cvar/@var/@type on exactly one '
                 'attribute or reports it (C09_extract_fields_routed_partial, guard = replaced by a later field for the same '
                 'name and slot); the reST field splitter can only keep a field as it is, split a well-formed consolidated '
                 'bullet / definition list item by item keeping all of its text, or report (C09_rst_field_split, _conserves); '
                 'the epytext block structurer drops no token except a paragraph it reports as improperly indented '
                 '(C09_epytext_structure_keeps_tokens; it can raise TypeError, C09_epytext_structure_crash_witness); the inline '
                 'coloriser theorem covers links under a contract on its two regexes (C09_epytext_inline_conserves); guard '
                 'class (d) of C09_fields_routed_partial is exact. Not modelled (document oracle only): the line tokenizers '
                 '(epytext _tokenize, docutils parser, napoleon), node2stan. Trusted: Coq kernel, gen_c09.py, the regex oracle '
                 'contracts (re-checked on what the real regexes returned), extraction + driver, the Python harness. Known '
                 'findings on the unchanged tree: see known_findings/C09.json.'),
        'technique': 'Coq proof (conservation by induction over span lists; counting invariant over the field fold) + regenerated tables + exhaustive/random correspondence + generated-document oracle',
    }

    # ------------------------------------------------------------------ A. bodies
    def body_cases(self) -> List[Dict[str, Any]]:
        quick = self.tier == 'quick'
        cases = [{'fn': fn, 's': s} for fn, s in G.BODY_CORPUS]
        n_small = 4 if quick else 5
        small = G.small_strings(n_small, G.SMALL_ALPHABET)
        cases += [{'fn': 0, 's': s} for s in small]
        small_dt = G.small_strings(3 if quick else 4, ['>', ' ', '\n', 'a', '.', '\t'])
        cases += [{'fn': 1, 's': '>>> a\n' + s} for s in small_dt]
        self.stats['bodies_exhaustive'] = len(small) + len(small_dt)
        self.stats['bodies_exhaustive_bound'] = 'len<=%d over %r' % (n_small, ''.join(G.SMALL_ALPHABET))
        n = 1200 if quick else 40000
        for _ in range(n):
            cases.append({'fn': 0, 's': G.rand_codeblock(self.rng)})
        for _ in range(n // 2):
            cases.append({'fn': 1, 's': G.rand_doctest(self.rng)})
        for _ in range(n // 4):
            cases.append({'fn': self.rng.randint(0, 1), 's': G.rand_junk(self.rng, self.rng.randint(1, 40))})
        self.stats['bodies_random'] = n + n // 2 + n // 4
        return cases

    def check_bodies(self, cases: List[Dict[str, Any]]) -> List[Violation]:
        out: List[Violation] = []
        obs = lib.run_impl_worker('c09_segments.py', cases, jobs=16)
        mod = self.model('segments', [seg_model_input(c, o) for c, o in zip(cases, obs)])
        nt = set()
        ncorr = norac = 0
        for c, o, m in zip(cases, obs, mod):
            self.count('body_fn_%d' % c['fn'])
            self.count('body_status_%d' % o['status'])
            for st, _ in o['segs']:
                self.count('style_' + (STYLE_NAMES[st] if 0 <= st < len(STYLE_NAMES) else 'other'))
            if len(o['segs']) >= 3 and len({st for st, _ in o['segs']}) >= 2:
                nt.add((c['fn'], c['s']))
            # contract of the regex oracles, on what `re` really returned
            bad = None
            for t, sp in o['tables']:
                bad = bad or check_finditer_contract(t, sp, o['words'], o['spaces'])
            if c['fn'] == 1:
                bad = bad or check_examples_contract(c['s'], o['exs'])
            if bad and ncorr < 8:
                ncorr += 1
                out.append(Violation('correspondence', 'the spans returned by the real regex break the finditer contract the '
                                     'theorems assume: ' + bad, case={'body': c}, observed=o['tables']))
            mm = seg_model_canon(dec(m))
            if (mm['status'] != o['status'] or (o['status'] == 0 and mm['segs'] != o['segs'])) and ncorr < 8:
                ncorr += 1
                out.append(Violation('correspondence', 'Model.Segments and pydoctor.epydoc.doctest disagree on the yielded pieces',
                                     case={'body': c}, expected=mm, observed={'status': o['status'], 'segs': o['segs'], 'exc': o['exc']}))
            w = oracle_body(c, o)
            if w and norac < 8:
                norac += 1
                out.append(Violation('oracle', w, case={'body': c}, observed={'segs': o['segs'], 'visible': o['visible']}))
        self.evaluations += len(cases)
        self.nontrivial_bodies = len(nt)
        for c in cases[len(cases) // 2: len(cases) // 2 + 2]:
            self.sample({'body': c})
        return out

    # ------------------------------------------------------------------ B. field lists
    def field_cases(self) -> List[Dict[str, Any]]:
        quick = self.tier == 'quick'
        cases = [dict(c) for c in G.FIELD_CORPUS]
        ex = G.exhaustive_field_cases(2)
        if quick:
            # the pairs are 2 x 108^2 = 23k lists: quick runs every single field and a fixed third of the pairs
            singles = [c for c in ex if len(c['fields']) <= 1]
            pairs = [c for c in ex if len(c['fields']) == 2]
            ex = singles + pairs[self.seed % 3::3]
            self.stats['fields_exhaustive_bound'] = 'all lists of <= 1 field; 1/3 of all lists of 2 fields'
        else:
            self.stats['fields_exhaustive_bound'] = 'all lists of <= 2 fields'
        cases += ex
        self.stats['fields_exhaustive'] = len(ex)
        n = 1500 if quick else 60000
        for _ in range(n):
            cases.append(G.rand_field_case(self.rng))
        self.stats['fields_random'] = n
        return cases

    def check_fields(self, cases: List[Dict[str, Any]]) -> List[Violation]:
        out: List[Violation] = []
        obs = lib.run_impl_worker('c09_fields.py', cases, jobs=16)
        mod = self.model('fields', [field_model_input(c) for c in cases])
        # the interpretation of the code TRANSLATED from epydoc2stan.py (Gen/FieldsCode.v): third leg of the comparison
        modir = self.model('fields_ir', [field_model_input(c) for c in cases])
        nir = 0
        for c, o, mi in zip(cases, obs, modir):
            ir = dec(mi)
            if ir[0] != 1:
                canon_ir: Any = 'the interpreter of the translated code is stuck'
            else:
                canon_ir = field_model_canon([ir[1], [], ir[3]])
                canon_ir['reports'] = [[r[0], txt(r[1])] for r in ir[2]]
            if canon_ir != field_impl_canon(o) and nir < 4:
                nir += 1
                out.append(Violation('correspondence', 'the code translated from epydoc2stan.FieldHandler (Gen/FieldsCode.v, interpreted '
                                     'by Model.FieldsIR) and the real FieldHandler disagree (sections / warnings): the translator or '
                                     'the statement language misrepresents the source',
                                     case={'fields': c}, expected=canon_ir, observed=field_impl_canon(o) if not o.get('exc') else o))
        ncorr = 0
        nt = set()
        per_class: Dict[str, int] = {}
        for c, o, m in zip(cases, obs, mod):
            self.count('fields_obj_%d' % c['obj'])
            self.count('fields_len_%d' % min(len(c['fields']), 8))
            if o.get('exc'):
                self.count('fields_impl_exception')
            mm = field_model_canon(dec(m))
            oo = field_impl_canon(o)
            if len(c['fields']) >= 2 and o.get('sections'):
                nt.add(json.dumps(c, sort_keys=True))
            if mm != oo and ncorr < 8:
                ncorr += 1
                out.append(Violation('correspondence', 'Model.Fields and epydoc2stan.FieldHandler disagree (sections / reports)',
                                     case={'fields': c}, expected=mm, observed=oo if not o.get('exc') else o))
            for f in oracle_fields(c, o):
                per_class[f['class']] = per_class.get(f['class'], 0) + 1
                if per_class[f['class']] <= 3:
                    out.append(Violation('oracle', f['what'], case={'fields': c}, observed=dict(f, sections=o['sections'],
                                                                                                 reports=o['reports'])))
        for k, v in per_class.items():
            self.stats['fields_oracle_' + k] = v
        self.evaluations += len(cases)
        self.nontrivial_fields = len(nt)
        for c in cases[-2:]:
            self.sample({'fields': c})
        return out

    # ------------------------------------------------------------------ G. the epytext block structurer
    def check_epystruct(self) -> List[Violation]:
        import random
        out: List[Violation] = []
        n = 500 if self.tier == 'quick' else 15000
        cases = ["para\n\n  - item\n    more\n  - item2\n\n      1. sub\n      2. sub2\n\npara2\n\nHead\n====\n\ntext::\n\n   lit\n\n>>> 1\n1\n\n@param x: y\n@return: z\n",
                 " bad\nindent\n  worse\n", "Head\n====\nSub\n---\ntext\n\nHead2\n=====\n", "- top list\n", "@field: x\n\npara after\n",
                 "  1. a\n  3. b\n  4. c\n", "p\n    - a\n  - b\n", "", "x", "Sub\n---\n", "  - a\n\n    Head\n    ====\n", "@a: x\n  - l\n@b: y\n", "- z\n\nTopic\n=====\ntext"]
        base = []
        for _ in range(n):
            base.append(G.serialise(G.gen_doc(random.Random(self.rng.randrange(1 << 30)), 'epytext'), 'epytext'))
        cases += base

        def mutate(s: str) -> str:
            lines = s.split('\n')
            for _ in range(self.rng.randint(1, 3)):
                k = self.rng.randrange(len(lines))
                r = self.rng.random()
                if r < 0.4:
                    lines[k] = ' ' * self.rng.randint(0, 6) + lines[k].lstrip()
                elif r < 0.6:
                    lines.insert(k, '')
                elif r < 0.8:
                    lines.insert(k, self.rng.choice(['Title', '=====', '-----', '~~~', '@x: y', '- z', '3. q', '>>> 1', '  @y: z']))
                else:
                    del lines[k]
                if not lines:
                    lines = ['']
            return '\n'.join(lines)
        cases += [mutate(c) for c in base]
        obs = lib.run_impl_worker('c09_epystruct.py', cases, jobs=16)
        mod = self.model('epystruct', [enc([[t[0], [t[1]] if t[1] is not None else [], t[2], t[3], t[4], t[5], t[6]]
                                            for t in o['tokens']]) for o in obs])

        def canon(nd: Any) -> Any:
            return [0, nd[1]] if nd[0] == 0 else [1, nd[1]] + [canon(k) for k in nd[3:]]

        def preorder(nd: Any) -> List[int]:
            if nd[0] == 0:
                return [nd[1]]
            return ([4] if nd[1] in (5, 6) else []) + [x for k in nd[2:] for x in preorder(k)]
        ncorr = norac = 0
        for c, o, m in zip(cases, obs, mod):
            if o.get('exc'):
                mm = dec(m)
                typeerr = o['exc'].startswith("TypeError: '<' not supported between instances of 'int' and 'NoneType'")
                if typeerr and mm[0] == 1 and mm[2] == [1]:
                    # the model crashes on the same tokens, at the same comparison (indent < None)
                    self.count('epystruct_typeerror')
                    out.append(Violation('oracle', 'epytext.parse raised ' + o['exc'][:120], case={'epystruct': c},
                                         observed={'class': 'epytext-parse-typeerror'}))
                else:
                    out.append(Violation('oracle', 'epytext.parse raised ' + o['exc'][:300], case={'epystruct': c},
                                         observed={'class': 'exception'}))
                continue
            self.count('epystruct_errors_%d' % min(len(o['errors']), 3))
            mm = dec(m)
            if mm[0] != 0:
                m_tree, m_errs = None, 'crash %s' % mm[2]
            else:
                m_tree, m_errs = canon(mm[1]), [[e[0], e[1]] for e in mm[2]]
            if (m_tree != o['tree'] or m_errs != o['errors']) and ncorr < 8:
                ncorr += 1
                out.append(Violation('correspondence', 'Model.EpyStruct and epytext.parse disagree (tree / structuring errors)',
                                     case={'epystruct': c}, expected={'tree': m_tree, 'errors': m_errs},
                                     observed={'tree': o['tree'], 'errors': o['errors']}))
            # the property on the real tree: its blocks, in document order, are the tokens, in order; one may only be
            # missing when "Improper paragraph indentation" was reported
            if o['tree'] is not None:
                got = preorder(o['tree'])
                want = [t[0] for t in o['tokens']]
                if got != want and not any(e[0] == 1 for e in o['errors']) and norac < 8:
                    norac += 1
                    out.append(Violation('oracle', 'epytext.parse: %d tokens, %d blocks in the tree, no indentation error reported: '
                                         'tokens %s, tree %s' % (len(want), len(got), want, got), case={'epystruct': c},
                                         observed={'class': 'epytext-token-dropped', 'errors': o['errors']}))
        self.evaluations += len(cases)
        self.stats['epystruct_cases'] = len(cases)
        return out

    # ------------------------------------------------------------------ F. the reST field splitter
    def check_rstfields(self) -> List[Violation]:
        out: List[Violation] = []
        n = 1200 if self.tier == 'quick' else 30000
        cases = list(G.RST_FIELD_CORPUS) + [G.gen_rst_fieldlist(self.rng) for _ in range(n)]
        # a stream of its own (the main stream is left as it was): definition-list terms that say more than the one identifier
        st = self.rng.getstate()
        r2 = random.Random(self.rng.getrandbits(64))
        self.rng.setstate(st)
        cases += [G.gen_rst_deflist_terms(r2) for _ in range(200 if self.tier == 'quick' else 4000)]
        obs = lib.run_impl_worker('c09_rstfields.py', cases, jobs=16)
        ins = [enc([o['in'], o['lowers']]) for o in obs]
        mod = self.model('rstfields', ins)

        def canon(nd: Any) -> Any:
            return [0, txt(nd[1])] if nd[0] == 0 else [1, nd[1]] + [canon(k) for k in nd[2:]]

        def leaves(nd: Any) -> List[str]:
            return [nd[1]] if nd[0] == 0 else [x for k in nd[2:] for x in leaves(k)]
        ncorr = norac = 0
        for c, o, m in zip(cases, obs, mod):
            if o.get('exc'):
                out.append(Violation('oracle', 'restructuredtext.parse_docstring raised ' + o['exc'][:300], case={'rstfields': c},
                                     observed={'class': 'exception'}))
                continue
            if o['nested']:
                self.count('rstfields_nested_skipped')
                continue
            self.count('rstfields_errors_%d' % min(len(o['errors']), 3))
            mm = dec(m)
            mf = [[txt(f[0]).lower().strip(), (txt(f[1][0]).strip() if f[1] else None), [canon(x) for x in f[2]], bool(f[3])]
                  for f in mm[0]]
            me = [[e[0], e[1]] for e in mm[1]]
            if (mf != o['out'] or me != o['errors']) and ncorr < 8:
                ncorr += 1
                out.append(Violation('correspondence', 'Model.RstFields and _SplitFieldsTranslator disagree', case={'rstfields': c},
                                     expected={'fields': mf, 'errors': me}, observed={'fields': o['out'], 'errors': o['errors']}))
            # the property on the real output: every Text leaf of every field body is in the body of a produced field,
            # or is the argument of one, give or take the separator after the marked identifier
            pool: List[str] = []
            for tag, arg, body, newfield in o['out']:
                if newfield:
                    continue
                if arg is not None:
                    pool.append(arg)
                for nd in body:
                    pool += leaves(nd)
            missing = []
            for name, body in o['in']:
                for nd in body:
                    for leaf in leaves(nd):
                        cands = [leaf, leaf.strip(), re.sub(r'^ ?[:-]\s*', '', leaf)]
                        for cand in cands:
                            if cand in pool:
                                pool.remove(cand)
                                break
                        else:
                            if leaf.strip(' :-') != '':
                                missing.append(leaf)
            if missing and norac < 8:
                norac += 1
                out.append(Violation('oracle', 'reST field list: the text %r of a field body is in no field that was produced '
                                     '(errors reported: %s)' % (missing[:3], o['errors']), case={'rstfields': c},
                                     observed={'class': 'rst-field-text-lost', 'fields': o['out']}))
        self.evaluations += len(cases)
        self.stats['rstfields_cases'] = len(cases)
        return out

    # ------------------------------------------------------------------ E. extract_fields
    def extract_cases(self) -> List[Dict[str, Any]]:
        import itertools
        tags = ['ivar', 'cvar', 'var', 'type', 'note', 'param']
        args = [None, 'a', 'm', 'zz']
        atoms = [[t, a] for t in tags for a in args]
        envs = [{'obj': 4, 'members': [['a', 0], ['m', 1]]}, {'obj': 5, 'members': [['a', 0], ['m', 1], ['K', 2]]}]
        cases = []
        for e in envs:
            for n in (0, 1, 2):
                for combo in itertools.product(atoms, repeat=n):
                    cases.append(dict(e, fields=[list(x) for x in combo]))
        self.stats['extract_exhaustive'] = len(cases)
        n = 400 if self.tier == 'quick' else 20000
        for _ in range(n):
            members = [[nm, self.rng.randint(0, 2)] for nm in self.rng.sample(['a', 'b', 'm', 'K', 'x'], self.rng.randint(0, 4))]
            fields = [[self.rng.choice(tags + ['ivar', 'type']), self.rng.choice(args + ['b', 'x', 'K'])]
                      for _ in range(self.rng.randint(0, 7))]
            cases.append({'obj': self.rng.choice([4, 5]), 'members': members, 'fields': fields})
        self.stats['extract_random'] = n
        return cases

    def check_extract(self, cases: List[Dict[str, Any]]) -> List[Violation]:
        out: List[Violation] = []
        obs = lib.run_impl_worker('c09_extract.py', cases, jobs=16)
        ins = [enc([o['before'] or [], [[t, 0 if a is None else 1, a or ''] for t, a in c['fields']]]) for c, o in zip(cases, obs)]
        mod = self.model('extract', ins)
        ncorr = 0
        per_class: Dict[str, int] = {}
        for c, o, m in zip(cases, obs, mod):
            if o.get('exc'):
                out.append(Violation('oracle', 'extract_fields raised ' + o['exc'][:300], case={'extract': c}, observed={'class': 'exception'}))
                continue
            mm = dec(m)
            m_attrs = [[txt(a[0]), a[1][0] if a[1] else None, a[2][0] if a[2] else None, a[3][0] if a[3] else None, bool(a[4])]
                       for a in mm[0]]
            o_reports = [r[0] for r in o['reports']]
            if (m_attrs != o['attrs'] or mm[1] != o_reports) and ncorr < 8:
                ncorr += 1
                out.append(Violation('correspondence', 'Model.ExtractFields and epydoc2stan.extract_fields disagree',
                                     case={'extract': c}, expected={'attrs': m_attrs, 'reports': mm[1]},
                                     observed={'attrs': o['attrs'], 'reports': o['reports']}))
            for f in oracle_extract(c, o):
                per_class[f['class']] = per_class.get(f['class'], 0) + 1
                if per_class[f['class']] <= 3:
                    out.append(Violation('oracle', f['what'], case={'extract': c}, observed=dict(f, attrs=o['attrs'], reports=o['reports'])))
        for k, v in per_class.items():
            self.stats['extract_oracle_' + k] = v
        self.evaluations += len(cases)
        return out

    # ------------------------------------------------------------------ D. epytext inline markup
    def inline_cases(self) -> List[Dict[str, Any]]:
        quick = self.tier == 'quick'
        cases: List[Dict[str, Any]] = [{'text': t} for t in [
            '', 'plain', 'B{bold} x', 'a C{x{y}z} I{B{n}}', '{lit}', 'X{unk}', 'a } b', 'B{open', 'E{lb}E{rb}E{.}E{xx}',
            'S{alpha} S{nope}', 'U{label<http://x.y>} L{a.b} L{bad name} U{www.x.org} L{f()}', 'L{a B{b}<t.u>}', 'L{B{b}}',
            'ABC{x}', 'x{', '}', 'E{}', 'S{}', 'L{}', 'U{<x>}', 'L{a<b>c}', 'L{x <URL:http://a.b>}', 'B{a}{b}', 'aB{c}', 'B{}']]
        small = G.small_strings(4 if quick else 6, ['{', '}', 'B', 'x', 'E', '<', '>', ' '])
        cases += [{'text': t} for t in small]
        self.stats['inline_exhaustive'] = len(small)
        n = 1500 if quick else 40000
        for _ in range(n):
            ast = G.gen_inline_ast(self.rng)
            cases.append({'text': G.inline_print(ast), 'want': G.inline_visible(ast)})
        for _ in range(n // 3):
            pool = ['{', '}', 'B', 'L', 'U', 'E', 'S', 'x', ' ', '<', '>', 'lb', 'alpha', '.', 'a.b', 'http://x', 'é', '\n']
            cases.append({'text': ''.join(self.rng.choice(pool) for _ in range(self.rng.randint(1, 14)))})
        self.stats['inline_random'] = n + n // 3
        return cases

    def check_inline(self, cases: List[Dict[str, Any]]) -> List[Violation]:
        out: List[Violation] = []
        obs = lib.run_impl_worker('c09_epyinline.py', [c['text'] for c in cases], jobs=16)
        ins = [enc([c['text'], [[a, m, x, y] for a, m, x, y in o['splits']], [[t, tg, ok, cl] for t, tg, ok, cl in o['targets']]])
               for c, o in zip(cases, obs)]
        mod = self.model('epyinline', ins)

        def canon(t: Any) -> Any:
            if t[0] == 0:
                return [0, txt(t[1])]
            return [1, t[1]] + [canon(k) for k in t[2:]]
        ncorr = norac = 0
        nt = 0
        for c, o, m in zip(cases, obs, mod):
            if o.get('exc'):
                if ncorr < 5:
                    ncorr += 1
                    out.append(Violation('oracle', 'epytext._colorize raised ' + o['exc'], case={'inline': c}, observed={'class': 'exception'}))
                continue
            mm = dec(m)
            m_tree = canon(mm[0])
            m_errs = [[5 if e[0] == 6 else e[0], 0 if e[0] == 7 else e[1]] for e in mm[1]]
            o_errs = [[e[0], 0 if e[0] == 7 else e[1]] for e in o['errors']]
            self.count('inline_errors_%d' % min(len(o_errs), 3))
            if '{' in c['text'] and not o_errs:
                nt += 1
            if (m_tree != o['tree'] or m_errs != o_errs or (o['visible'] is not None and o['visible'] != txt(mm[2]))) and ncorr < 8:
                ncorr += 1
                out.append(Violation('correspondence', 'Model.EpyInline and epytext._colorize disagree', case={'inline': c},
                                     expected={'tree': m_tree, 'errors': m_errs, 'visible': txt(mm[2])},
                                     observed={'tree': o['tree'], 'errors': o_errs, 'visible': o['visible']}))
            w = self.inline_oracle(c, o)
            if w and norac < 8:
                norac += 1
                out.append(Violation('oracle', w, case={'inline': c}, observed={'class': 'inline-text', 'visible': o['visible'],
                                                                                   'errors': o['errors']}))
        self.evaluations += len(cases)
        self.nontrivial_inline = nt
        return out

    @staticmethod
    def inline_oracle(c: Dict[str, Any], o: Dict[str, Any]) -> Optional[str]:
        if 'want' not in c:
            return None
        if o['errors']:
            return 'well-formed inline markup %r is reported as an error: %s' % (c['text'], o['errors'])
        if o['visible'] != c['want']:
            return 'inline markup %r is shown as %r, the author wrote %r' % (c['text'], o['visible'], c['want'])
        return None

    # ------------------------------------------------------------------ C. whole documents
    def doc_cases(self, n: int, nplain: int) -> List[Dict[str, Any]]:
        cases: List[Dict[str, Any]] = []
        for doc in G.DOC_CORPUS:
            for fmt in D.FORMATS:
                cases.append({'doc': doc, 'fmt': fmt})
        for _ in range(n):
            # the same intended document in every format (blocks a format cannot express are regenerated for it)
            seed = self.rng.randrange(1 << 30)
            for fmt in D.FORMATS:
                import random
                doc = G.gen_doc(random.Random(seed), fmt)
                cases.append({'doc': doc, 'fmt': fmt})
        for _ in range(nplain):
            cases.append({'plaintext': G.gen_plaintext(self.rng)})
        for raw in ['', 'x', ' x ', '\n  a\n    b\n  c\n', 'a\n\n\nb', '<p>&amp;</p>', 'tab\there', '@param x: y', 'a\r\nb',
                    '\u2028x', 'x\x0by', '   ', 'é' * 3, 'line\\\nnext']:
            cases.append({'plaintext': raw})
        return cases

    @staticmethod
    def doc_worker_case(c: Dict[str, Any]) -> Dict[str, Any]:
        if 'plaintext' in c:
            return {'docformat': 'plaintext', 'source': 'def f():\n    %r\n' % c['plaintext'], 'target': 'm.f', 'also': []}
        doc, fmt = c['doc'], c['fmt']
        src, tgt = G.source_for(doc, G.serialise(doc, fmt))
        return {'docformat': fmt, 'source': src, 'target': tgt,
                'also': [f[1] for f in doc['fields'] if f[0] in ('ivar', 'cvar', 'var')]}

    @staticmethod
    def doc_oracle(c: Dict[str, Any], o: Dict[str, Any]) -> Optional[Dict[str, Any]]:
        if 'plaintext' in c:
            return D.oracle_plaintext(c['plaintext'], o)
        return D.oracle_doc(c['doc'], c['fmt'], o)

    def check_docs(self, cases: List[Dict[str, Any]]) -> List[Violation]:
        out: List[Violation] = []
        obs = lib.run_impl_worker('c09_docs.py', [self.doc_worker_case(c) for c in cases], jobs=16)
        per_class: Dict[str, int] = {}
        nt = 0
        for c, o in zip(cases, obs):
            fmt = c.get('fmt', 'plaintext')
            self.count('docs_' + fmt)
            if 'doc' in c:
                kinds = {b[0] for b in c['doc']['blocks']}
                for k in kinds:
                    self.count('docs_block_' + k)
                self.count('docs_fields', len(c['doc']['fields']))
                if len(kinds) >= 2 and c['doc']['fields']:
                    nt += 1
            if o.get('msgs'):
                self.count('docs_with_warnings')
            r = self.doc_oracle(c, o)
            if r:
                per_class[r['class']] = per_class.get(r['class'], 0) + 1
                if per_class[r['class']] <= 3:
                    out.append(Violation('oracle', '[%s] %s' % (fmt, r['what']), case={'document': c},
                                         observed={'class': r['class'], 'html': (o.get('html') or '')[:3000], 'msgs': o.get('msgs')}))
        for k, v in per_class.items():
            self.stats['docs_oracle_' + k] = v
        self.evaluations += len(cases)
        self.nontrivial_docs = nt
        self.sample({'document': {'fmt': cases[0].get('fmt'), 'docstring': G.serialise(cases[0]['doc'], cases[0]['fmt'])}}
                    if 'doc' in cases[0] else {'document': cases[0]})
        return out

    # ------------------------------------------------------------------ driver hooks
    def correspondence(self) -> List[Violation]:
        out: List[Violation] = []
        quick = self.tier == 'quick'
        out += self.check_bodies(self.body_cases())
        out += self.check_fields(self.field_cases())
        out += self.check_inline(self.inline_cases())
        out += self.check_extract(self.extract_cases())
        out += self.check_rstfields()
        out += self.check_epystruct()
        out += self.check_docs(self.doc_cases(600 if quick else 10000, 600 if quick else 10000))
        self.exhaustive = True
        self.stats['distinct_nontrivial'] = (self.nontrivial_bodies + self.nontrivial_fields + self.nontrivial_docs
                                             + self.nontrivial_inline)
        return out

    def search(self, broken: List[Violation]) -> List[Violation]:
        # the oracle already ran on every case; widen the streams once with another seed
        import random
        self.rng = random.Random(self.seed + 1)
        self.tier = 'thorough' if self.tier == 'quick' else self.tier
        found: List[Violation] = []
        cases = [{'fn': 0, 's': G.rand_codeblock(self.rng)} for _ in range(6000)] + \
                [{'fn': 1, 's': G.rand_doctest(self.rng)} for _ in range(3000)]
        found += [v for v in self.check_bodies(cases) if v.kind == 'oracle']
        if not found:
            fc = [G.rand_field_case(self.rng) for _ in range(8000)]
            known, _ = lib.load_known_findings(self.id)
            found += [v for v in self.check_fields(fc) if v.kind == 'oracle' and self.classify_known(v, known) is None]
        return found[:3]

    def classify_known(self, v: Violation, known: List[dict]) -> Optional[dict]:
        if v.kind != 'oracle' or not isinstance(v.observed, dict):
            return None
        cls = v.observed.get('class')
        for k in known:
            if cls is not None and cls in k.get('match', {}).get('classes', []):
                return k
        return None

    def replay(self, data: Any) -> int:
        case = data['input']
        if 'body' in case:
            c = case['body']
            o = lib.run_impl_worker('c09_segments.py', [c])[0]
            w = oracle_body(c, o)
            print('input   :', repr(c['s']), '(colorize_%s_body)' % ('codeblock' if c['fn'] == 0 else 'doctest'))
            print('yielded :', o['segs'], o['exc'])
            print('property:', w or 'holds on this input')
            return 1 if w else 0
        if 'fields' in case:
            c = case['fields']
            o = lib.run_impl_worker('c09_fields.py', [c])[0]
            fs = oracle_fields(c, o)
            known, _ = lib.load_known_findings(self.id)
            print('input   :', json.dumps(c))
            print('sections:', o['sections'])
            print('reports :', o['reports'])
            bad = 0
            for f in fs:
                v = Violation('oracle', f['what'], case=case, observed=f)
                k = self.classify_known(v, known)
                print('property:', f['what'], '[KNOWN: %s]' % k['id'] if k else '')
                bad += 1
            if not fs:
                print('property: holds on this input')
            return 1 if bad else 0
        if 'epystruct' in case:
            o = lib.run_impl_worker('c09_epystruct.py', [case['epystruct']])[0]
            print('docstring:'); print(case['epystruct'])
            print('tokens :', o['tokens']); print('tree   :', o['tree']); print('errors :', o['errors'], o.get('exc') or '')
            print('see the violation record for the property statement')
            return 1
        if 'rstfields' in case:
            o = lib.run_impl_worker('c09_rstfields.py', [case['rstfields']])[0]
            print('docstring:'); print(case['rstfields'])
            print('fields in :', json.dumps(o['in'])[:1500]); print('fields out:', json.dumps(o['out'])[:1500])
            print('errors    :', o['errors'], o.get('exc') or '')
            print('see the violation record for the property statement')
            return 1
        if 'extract' in case:
            c = case['extract']
            o = lib.run_impl_worker('c09_extract.py', [c])[0]
            fs = oracle_extract(c, o)
            print('input  :', json.dumps(c)); print('attrs  :', o['attrs']); print('reports:', o['reports'], o.get('exc') or '')
            for f in fs:
                print('property:', f['what'])
            if not fs:
                print('property: holds on this input')
            return 1 if fs else 0
        if 'inline' in case:
            c = case['inline']
            o = lib.run_impl_worker('c09_epyinline.py', [c['text']])[0]
            w = self.inline_oracle(c, o)
            print('token text:', repr(c['text'])); print('tree      :', o['tree']); print('errors    :', o['errors'])
            print('visible   :', repr(o['visible']))
            print('property  :', w or 'holds on this input')
            return 1 if w else 0
        if 'document' in case:
            c = case['document']
            w = self.doc_worker_case(c)
            o = lib.run_impl_worker('c09_docs.py', [w])[0]
            r = self.doc_oracle(c, o)
            print('docformat:', w['docformat'])
            print('source   :'); print(w['source'])
            print('rendered :', o.get('html')); print('warnings :', o.get('msgs'), o.get('exc') or '')
            known, _ = lib.load_known_findings(self.id)
            if r:
                k = self.classify_known(Violation('oracle', r['what'], case=case, observed=r), known)
                print('property :', r['what'], '[KNOWN: %s]' % k['id'] if k else '')
            else:
                print('property : holds on this input')
            return 1 if r else 0
        print('nothing to replay for', list(case))
        return 2
