"""C13 -- privacy rules mean what the manual says (qnmatch patterns, rule precedence, default rule, rule parsing)."""
from __future__ import annotations
import functools, itertools, json
from typing import Any, Dict, List, Optional, Tuple
import lib
from lib import PropertyCheck, Violation, enc, dec

PAT_ALPHA = 'ab.*?[]!-^\\'
NAME_ALPHA = 'ab._'
NAME_MAXLEN = 4


# ------------------------------------------------------------------ the documented meaning, in plain Python
# Written from the qnmatch docstring + "fnmatch-like": independent of pydoctor, of `re`, and of the Coq files.
def glob_lex(p: str) -> List[Any]:
    """tokens: '*', '**', '?', ('lit', c), ('set', negated, [(lo, hi), ...])   (a single member is (c, c))"""
    out: List[Any] = []
    i, n = 0, len(p)
    while i < n:
        c = p[i]
        if c == '*':
            if p[i + 1:i + 2] == '*':
                out.append('**')
                i += 2
            else:
                out.append('*')
                i += 1
        elif c == '?':
            out.append('?')
            i += 1
        elif c == '[':
            k = i + 1
            neg = p[k:k + 1] == '!'
            if neg:
                k += 1
            # the first member may be ']' ; the set ends at the next ']'
            end = p.find(']', k + 1)
            if k >= n or end < 0:
                out.append(('lit', '['))
                i += 1
                continue
            body = p[k:end]
            members = []
            q = 0
            while q < len(body):
                if q + 2 < len(body) and body[q + 1] == '-':
                    members.append((body[q], body[q + 2]))
                    q += 3
                else:
                    members.append((body[q], body[q]))
                    q += 1
            out.append(('set', neg, members))
            i = end + 1
        else:
            out.append(('lit', c))
            i += 1
    return out


def glob_inverted(toks: List[Any]) -> bool:
    return any(isinstance(t, tuple) and t[0] == 'set' and any(lo > hi for lo, hi in t[2]) for t in toks)


def glob_nontrivial(toks: List[Any]) -> bool:
    return any(not (isinstance(t, tuple) and t[0] == 'lit') for t in toks)


def glob_match(toks: List[Any], name: str) -> bool:
    """whole-name match"""
    nt, nn = len(toks), len(name)

    @functools.lru_cache(maxsize=None)
    def m(ti: int, ni: int) -> bool:
        if ti == nt:
            return ni == nn
        t = toks[ti]
        if t == '**':
            return any(m(ti + 1, k) for k in range(ni, nn + 1))
        if t == '*':
            k = ni
            while True:
                if m(ti + 1, k):
                    return True
                if k < nn and name[k] != '.':
                    k += 1
                else:
                    return False
        if ni == nn:
            return False
        ch = name[ni]
        if t == '?':
            ok = True
        elif t[0] == 'lit':
            ok = ch == t[1]
        else:
            ok = any(lo <= ch <= hi for lo, hi in t[2]) != t[1]
        return ok and m(ti + 1, ni + 1)
    return m(0, 0)


def pack(bs: List[bool]) -> List[int]:
    out, acc, w, k = [], 0, 1, 59
    for b in bs:
        if b:
            acc += w
        if k == 0:
            out.append(acc)
            acc, w, k = 0, 1, 59
        else:
            w *= 2
            k -= 1
    out.append(acc)
    return out


def unpack(ints: List[int], n: int) -> List[bool]:
    out = []
    for x in ints:
        for i in range(60):
            out.append(bool((x >> i) & 1))
    return out[:n]


@functools.lru_cache(maxsize=8)
def all_names(alpha: str, maxlen: int) -> List[str]:
    return [''.join(t) for k in range(maxlen + 1) for t in itertools.product(alpha, repeat=k)]


def oracle_masks(pats: List[str]) -> List[Any]:
    """for each pattern: None when it holds an inverted range (no meaning), else the packed expected answers"""
    names = all_names(NAME_ALPHA, NAME_MAXLEN)
    out = []
    for p in pats:
        toks = glob_lex(p)
        if glob_inverted(toks):
            out.append(None)
        else:
            out.append(pack([glob_match(toks, n) for n in names]))
    return out


def par_oracle_masks(pats: List[str], jobs: int = 16) -> List[Any]:
    if len(pats) < 4000:
        return oracle_masks(pats)
    import multiprocessing as mp
    step = (len(pats) + jobs * 4 - 1) // (jobs * 4)
    chunks = [pats[i:i + step] for i in range(0, len(pats), step)]
    with mp.Pool(jobs) as pool:
        parts = pool.map(oracle_masks, chunks)
    return [x for p in parts for x in p]


@functools.lru_cache(maxsize=200000)
def pmatch(p: str, name: str) -> Tuple[bool, bool]:
    """(the pattern has an inverted range, the pattern matches the name) -- memoised for the rule-list checks"""
    toks = glob_lex(p)
    if glob_inverted(toks):
        return True, False
    return False, glob_match(toks, name)


def default_level(name: str) -> int:
    """PRIVATE (1) for a leading underscore that is not a dunder, PUBLIC (2) otherwise"""
    if name.startswith('_') and not (name.startswith('__') and name.endswith('__')):
        return 1
    return 2


def precedence_oracle(rules: List[List[Any]], full: str, name: str) -> Tuple[Optional[int], Optional[str]]:
    """brute force over the rule list: (expected level, None) or (None, reason the property gives no level)"""
    exact = [l for l, p in rules if p == full]
    if exact:
        return exact[-1], None
    # the last matching pattern rule wins; a meaningless (inverted range) rule is simply not a match
    real = [l for l, p in rules if pmatch(p, full) == (False, True)]
    return (real[-1] if real else default_level(name)), None


def qn_oracle(pat: str, name: str, obs: Any) -> Optional[str]:
    """the property on one observation of the real qnmatch"""
    toks = glob_lex(pat)
    if obs[0] != 0:
        return 'qnmatch(%r, %r) raised (error class %s): the pattern has no boolean answer%s' % (
            name, pat, obs[1], ' (inverted range in a set)' if glob_inverted(toks) else '')
    if glob_inverted(toks):
        return None   # nothing documented for y < x
    want = glob_match(toks, name)
    if bool(obs[1]) != want:
        return 'qnmatch(%r, %r) = %s, the documented meaning of the pattern gives %s' % (name, pat, bool(obs[1]), want)
    return None


LEVELS = ['HIDDEN', 'PRIVATE', 'PUBLIC']


class Check(PropertyCheck):
    id = 'C13'
    props_module = 'Props.C13'
    models = {'qnmatch': 'XQnMatch.v'}
    needs_gen = True
    gen_modules = ['gen_c13_code', 'gen_c13_privacy']
    rule = ('(pattern, name) pairs: every pattern of length <= L over {a b . * ? [ ] ! - ^ \\} x every name of length <= 4 '
            'over {a b . _}, plus random longer ones; non-trivial = the pattern lexes to at least one of * ** ? [set]; '
            'rule lists: every list of <= 3 rules over 3 levels x {exact, pattern} per (target object, pattern text); '
            'non-trivial = at least one rule applies to the queried object; distinct by construction')
    trusted_base = [
        'Coq 8.16.1 kernel (coqc; vm_compute only for the _refuted witnesses and Examples; no native_compute)',
        'no axioms (Print Assumptions: Closed under the global context for every theorem)',
        'extraction: ExtrOcamlBasic only; OCaml 4.13.1; coq/ocaml/driver.ml',
        'Spec/ReFrag.v: hand-written reader+matcher for the fragment of CPython 3.12 `re` that translate emits '
        '(validated against the real re on every enumerated/generated pattern and on generated regex text, not proved)',
        'translator harness/gen/gen_c13_privacy.py (body of System.privacyClass, with the helper it may delegate to, -> '
        'Gen/PrivacyCode.v) and the interpreter Model/PrivacyIR.v (primitives: ob.fullName()/name/kind, options.privacy, the '
        'cache dict as an association list, qnmatch.qnmatch, startswith/endswith, ==, is None); ',
        'translator harness/gen/gen_c13_code.py (body of qnmatch.translate -> Gen/QnMatchCode.v, fail-closed, syntactic '
        'desugarings only) and the interpreter Model/QnMatchIR.v, whose primitives (len, index, slice, find, startswith, '
        'replace, %s formatting, join, append, re.escape table) state CPython\'s semantics as assumptions; the interpretation '
        'of the generated code is also run against the real translate() on every enumerated/generated pattern',
        'Spec/Glob.v: the documented pattern meaning (validated against an independent Python matcher in harness/c13.py)',
        'correspondence harness harness/c13.py + harness/impl/c13_qnmatch.py, c13_privacy.py (real qnmatch, real System)',
        'modelled not verified: functools.lru_cache on _compile_pattern is transparent; str.upper/str.strip tables '
        '(checked against CPython over the code points); Documentable.fullName()/name/kind are inputs',
    ]
    manifest = {
        'text': ('Theorems over Model/QnMatch.v + Model/Privacy.v for every pattern, name and rule list (unbounded): '
                 'C13_translate_meaning / C13_translate_meaning_declarative (the regex re.compile reads from translate(p) accepts '
                 'exactly the names the manual says p matches, whole-name, for every pattern without an inverted range), '
                 'C13_qnmatch_characterised / C13_inverted_range_raises (re.error exactly for inverted ranges), '
                 'C13_matcher_decides / C13_linear_matcher_decides (the executable matchers decide the declarative language '
                 'matches_re), C13_literal_pattern / C13_prefix_star / C13_prefix_starstar, C13_precedence_total / '
                 'C13_privacy_raises_iff (total characterisation of privacyClass for every rule list), C13_precedence, '
                 'C13_exact_beats_patterns, C13_default_rule, C13_cache_transparent / C13_views_cache_transparent, '
                 'C13_visible_iff / C13_hidden_ancestor_hides / C13_private_iff, C13_parse_rule / C13_parse_rule_errors, '
                 'C13_bad_range_refuted, C13_main_module_refuted / C13_documentable_partial. Tie to the source, two ways: '
                 '(a) C13_code_translate_is_model / _text / _meaning: the body of qnmatch.translate() is translated from the '
                 'current source into a small imperative language and its interpretation is proved equal to the model for every '
                 'pattern (re-proved on every run), and C13_code_privacyClass_is_model / _precedence: likewise the whole body of '
                 'System.privacyClass (cache, kind test, default rule, rule loops, store) for every rule list, cache and object; '
                 '(b) exhaustive '
                 'pattern x name correspondence against the real qnmatch (patterns <= 4 quick / <= 5 thorough over 11 '
                 'characters x 341 names), random longer patterns, all rule lists <= 3 (also with meaningless rules) against the '
                 'real System.privacyClass / isVisible / isPrivate, every underscore shape of a short name, parse error messages.'),
        'note': ('Trusted: Coq kernel, extraction + OCaml driver, the Python harness, Spec/ReFrag.v as the meaning of CPython re '
                 'on the emitted fragment (validated, not proved). Known findings: inverted range aborts; Module.__main__ forced PRIVATE.'),
        'technique': 'Coq proof (translate -> token view -> re reader -> matcher) + exhaustive model/implementation correspondence',
    }
    assumptions = ['rules (options.privacy) do not change during a run; objects with equal fullName are the same object',
                   'objects have a kind (ob.kind is not None), as every object made by the AST builder has',
                   're.compile/match on the regex text translate emits behaves as Spec/ReFrag.v (validated on every run)']

    # ------------------------------------------------------------------ generators
    def corpus_patterns(self) -> List[str]:
        return ['', '*', '**', '?', '[', ']', '[]', '[!]', '[]]', '[!]]', '[a]', '[!a]', '[a-c]', '[z-a]', '[!z-a]', '[b-a]x',
                '[a-]', '[-a]', '[a--]', '[--a]', '[\\d]', '[\\]', '[\\-a]', '[a-\\]', '[^a]', '[!^a]', '[[]', '[[a]', '[a[b]',
                '[]-]', '[]-a]', '[!]-a]', '[a-b-c]', '[b-a-c]', '[a-bb-a]', '***', '****', '*.*', '**.*', '*.**', 'a*b', 'a**b',
                'a?b', '?*', '*?', '**?', '[.]', '[!.]', '*[.]*', '\\', '\\*', '\\[a]', 'a.b', '_*', '**._*', '**.__*__',
                'twisted.test.*', '**.__init__', '[*]', '[?]', '[!*]', '(a)', 'a+', 'a|b', '^a$', 'a{1}', '[(]', ' ', 'a b', '\n',
                '[\n]', '[a-é]', '[é-a]', 'é*', '[!!]', '[!!-#]', '[~~]', '[&&]', '[||]', '[a', '[!a', '[!', 'a]',
                '[]a', '[!]a', '[a]]', '[a]b]', '[][]', '[][!]', '[^]', '[^]]', '[!^]', '[-]', '[--]', '[---]', '[!-]', '[a-a]']

    def random_pattern(self) -> str:
        r = self.rng
        segs = ['pkg', 'mod', 'a', 'b', '_x', '__d__', 'Cls', '.', '.', '*', '*', '**', '?', '[abc]', '[!abc]', '[a-z]',
                '[!a-z]', '[]x]', '[!]]', '[^x]', '[\\d]', '[a\\-z]', '[-a]', '[a-]', '[_.]', '[!.]', '[', ']', '!', '-', '^', '\\',
                '(', ')', '+', '{', '}', '$', '|', ' ', 'é', '\u2028', '#', '~', '&', '[A-Z_]', '[0-9]', '[a-c-e]', '[z-a]',
                '[c-a]', '[!9-0]']
        k = r.randint(2, 7)
        pool = segs[:-3] if r.random() < 0.93 else segs
        return ''.join(r.choice(pool) for _ in range(k))

    def names_for(self, pat: str) -> List[str]:
        """names that are likely to match (instantiate the pattern) and near misses"""
        r = self.rng
        out = []
        toks = glob_lex(pat)
        pool = 'ab_xz.CM9-\\]^!d'
        for _ in range(8):
            s = ''
            for t in toks:
                if t == '*':
                    s += ''.join(r.choice('ab_x9') for _ in range(r.randint(0, 3)))
                elif t == '**':
                    s += ''.join(r.choice('ab_.x') for _ in range(r.randint(0, 4)))
                elif t == '?':
                    s += r.choice(pool)
                elif t[0] == 'lit':
                    s += t[1]
                else:
                    lo, hi = r.choice(t[2])
                    s += r.choice([lo, hi, chr((ord(lo) + ord(hi)) // 2), r.choice(pool)])
            out.append(s[:16])
            if s and r.random() < 0.6:
                k = r.randrange(len(s))
                out.append((s[:k] + r.choice(pool) + s[k + 1:])[:16])
            if r.random() < 0.3:
                out.append((s + r.choice(pool))[:16])
            if r.random() < 0.3:
                out.append((r.choice(pool) + s)[:16])
        out.append('')
        return sorted(set(out))

    # ------------------------------------------------------------------ correspondence
    def correspondence(self) -> List[Violation]:
        out: List[Violation] = []
        self.stats['distinct_nontrivial'] = 0
        out += self.check_name_shapes()
        out += self.check_moves()
        out += self.check_tables()
        out += self.check_exhaustive()
        out += self.check_pairs()
        out += self.check_refrag()
        out += self.check_parse()
        out += self.check_privacy()
        if self.tier != 'quick':
            out += self.check_extraction()
        # the driver only calls search() when there is no oracle failure at all; the known findings always are
        # oracle failures here, so widen the search ourselves when the model/implementation tie broke and every
        # oracle failure at hand is a known one
        known = self.known_entries()
        if any(v.kind != 'oracle' for v in out) and \
                all(self.classify_known(v, known) is not None for v in out if v.kind == 'oracle'):
            self._searched = self._in_search = True
            out += self.search([v for v in out if v.kind != 'oracle'])
            self._in_search = False
        return out

    def add(self, out: List[Violation], v: Violation, limit: int = 12) -> None:
        """keeps at most `limit` violations per (kind, class) so that a known class cannot crowd out a new one"""
        c = v.case if isinstance(v.case, dict) else {}
        bucket = (v.kind, c.get('kind'), json.dumps(v.observed, default=str)[:40] if v.kind == 'oracle' else '',
                  self.classify_known(v, self.known_entries()) is not None)
        n = self._buckets.get(bucket, 0)
        self._buckets[bucket] = n + 1
        if n < limit:
            out.append(v)

    _buckets: Dict[Any, int] = {}
    _known: Optional[List[dict]] = None

    def known_entries(self) -> List[dict]:
        if self._known is None:
            self._known = lib.load_known_findings(self.id)[0]
        return self._known

    def check_tables(self) -> List[Violation]:
        """re.escape, str.upper, str.isspace of the model against CPython, over the code points"""
        out: List[Violation] = []
        if self.tier == 'quick':
            cps = list(range(0, 0x3100)) + [self.rng.randrange(0x3100, 0x110000) for _ in range(3000)] + \
                [0xFB05, 0xFB06, 0x1E9E, 0xDF, 0x149, 0x212A, 0xFEFF, 0x180E, 0x200B]
        else:
            cps = list(range(0, 0x110000))
        # lone surrogates are ordinary code points for str; kept apart so that JSON does not pair them
        cps = [0xDFFF] + [c for c in cps if not 0xD800 <= c <= 0xDFFF] + [0xD800]
        self.stats['table_code_points'] = len(cps)
        chunks = [cps[i:i + 20000] for i in range(0, len(cps), 20000)]
        texts = [''.join(chr(c) for c in ch) for ch in chunks]
        impl_esc = lib.run_impl_worker('c13_qnmatch.py', [['esc', t] for t in texts])
        impl_chr = lib.run_impl_worker('c13_qnmatch.py', [['chars', t] for t in texts])
        mod_esc = [dec(x) for x in self.model('qnmatch', [enc([7, t]) for t in texts])]
        mod_chr = [dec(x) for x in self.model('qnmatch', [enc([8, t]) for t in texts])]
        names = ['HIDDEN', 'PRIVATE', 'PUBLIC', 'VISIBLE']
        for ch, ie, ic, me, mc in zip(chunks, impl_esc, impl_chr, mod_esc, mod_chr):
            for k, cp in enumerate(ch):
                self.evaluations += 1
                if lib.txt(me[k]) != ie[k]:
                    self.add(out, Violation('correspondence', 'Model.QnMatch.re_escape differs from re.escape',
                                            case={'kind': 'escape', 'cp': cp}, expected=lib.txt(me[k]), observed=ie[k]))
                up, mu = ic[0][k], chr(mc[0][k])
                caps = lambda s: all('A' <= x <= 'Z' for x in s) and s != ''
                bad = False
                if caps(up) and len(up) == 1:
                    bad = mu != up
                elif caps(up):
                    bad = any(up in nm for nm in names) or caps(mu)
                else:
                    bad = caps(mu)
                if bad:
                    self.add(out, Violation('correspondence', 'Model.Privacy.upper_char differs from str.upper where it matters',
                                            case={'kind': 'upper', 'cp': cp}, expected=mu, observed=up))
                if bool(mc[1][k]) != bool(ic[1][k]):
                    self.add(out, Violation('correspondence', 'Model.Privacy.py_isspace differs from str.isspace',
                                            case={'kind': 'isspace', 'cp': cp}, expected=mc[1][k], observed=ic[1][k]))
        return out

    def check_exhaustive(self) -> List[Violation]:
        out: List[Violation] = []
        L = 4 if self.tier == 'quick' else 5
        self.stats['max_pattern_len'] = L
        pats = [''.join(t) for k in range(L + 1) for t in itertools.product(PAT_ALPHA, repeat=k)]
        extra = [p for p in self.corpus_patterns() if p not in set(pats)]
        pats += extra
        names = all_names(NAME_ALPHA, NAME_MAXLEN)
        impl = lib.run_impl_worker('c13_qnmatch.py', [['qn', p, NAME_ALPHA, NAME_MAXLEN] for p in pats], jobs=16)
        mod = self.model('qnmatch', [enc([1, p, NAME_ALPHA, NAME_MAXLEN]) for p in pats])
        spec = self.model('qnmatch', [enc([3, p, NAME_ALPHA, NAME_MAXLEN]) for p in pats])
        # third leg: the interpretation of the code TRANSLATED from qnmatch.py (Gen/QnMatchCode.v) against the real translate()
        code_tr = self.model('qnmatch', [enc([11, p]) for p in pats])
        impl_tr = lib.run_impl_worker('c13_qnmatch.py', [['tr', p] for p in pats], jobs=8)
        for p, m, i in zip(pats, code_tr, impl_tr):
            m = dec(m)
            mm = [0, lib.txt(m[1])] if m[0] == 0 else m
            self.evaluations += 1
            if mm != i:
                self.add(out, Violation('correspondence', 'the interpretation of the translated code of translate() and the real '
                                        'translate() disagree', case={'kind': 'translate', 'pattern': p}, expected=mm, observed=i))
        want = par_oracle_masks(pats)
        self.exhaustive = True
        self.stats['patterns'] = len(pats)
        self.stats['names_per_pattern'] = len(names)
        nt = 0
        for p, i, m, s, w in zip(pats, impl, mod, spec, want):
            m, s = dec(m), dec(s)
            self.evaluations += len(names)
            toks = glob_lex(p)
            if glob_nontrivial(toks):
                nt += len(names)
            self.count('pattern_outcome_' + ('ok' if i[0] == 0 else 'error_%s' % (i[1],)))
            for t in toks:
                self.count('tok_' + (t if isinstance(t, str) else t[0] + ('_neg' if t[0] == 'set' and t[1] else '')))
            # spec validation: Spec.Glob against the independent Python matcher
            if (w is None) != (s[0] == 0) or (w is not None and s[1] != w):
                raise RuntimeError('spec validation failed: Spec.Glob and the independent Python matcher disagree on %r' % p)
            # model vs implementation
            if m != i:
                name = self.first_diff(m, i, names)
                self.add(out, Violation('correspondence', 'Model.QnMatch.qnmatch and pydoctor.qnmatch.qnmatch disagree on pattern %r'
                                        % p, case={'kind': 'qnmatch', 'pattern': p, 'name': name}, expected=m, observed=i))
            # the property itself on the real observation
            if i[0] != 0:
                self.add(out, Violation('oracle', qn_oracle(p, names[0], i) or '', case={'kind': 'qnmatch', 'pattern': p, 'name': names[0]},
                                        observed=i))
            elif w is not None and i[1] != w:
                name = self.first_diff([0, w], i, names)
                o = [0, int(unpack(i[1], len(names))[names.index(name)])]
                self.add(out, Violation('oracle', qn_oracle(p, name, o) or '', case={'kind': 'qnmatch', 'pattern': p, 'name': name},
                                        expected=int(not o[1]), observed=o))
        self.count('distinct_nontrivial', nt)
        for p in ['a*', '[!a].?', '*.[ab]']:
            self.sample({'pattern': p, 'names': 'all %d names of length <= %d over %r' % (len(names), NAME_MAXLEN, NAME_ALPHA)})
        return out

    @staticmethod
    def first_diff(a: Any, b: Any, names: List[str]) -> str:
        if a[0] == 0 and b[0] == 0:
            ua, ub = unpack(a[1], len(names)), unpack(b[1], len(names))
            for n, x, y in zip(names, ua, ub):
                if x != y:
                    return n
        return names[0]

    def check_pairs(self) -> List[Violation]:
        """random longer patterns and names, one qnmatch call per pair"""
        out: List[Violation] = []
        npat = 400 if self.tier == 'quick' else 12000
        pairs: List[Tuple[str, str]] = []
        seen = set()
        for _ in range(npat):
            p = self.random_pattern()
            if p.count('*') > 5:
                continue
            for n in self.names_for(p):
                if (p, n) not in seen:
                    seen.add((p, n))
                    pairs.append((p, n))
        # malformed / boundary stream
        for p in self.corpus_patterns() + ['[' * 5, '[!' * 3 + ']', '\\' * 3, '[\ud800]', '\U0001F600*', '[\U0001F600-\U0001F64F]']:
            for n in ['', 'a', 'b', '.', 'a.b', '\\', ']', '-', '^', '!', 'd', '[', '\n', 'é', '\U0001F601', 'ab', 'a]', '_']:
                if (p, n) not in seen:
                    seen.add((p, n))
                    pairs.append((p, n))
        self.stats['random_pairs'] = len(pairs)
        impl = lib.run_impl_worker('c13_qnmatch.py', [['qn1', p, n] for p, n in pairs], jobs=16)
        impl_tr = lib.run_impl_worker('c13_qnmatch.py', [['tr', p] for p in sorted(set(p for p, _ in pairs))])
        mod_tr = self.model('qnmatch', [enc([0, p]) for p in sorted(set(p for p, _ in pairs))])
        code_tr = self.model('qnmatch', [enc([11, p]) for p in sorted(set(p for p, _ in pairs))])
        for p, i, m, cm in zip(sorted(set(p for p, _ in pairs)), impl_tr, mod_tr, code_tr):
            m, cm = dec(m), dec(cm)
            mm = [0, lib.txt(m[1])] if m[0] == 0 else m
            cmm = [0, lib.txt(cm[1])] if cm[0] == 0 else cm
            self.evaluations += 1
            if cmm != i:
                self.add(out, Violation('correspondence', 'the interpretation of the translated code of translate() and the real '
                                        'translate() disagree', case={'kind': 'translate', 'pattern': p}, expected=cmm, observed=i))
            if mm != i:
                self.add(out, Violation('correspondence', 'Model.QnMatch.translate and pydoctor.qnmatch.translate disagree',
                                        case={'kind': 'translate', 'pattern': p}, expected=mm, observed=i))
        mod = self.model('qnmatch', [enc([2, p, n]) for p, n in pairs])
        spec = self.model('qnmatch', [enc([4, p, n]) for p, n in pairs])
        nt = 0
        for (p, n), i, m, s in zip(pairs, impl, mod, spec):
            m, s = dec(m), dec(s)
            self.evaluations += 1
            toks = glob_lex(p)
            if glob_nontrivial(toks):
                nt += 1
            self.count('pair_len_%02d' % min(len(p), 30))
            self.count('pair_outcome_' + ('true' if i == [0, 1] else 'false' if i == [0, 0] else 'error_%s' % (i[1],)))
            inv = glob_inverted(toks)
            if bool(s[0]) == inv or (not inv and bool(s[1]) != glob_match(toks, n)):
                raise RuntimeError('spec validation failed: Spec.Glob vs Python matcher on %r / %r' % (p, n))
            if m != i:
                self.add(out, Violation('correspondence', 'Model.QnMatch.qnmatch and pydoctor.qnmatch.qnmatch disagree',
                                        case={'kind': 'qnmatch', 'pattern': p, 'name': n}, expected=m, observed=i))
            o = qn_oracle(p, n, i)
            if o:
                self.add(out, Violation('oracle', o, case={'kind': 'qnmatch', 'pattern': p, 'name': n}, observed=i))
        # the backtracking-free matcher of Spec/ReFrag.v (op 10) on the same pairs and on star-heavy long inputs
        heavy = []
        for k in range(2, 6 if self.tier == 'quick' else 8):      # the real re backtracks polynomially of degree k on these
            for p, n in [('*a' * k + '*b', 'a' * (3 * k)), ('**.' * k + 'x', '.'.join(['ab'] * (2 * k)) + '.x'),
                         ('*[!.]' * k, 'ab' * k + '.'), ('?*' * k + '[a-c]', 'abc' * k), ('**a' * k, 'a' * (4 * k) + 'b')]:
                heavy.append((p, n))
        lin = self.model('qnmatch', [enc([10, p, n]) for p, n in pairs + heavy])
        impl_h = lib.run_impl_worker('c13_qnmatch.py', [['qn1', p, n] for p, n in heavy])
        self.stats['table_matcher_pairs'] = len(pairs) + len(heavy)
        for (p, n), i, m in zip(pairs + heavy, impl + impl_h, lin):
            m = dec(m)
            self.evaluations += 1
            if m != i:
                self.add(out, Violation('correspondence', 'Model qnmatch (table matcher) and pydoctor.qnmatch.qnmatch disagree',
                                        case={'kind': 'qnmatch', 'pattern': p, 'name': n}, expected=m, observed=i))
        for (p, n), i in zip(heavy, impl_h):
            o = qn_oracle(p, n, i)
            if o:
                self.add(out, Violation('oracle', o, case={'kind': 'qnmatch', 'pattern': p, 'name': n}, observed=i))
        self.count('distinct_nontrivial', nt)
        for p, n in pairs[:2] + pairs[len(pairs) // 2:len(pairs) // 2 + 1]:
            self.sample({'pattern': p, 'name': n})
        return out

    def check_refrag(self) -> List[Violation]:
        """spec validation of Spec/ReFrag.v against the real `re` on generated regex text of the fragment"""
        r = self.rng
        n = 600 if self.tier == 'quick' else 20000
        atoms = ['.', '.*?', '[^\\.]*?', 'a', 'b', '_', '\\.', '\\*', '\\[', '\\]', '\\-', '\\\\', '[ab]', '[^ab]', '[a-c]', '[]a]',
                 '[^]a]', '[\\]a]', '[a\\-c]', '[\\\\-a]', '[a-]', '[-a]', '[\\^a]', '[\\[]', '[a\\\\]', '[c-a]', '[a-c-e]', 'x*?',
                 '[ab]*?', '\\n', '!', ']', '}', '-', 'é', '[é-ÿ]', '[^\\-]', '[a^]', '[a[]', '[]-a]', '[+--]', '[]']
        cases = []
        for _ in range(n):
            body = ''.join(r.choice(atoms) for _ in range(r.randint(0, 5)))
            rx = '(?s:%s)\\Z' % body
            for _ in range(4):
                nm = ''.join(r.choice('ab_.c]-\\^[eé\n!}x') for _ in range(r.randint(0, 5)))
                cases.append((rx, nm))
        impl = lib.run_impl_worker('c13_qnmatch.py', [['re', a, b] for a, b in cases], jobs=8)
        mod = self.model('qnmatch', [enc([9, a, b]) for a, b in cases])
        k = 0
        for (a, b), i, m in zip(cases, impl, mod):
            m = dec(m)
            if m == [1, 3]:       # outside the fragment: the spec says nothing
                self.count('refrag_unsupported')
                continue
            k += 1
            if m != i:
                raise RuntimeError('spec validation failed: Spec.ReFrag and re disagree on %r / %r: spec %s, re %s' % (a, b, m, i))
        self.stats['refrag_validated'] = k
        return []

    def parse_cases(self) -> List[str]:
        r = self.rng
        lv = ['PUBLIC', 'public', 'Public', 'pUbLiC', 'PRIVATE', 'private', 'HIDDEN', 'hidden', 'VISIBLE', 'visible', '', 'PUBLI',
              'PUBLICS', 'PUB LIC', 'publ\u0131c', 'h\u0131dden', 'v\u0131s\u0131ble', 'vi\u017fible', 'PRIVATE\u017f', 'PU\u00dfLIC',
              'hidde\u0149', 'PRIVAT\u0112', '0', '2', 'PrivacyClass.PUBLIC', 'H\u0130DDEN', 'hi\u0307dden', '\uff30UBLIC',
              'vi\ufb06ble', 'PUBLI\u212a']
        sp = ['', ' ', '  ', '\t', '\n', '\u00a0', '\u2003', '\u3000', '\x1f', '\x1c', '\u200b', '\ufeff', '\u180e', '\x85',
              '\u2028', '\u1680', '\x0b', '\x0c', '\r']
        pt = ['a', 'pkg.*', '**', '', 'a b', '[a:b]', 'x ', '[z-a]', 'é*', 'a\u2003b']
        out = []
        for l in lv:
            for s1, s2 in [('', ''), (' ', ''), ('', ' '), (' ', ' '), ('\t', '\n'), ('\u00a0', '\u2003'), ('\u200b', ''), ('', '\ufeff')]:
                for p in pt[:6]:
                    out.append(s1 + l + s2 + ':' + p)
        for _ in range(400 if self.tier == 'quick' else 6000):
            k = r.choice([0, 1, 1, 1, 1, 2, 3])
            parts = [r.choice(sp) + r.choice(lv if j == 0 else pt) + r.choice(sp) for j in range(k + 1)]
            out.append(':'.join(parts))
        out += [':', '::', '', 'PUBLIC', 'PUBLIC:', ':a', 'PUBLIC:a:b', ' PUBLIC : a ', 'public:\u2003a\u2003']
        return sorted(set(out))

    def check_parse(self) -> List[Violation]:
        out: List[Violation] = []
        vals = self.parse_cases()
        impl = lib.run_impl_worker('c13_qnmatch.py', [['parse', v] for v in vals])
        mod = self.model('qnmatch', [enc([6, v]) for v in vals])
        self.stats['parse_cases'] = len(vals)
        for v, i, m in zip(vals, impl, mod):
            m = dec(m)
            if m[0] == 0:
                mm = [0, m[1], lib.txt(m[2])]
            elif m[1] == 1:
                mm = [1, 1, "--privacy: malformatted value %r should be like '<privacy>:<PATTERN>'.\n" % v, 1]
            else:
                mm = [1, 2, "--privacy: unknown privacy value %r should be one of 'HIDDEN', 'PRIVATE', 'PUBLIC'\n" % lib.txt(m[2]), 1]
            self.evaluations += 1
            self.count('parse_' + ('accepted' if i[0] == 0 else 'rejected_kind_%s' % i[1]))
            if mm != i:
                self.add(out, Violation('correspondence', 'Model.Privacy.parse_privacy_tuple and utils.parse_privacy_tuple disagree',
                                        case={'kind': 'parse', 'value': v}, expected=mm, observed=i))
            o = parse_oracle(v, i)
            if o:
                self.add(out, Violation('oracle', o, case={'kind': 'parse', 'value': v}, observed=i))
        return out

    # -- default rule on every underscore shape of a short name (deterministic, first)
    def check_name_shapes(self) -> List[Violation]:
        out: List[Violation] = []
        objs = lib.run_impl_worker('c13_privacy.py', [{'objects': 1, 'system': 'shapes'}])[0]
        fulls = [o[0] for o in objs]
        names = sorted(set(o[1] for o in objs))
        # every shape must really be there, as several kinds of object
        want_names = set('_' * a + core + '_' * b for a in range(4) for b in range(4) for core in ('', 'x')) - {''}
        missing = want_names - set(names)
        if missing:
            raise RuntimeError('name-shape System lacks the short names %s' % sorted(missing))
        self.stats['shape_objects'] = len(objs)
        self.stats['shape_names'] = len(want_names)
        rule_lists = [[], [[0, 'zzz.*']], [[2, 'pkg.mod.Cls'], [1, 'nomatch?']], [[0, 'shp.*.nothing'], [2, 'shp']],
                      [[1, 'shp.?'], [0, '*.*.*.*.*']], [[2, 'other.**'], [0, '[!s]**'], [1, 'shp.funcs.x.*']]]
        cases = [{'system': 'shapes', 'rules': rl, 'queries': [['obj', f] for f in fulls]} for rl in rule_lists]
        impl = lib.run_impl_worker('c13_privacy.py', cases, jobs=len(cases))
        mod = self.model('qnmatch', [enc([5, [[l, p] for l, p in c['rules']], [model_query(o) for o in obs]])
                                     for c, obs in zip(cases, impl)])
        for c, obs, m in zip(cases, impl, mod):
            m = dec(m)
            for k, (o, mm) in enumerate(zip(obs, m)):
                self.evaluations += 1
                lead = len(o[1]) - len(o[1].lstrip('_'))
                trail = len(o[1]) - len(o[1].rstrip('_'))
                self.count('shape_%d_%d' % (min(lead, 3), min(trail, 3)))
                case = {'kind': 'privacy', 'system': 'shapes', 'rules': c['rules'], 'queries': [c['queries'][k]], 'index': 0}
                if mm != o[4]:
                    self.add(out, Violation('correspondence', 'Model.Privacy and the real privacyClass disagree on %s (default rule)'
                                            % o[0], case=case, expected=mm, observed=o[4]))
                pv = privacy_violation(case, o)
                if pv:
                    self.add(out, pv)
        self.sample({'system': 'shapes', 'rules': [], 'queries': 'all %d objects; short names %s' % (len(objs), names)})
        return out

    # -- privacy
    def privacy_cases(self) -> List[dict]:
        r = self.rng
        objs = lib.run_impl_worker('c13_privacy.py', [{'objects': 1}])[0]
        self.stats['system_objects'] = len(objs)
        fulls = [o[0] for o in objs]
        by = {o[0]: o for o in objs}
        targets = ['pkg.mod.Cls._p', 'pkg.mod.Cls.__d__', 'pkg.__main__', 'pkg.pkg', 'pkg.mod._v', 'pkg.mod', 'pkg.sub.deep.__main__',
                   'pkg._priv.A', '__main__', 'pkg', 'pkg.mod.___']
        if self.tier == 'quick':
            targets = targets[:5]
        cases: List[dict] = []

        def pats_for(t: str) -> List[str]:
            parent, _, last = t.rpartition('.')
            ps = ['**', (parent + '.*') if parent else '*', '**.' + last if parent else last[:1] + '*',
                  t[:-1] + '?', t[:-1] + '[!.]', 'zzz.*', t + '.*', t[:-1] + '[' + t[-1] + ']']
            return ps if self.tier != 'quick' else ps[:5]
        atoms = [(l, k) for l in range(3) for k in ('exact', 'pattern')]
        for t in targets:
            others = [f for f in fulls if f != t]
            for p in pats_for(t):
                for n in range(0, 4):
                    for combo in itertools.product(atoms, repeat=n):
                        rules = [[l, t if k == 'exact' else p] for l, k in combo]
                        # the target twice (cache), then every object of the System in a random order, then the target again
                        qs = [['obj', t], ['obj', t]] + [['obj', f] for f in r.sample(fulls, len(fulls))] + [['obj', t]]
                        # isVisible (walks up the parents) and isPrivate, interleaved with the same cache
                        qs += [['vis', t], ['isp', t]] + [['vis', f] for f in r.sample(fulls, 6)] + \
                            [['isp', f] for f in r.sample(fulls, 3)]
                        cases.append({'rules': rules, 'queries': qs, 'enumerated': True})
        # the same with a third sort of rule, a meaningless pattern (inverted range): C13_precedence_total / known finding
        atoms3 = atoms + [(l, 'bad') for l in range(3)]
        for t in targets[:1] if self.tier == 'quick' else targets[:3]:
            p = pats_for(t)[0]
            for n in range(0, 4):
                for combo in itertools.product(atoms3, repeat=n):
                    if not any(k == 'bad' for _, k in combo):
                        continue
                    rules = [[l, t if k == 'exact' else p if k == 'pattern' else '[z-a]*'] for l, k in combo]
                    cases.append({'rules': rules, 'queries': [['obj', t], ['vis', t], ['obj', t], ['isp', t]], 'enumerated': True})
        self.stats['enumerated_rule_lists'] = len(cases)
        # random longer rule lists over many patterns, all objects queried with repeats, plus kind-less objects
        nrand = 150 if self.tier == 'quick' else 4000
        for _ in range(nrand):
            rules = []
            for _ in range(r.randint(1, 8)):
                t = r.choice(fulls)
                parent, _, last = t.rpartition('.')
                p = r.choice([t, t, '**', '*', parent + '.*', '**.' + last, '**._*', '**.__*__', '*.*', t[:-1] + '?', 'pkg.**',
                              '**.[A-Z]*', '**.[!_]*', '**.[_]*', '*.*.*', t.replace('.', '?'), '[p]kg.mod.*', self.random_pattern()])
                if p.count('*') > 5:
                    p = '**'
                rules.append([r.randrange(3), p])
            qs: List[List[str]] = [[r.choice(['obj', 'obj', 'vis', 'vis', 'isp']), r.choice(fulls)] for _ in range(r.randint(3, 14))]
            if r.random() < 0.3:
                g = ['ghost', r.choice(fulls), r.choice(['ghost', '_g', 'Cls', '__main__'])]
                qs.insert(r.randrange(len(qs)), g)
                qs.append(g)
            cases.append({'rules': rules, 'queries': qs, 'enumerated': False})
        # rules with an inverted range (known finding when reached)
        for t in targets[:3]:
            for rules in ([[0, '[z-a]']], [[0, '[z-a]'], [2, t]], [[2, '**'], [0, '[z-a]']], [[0, '[z-a]'], [2, '**']],
                          [[1, t[:-1] + '[b-a]']]):
                cases.append({'rules': rules, 'queries': [['obj', t], ['obj', t]], 'enumerated': False})
        return cases

    @staticmethod
    def case_of(c: dict, k: int, queries: Optional[List[Any]] = None) -> dict:
        d = {'kind': 'privacy', 'rules': c['rules'], 'queries': c['queries'] if queries is None else queries, 'index': k}
        for key in ('history', 'system'):
            if key in c:
                d[key] = c[key]
        return d

    # -- objects that move: the privacy follows the CURRENT qualified name
    def check_moves(self) -> List[Violation]:
        impl_src = ('class Klass:\n    def meth(self): ...\n    def _helper(self): ...\n    class Inner:\n        attr = 1\n'
                    'def func(): ...\n')
        api_src = 'from impl import Klass\n__all__ = [\'Klass\']\n'
        pats = ['impl.**', 'api.**', 'api.Klass._*', 'impl.Klass.*', 'api.Klass.meth', 'impl.Klass.meth', 'api.*.Inner.*']
        atoms = [[l, p] for p in pats for l in range(3)]
        lists = [[]] + [[a] for a in atoms] + [[a, b] for a in atoms for b in atoms if a[1] != b[1]]
        lists.append([[1, 'impl.**'], [0, 'api.Klass._*'], [2, 'api.Klass.Inner.attr'], [1, 'api.*.Inner.*']])
        if self.tier == 'quick':
            lists = lists[:22] + lists[22::7] + lists[-1:]
        cases = []
        for rules in lists:
            for move in (['reparent', 'impl.Klass', 'api', 'Klass'], ['module', api_src, 'api']):
                mods = [[impl_src, 'impl', None, False]] + ([['', 'api', None, False]] if move[0] == 'reparent' else [])
                for before in (True, False):
                    steps = ([['queryall']] if before else []) + [move, ['queryall'], ['queryall']]
                    cases.append({'rules': rules, 'queries': steps, 'history': {'modules': mods, 'steps': steps}})
        self.stats['move_histories'] = len(cases)
        return self.check_privacy(cases)

    def check_privacy(self, cases: Optional[List[dict]] = None) -> List[Violation]:
        out: List[Violation] = []
        given = cases is not None
        if cases is None:
            cases = self.privacy_cases()
        impl = lib.run_impl_worker('c13_privacy.py', cases, jobs=16)
        minputs = []
        for c, obs in zip(cases, impl):
            minputs.append(enc([5, [[l, p] for l, p in c['rules']], [model_query(o) for o in obs]]))
        mod = self.model('qnmatch', minputs)
        # further leg: the interpretation of the code TRANSLATED from System.privacyClass (Gen/PrivacyCode.v), on the
        # privacyClass queries of each case in order (one cache)
        cinputs = [enc([12, [[l, p] for l, p in c['rules']], [[o[0], o[1], o[2], o[3]] for o in obs if o[5] == 0]])
                   for c, obs in zip(cases, impl)]
        cmod = self.model('qnmatch', cinputs)
        for c, obs, cm in zip(cases, impl, cmod):
            if any(q[0] == 'ghost' for q in c['queries']):
                continue        # a kind-less stand-in may share its full name with a real object that an isVisible/isPrivate
                                # query (not replayed in this leg) has cached: covered by the full model leg above
            want = [o[4] for o in obs if o[5] == 0]
            got = dec(cm)
            self.evaluations += len(want)
            if got != want:
                k = next(i for i, (a, b) in enumerate(zip(got, want)) if a != b)
                self.add(out, Violation('correspondence', 'the interpretation of the translated code of System.privacyClass and the '
                                        'real privacyClass disagree',
                                        case=self.case_of(c, k, None if 'history' in c else [q for q in c['queries'] if q[0] in ('obj', 'ghost')]),
                                        expected=got[k], observed=want[k]))
        nt = 0
        for c, obs, m in zip(cases, impl, mod):
            m = dec(m)
            self.evaluations += len(obs)
            self.count('rules_len_%d' % len(c['rules']))
            for k, (o, mm) in enumerate(zip(obs, m)):
                full, name, has_kind, is_mod, res = o[:5]
                case = self.case_of(c, k)
                self.count(['level_', 'visible_', 'isprivate_'][o[5]] + ((LEVELS[res[1]] if o[5] == 0 else str(bool(res[1]))) if res[0] == 0 else 'error_%s' % (res[1],)))
                if mm != res:
                    self.add(out, Violation('correspondence', 'Model.Privacy and the real privacyClass disagree on %s (query %d)'
                                            % (full, k), case=case, expected=mm, observed=res))
                pv = privacy_violation(case, o)
                if pv:
                    self.add(out, pv)
                if any(p == full or pmatch(p, full) == (False, True) for _, p in c['rules']):
                    nt += 1
        self.count('distinct_nontrivial', nt)
        for c in (cases[-1:] if given else cases[700:702] + cases[-20:-19]):
            self.sample({'rules': c['rules'], 'queries': c['queries']})
        return out

    def check_extraction(self) -> List[Violation]:
        """cross-check of extraction + OCaml driver: the same inputs through `Eval vm_compute in (Privacy.run ...)`"""
        r = self.rng
        inputs = []
        for _ in range(250):
            p = self.random_pattern()
            if p.count('*') <= 3:
                inputs.append(enc([2, p, r.choice(self.names_for(p))]))
                inputs.append(enc([4, p, r.choice(self.names_for(p))]))
        for p in self.corpus_patterns()[:60]:
            inputs.append(enc([1, p, 'ab.', 2]))
            inputs.append(enc([0, p]))
        for v in r.sample(self.parse_cases(), 100):
            inputs.append(enc([6, v]))
        for _ in range(60):
            rules = [[r.randrange(3), r.choice(['**', 'a.*', 'a.b', '*.b', '[z-a]', '?.?'])] for _ in range(r.randint(0, 4))]
            qs = [[f, f.rpartition('.')[2], 1, int(f == '__main__')] for f in r.choices(['a.b', 'a', 'a._c', '__main__', 'a.__d__'], k=4)]
            inputs.append(enc([5, rules, qs]))
        a = self.model('qnmatch', inputs)
        b = lib.run_model_vm('Model.C13Run', inputs)
        self.stats['extraction_cross_checked'] = len(inputs)
        for i, x, y in zip(inputs, a, b):
            if dec(x) != dec(y):
                raise RuntimeError('extraction cross-check failed on %s: ocaml %s, vm_compute %s' % (i, x, y))
        return []

    # ------------------------------------------------------------------ search / classify / replay
    def search(self, broken: List[Violation]) -> List[Violation]:
        """the oracle alone (no model) on a larger stream against the real code"""
        found: List[Violation] = []
        known = self.known_entries()
        fresh = lambda: any(self.classify_known(v, known) is None for v in found)
        if getattr(self, '_searched', False) and not getattr(self, '_in_search', False) and broken and \
                all(b.kind == 'correspondence' for b in broken):
            return []        # already done from correspondence()
        # (i) the diverging inputs themselves
        for b in broken:
            c = b.case
            if isinstance(c, dict) and c.get('kind') == 'qnmatch':
                i = lib.run_impl_worker('c13_qnmatch.py', [['qn1', c['pattern'], c['name']]])[0]
                o = qn_oracle(c['pattern'], c['name'], i)
                if o:
                    found.append(Violation('oracle', o, case=c, observed=i))
        if fresh():
            return self._trim(found)
        self.notes.append('search: widened oracle run against the real code (patterns <= 5 x 341 names, thorough parse/rule-list/random streams)')
        # (ii) patterns up to length 5, all names
        names = all_names(NAME_ALPHA, NAME_MAXLEN)
        pats = [''.join(t) for k in range(6) for t in itertools.product(PAT_ALPHA, repeat=k)] + self.corpus_patterns()
        impl = lib.run_impl_worker('c13_qnmatch.py', [['qn', p, NAME_ALPHA, NAME_MAXLEN] for p in pats], jobs=16)
        want = par_oracle_masks(pats)
        for p, i, w in zip(pats, impl, want):
            if i[0] != 0:
                found.append(Violation('oracle', qn_oracle(p, names[0], i) or '', case={'kind': 'qnmatch', 'pattern': p, 'name': names[0]}, observed=i))
            elif w is not None and i[1] != w:
                name = self.first_diff([0, w], i, names)
                o = [0, int(unpack(i[1], len(names))[names.index(name)])]
                found.append(Violation('oracle', qn_oracle(p, name, o) or '', case={'kind': 'qnmatch', 'pattern': p, 'name': name}, observed=o))
            if len(found) > 200 and fresh():
                break
        if fresh():
            return self._trim(found)
        # (iii) a larger random stream of pairs, parse values and rule lists
        saved = self.tier
        self.tier = 'thorough'
        try:
            vals = self.parse_cases()
            for v, i in zip(vals, lib.run_impl_worker('c13_qnmatch.py', [['parse', v] for v in vals])):
                o = parse_oracle(v, i)
                if o:
                    found.append(Violation('oracle', o, case={'kind': 'parse', 'value': v}, observed=i))
            if fresh():
                return self._trim(found)
            cases = self.privacy_cases()
            impl2 = lib.run_impl_worker('c13_privacy.py', cases, jobs=16)
            for c, obs in zip(cases, impl2):
                for k, o in enumerate(obs):
                    pv = privacy_violation({'kind': 'privacy', 'rules': c['rules'], 'queries': c['queries'], 'index': k}, o)
                    if pv:
                        found.append(pv)
            if fresh():
                return self._trim(found)
            pairs = []
            for _ in range(6000):
                p = self.random_pattern()
                if p.count('*') <= 5:
                    pairs += [(p, n) for n in self.names_for(p)]
            impl3 = lib.run_impl_worker('c13_qnmatch.py', [['qn1', p, n] for p, n in pairs], jobs=16)
            for (p, n), i in zip(pairs, impl3):
                o = qn_oracle(p, n, i)
                if o:
                    found.append(Violation('oracle', o, case={'kind': 'qnmatch', 'pattern': p, 'name': n}, observed=i))
        finally:
            self.tier = saved
        return self._trim(found)

    def _trim(self, found: List[Violation]) -> List[Violation]:
        known = self.known_entries()
        new = [v for v in found if self.classify_known(v, known) is None]
        old = [v for v in found if self.classify_known(v, known) is not None]
        return new[:200] + old[:20]

    def classify_known(self, v: Violation, known: List[dict]) -> Optional[dict]:
        c = v.case
        if not isinstance(c, dict) or v.kind != 'oracle':
            return None
        for k in known:
            m = k.get('match', {})
            if m.get('class') == 'inverted_range':
                if c.get('kind') == 'qnmatch' and glob_inverted(glob_lex(c['pattern'])) and v.observed == [1, 1]:
                    return k
                if c.get('kind') == 'privacy' and v.observed == [1, 1] and \
                        any(glob_inverted(glob_lex(p)) for _, p in c['rules']):
                    return k
            if m.get('class') == 'main_module' and c.get('kind') == 'privacy' and isinstance(v.expected, dict) and \
                    v.expected.get('main_module_involved') and v.observed[0] == 0:
                # the forced PRIVATE of a module named __main__: its own level / isPrivate, or isVisible of a member of it
                qk = v.expected.get('query_kind')
                if (qk == 0 and v.observed == [0, 1]) or (qk == 2 and v.observed == [0, 1]) or (qk == 1 and v.observed == [0, 1]):
                    return k
        return None

    def replay(self, data: Any) -> int:
        c = data['input']
        if not isinstance(c, dict):
            print('no concrete input in this replay file:', data.get('what'))
            return 1
        kind = c.get('kind')
        if kind == 'qnmatch':
            i = lib.run_impl_worker('c13_qnmatch.py', [['qn1', c['pattern'], c['name']]])[0]
            tr = lib.run_impl_worker('c13_qnmatch.py', [['tr', c['pattern']]])[0]
            o = qn_oracle(c['pattern'], c['name'], i)
            print('pattern   :', repr(c['pattern']), ' name:', repr(c['name']))
            print('translate :', tr)
            print('observed  : qnmatch ->', i, '([0, b] = returned b, [1, e] = raised, e=1: re.error bad character range)')
            toks = glob_lex(c['pattern'])
            print('documented:', 'no meaning (inverted range)' if glob_inverted(toks) else glob_match(toks, c['name']), ' tokens', toks)
            print('property  :', o or 'holds on this input')
            return 1 if o else 0
        if kind == 'parse':
            i = lib.run_impl_worker('c13_qnmatch.py', [['parse', c['value']]])[0]
            o = parse_oracle(c['value'], i)
            print('value     :', repr(c['value']))
            print('observed  :', i, '([0, level, pattern] accepted, [1, kind, message, exit status] rejected)')
            print('property  :', o or 'holds on this input')
            return 1 if o else 0
        if kind == 'privacy':
            payload = {'rules': c['rules'], 'queries': c['queries'], 'system': c.get('system', 'main')}
            if 'history' in c:
                payload['history'] = c['history']
                print('history   :', c['history']['steps'])
            obs = lib.run_impl_worker('c13_privacy.py', [payload])[0]
            rc = 0
            print('rules (command-line order):', [(LEVELS[l], p) for l, p in c['rules']])
            for k, o in enumerate(obs):
                msg = privacy_oracle(c['rules'], o)
                shown = 'raised %s' % (o[4][1],) if o[4][0] != 0 else LEVELS[o[4][1]] if o[5] == 0 else \
                    '%s %s' % (['', 'isVisible', 'isPrivate'][o[5]], bool(o[4][1]))
                print('query %d: %s -> %s   %s' % (k, o[0], shown,
                                                  ('PROPERTY: ' + msg) if msg else 'as documented'))
                if msg and k == c.get('index', k):
                    rc = 1
            return rc
        if kind in ('escape', 'upper', 'isspace', 'translate'):
            print('table/translate correspondence case', c, '-- expected (model):', data.get('expected'), 'observed:', data.get('observed'))
            return 1
        print('unknown replay input', c)
        return 2


def parse_oracle(value: str, obs: Any) -> Optional[str]:
    """accepted exactly when <level>:<pattern> with one colon, level case-insensitive among the documented names
    (and the compatibility alias VISIBLE), both sides stripped"""
    parts = value.split(':')
    table = {'HIDDEN': 0, 'PRIVATE': 1, 'PUBLIC': 2, 'VISIBLE': 2}
    want: List[Any] = [1]
    if len(parts) == 2:
        lv = parts[0].strip()
        key = lv.upper() if lv.isascii() else None
        if key in table:
            want = [0, table[key], parts[1].strip()]
        elif not lv.isascii():
            return None     # non-ASCII level spellings: the manual says nothing; the model/implementation tie covers them
    if (obs if obs[0] == 0 else [1]) != want:
        return 'parse_privacy_tuple(%r) -> %s, documented %s' % (value, obs, want)
    if obs[0] != 0 and obs[3] != 1:
        return 'parse_privacy_tuple(%r) exits with status %r, an error exit is status 1' % (value, obs[3])
    return None


def model_query(o: List[Any]) -> List[Any]:
    """observation row of the worker -> query of the model: the object, the kind of query, its parents"""
    return [o[0], o[1], o[2], o[3], o[5], [[p[0], p[1], p[2], p[3]] for p in o[6]]]


def is_main_module(d: List[Any]) -> bool:
    return bool(d[3]) and d[1] == '__main__'


def privacy_violation(case: dict, o: List[Any]) -> Optional[Violation]:
    msg = privacy_oracle(case['rules'], o)
    if not msg:
        return None
    want, _ = precedence_oracle(case['rules'], o[0], o[1])
    chain = [o] + (o[6] if o[5] == 1 else [])
    return Violation('oracle', msg, case=case,
                     expected={'level': want, 'is_module': o[3], 'name': o[1], 'query_kind': o[5],
                               'main_module_involved': any(is_main_module(d) for d in chain)}, observed=o[4])


def privacy_oracle(rules: List[List[Any]], o: List[Any]) -> Optional[str]:
    full, name, has_kind, is_mod, res, qkind, parents = o
    chain = [o[:4]] + ([p for p in parents] if qkind == 1 else [])
    if not all(d[2] for d in chain):
        return None         # objects without a kind are never produced by the builder: outside the statement
    rs = [(LEVELS[l], p) for l, p in rules]
    want, _ = precedence_oracle(rules, full, name)
    what = ['privacyClass', 'isVisible', 'isPrivate'][qkind]
    if res[0] != 0:
        return '%s: %s raised (error class %s) under rules %s; the documented level is %s' % (full, what, res[1], rs, LEVELS[want])
    if qkind == 0:
        if res[1] != want:
            return '%s: privacy %s under rules %s; documented: %s' % (full, LEVELS[res[1]], rs, LEVELS[want])
    elif qkind == 2:
        if bool(res[1]) != (want != 2):
            return '%s: isPrivate %s under rules %s; documented level %s' % (full, bool(res[1]), rs, LEVELS[want])
    else:
        levels = [precedence_oracle(rules, d[0], d[1])[0] for d in chain]
        vis = all(l != 0 for l in levels)
        if bool(res[1]) != vis:
            return '%s: isVisible %s under rules %s; documented levels of the object and its ancestors: %s' % (
                full, bool(res[1]), rs, [(d[0], LEVELS[l]) for d, l in zip(chain, levels)])
    return None
