"""Base class of the C11 and C12 checks: one model (Model/Site.v), one worker (impl/c11_crawl.py), two oracles."""
from __future__ import annotations
import hashlib, json, os, random, re
from typing import Any, Dict, List, Optional
import lib
import c11_site as S
from lib import PropertyCheck, Violation, dec, txt

SUPERSEDED = re.compile(r'(^|\.)[^.]* \d+(\.|$)')


def compact_case(case: Dict[str, Any]) -> Dict[str, Any]:
    return {k: case[k] for k in ('id', 'files', 'roots', 'args', 'realtree', 'partial') if k in case}


class SiteCheck(PropertyCheck):
    which = 'C11'
    models = {'site': 'XSite.v'}
    needs_gen = True
    gen_modules = ['gen_listings', 'gen_c11_code']
    rule = ('generated projects (packages, sub-packages, modules; classes inheriting across modules, overriding methods with and '
            'without docstrings, properties, class/instance variables, constants, nested classes, re-exports through __all__, '
            'duplicate definitions, L{} cross references to random objects incl. hidden ones) x --privacy rule lists generated '
            'from the project\'s own names (exact and pattern rules, HIDDEN/PRIVATE/PUBLIC, any order) x theme x sidebar depth; '
            'plus the corpus of boundary projects; non-trivial = the rendered registry contains a HIDDEN object, a PRIVATE '
            'object or a superseded duplicate; distinct = by hash of (files, arguments)')
    trusted_base = [
        'Coq 8.16.1 kernel; vm_compute for listings_checked / witnesses / examples; no native_compute; no axioms',
        'translator harness/gen/gen_listings.py (fail-closed): STATIC part = iteration domain + isVisible / no-space guards of 22 '
        'listing producers, read as element streams (comprehensions, loops with guard clauses, locals, helper calls are '
        'followed) with the path condition of the emitting statements; BEHAVIOURAL part = the hand-mirrored functions '
        '(fullName, privacyClass/__main__, isVisible, isPrivate, page_object, url, taglink incl. the measured hidden-target flag, '
        'css_class and the class_ renderers, moduleSummary incl. the compact threshold, search privacy field, objectsOfType, '
        'nested_bases / class_members / inherited_members, anchor renderers) are RUN on fixture systems built with the real '
        'builder and compared with a reference of what Model/Site.v mirrors',
        'translator harness/gen/gen_c11_code.py (fail-closed): the bodies of Documentable.fullName / privacyClass / isVisible / '
        'isPrivate / page_object / url, Module.privacyClass and linker.taglink, statement by statement, into the language of '
        'Model/SiteIR.v; Proofs/SiteIRProofs.v proves their interpretation equal to Model/Site.v for every registry '
        '(C11_code_*_is_model, C12_code_*_is_model).  Primitive / assumed there: the registry fields name and parent, '
        'documentation_location by kind and the attribute dispatch of privacyClass (both checked on the live classes), '
        'System.privacyClass (input), root_names, quote, str and tag operations, logging has no effect',
        'oracle contract: urllib.parse.quote never emits "#" (proved for the concrete model quote: cquote_no_hash)',
        'extraction ExtrOcamlBasic only + coq/ocaml/driver.ml',
        'harness/c11_check.py, c11_site.py (generator, canonicalisation, oracles), impl/c11_crawl.py + c11_crawler.py '
        '(html.parser based crawler of the written files)',
        'modelled not verified: the registry (parents, contents, mro, subclasses, baseobjects, parentMod, System.privacyClass per '
        'object, hasdocstring, docstring source) is an INPUT observed from the real System after the run; the targets the '
        'docstring linker resolves (o_xrefs / o_sum_xrefs) are an ORACLE recorded from the real linker; twisted.web.template '
        'rendering, docutils output (footnotes, #rst- ids, TOC), class-signature links, zope.interface pages',
    ]
    assumptions = ['wf registry (C02): parents numbered before children, contents/parent consistent, roots are modules, only '
                   'modules/packages/classes contain objects (checked per observed registry by the verified wf_b and counted)',
                   'quote never emits "#"']

    # ------------------------------------------------------------------ cases
    def sizes(self) -> int:
        return 36 if self.tier == 'quick' else 1000

    def cases(self) -> List[Dict[str, Any]]:
        out = S.corpus()
        rng = random.Random(self.rng.random())
        for i in range(self.sizes()):
            out.append(S.gen_project(rng, i))
        if self.tier != 'quick':
            repo = os.environ.get('VERIF_REPO', '/repo')
            for args in (['--theme=classic'], ['--theme=readthedocs', '--sidebar-expand-depth=3',
                                               '--privacy=HIDDEN:pydoctor.test', '--privacy=PRIVATE:pydoctor.epydoc.**',
                                               '--privacy=HIDDEN:pydoctor.model.System.privacyClass']):
                out.append({'id': 'real-pydoctor', 'realtree': repo + '/pydoctor', 'args': args + ['--docformat=epytext']})
        return out

    # ------------------------------------------------------------------ one batch through worker + model + oracle
    def oracle(self, reg: Dict[str, Any], cr: Dict[str, Any]) -> List[Dict[str, Any]]:
        return S.oracle_c11(reg, cr) if self.which == 'C11' else S.oracle_c12(reg, cr)

    def annotate(self, f: Dict[str, Any], reg: Dict[str, Any], cr: Dict[str, Any]) -> None:
        """adds the class of a finding (used by classify_known); the class is decided from the observation only"""
        by_url: Dict[str, List[Dict[str, Any]]] = {}
        for o in reg['objs']:
            by_url.setdefault(o['url'], []).append(o)
        files = set(cr['files'])
        if self.which == 'C11':
            href = f.get('href')
            tgt_objs: List[Dict[str, Any]] = []
            if href is not None:
                full = href
                if href.startswith('#') and 'page' in f:
                    full = f['page'] + href
                tgt_objs = by_url.get(full, [])
                if not tgt_objs and full.startswith('index.html'):
                    tgt_objs = by_url.get(full, [])
            if f.get('obj'):
                tgt_objs = tgt_objs + [o for o in reg['objs'] if o['full'] == f['obj']]
            if tgt_objs and all(SUPERSEDED.search(o['full']) for o in tgt_objs):
                f['class'] = 'superseded-duplicate'
                f['target'] = tgt_objs[0]['full']
                return
            if href is not None and '%' in href.split('#')[0] and href.split('#')[0] in files:
                f['class'] = 'quoted-file-name'
                return
            if f['kind'] == 'dead-anchor' and href is not None and href.startswith('classIndex.html#'):
                # a class that classIndex does not reach because its base chain goes through a superseded duplicate
                name = href.split('#', 1)[1]
                objs = {o['full']: o for o in reg['objs']}
                o = objs.get(name)
                seen = set()
                stack = [o] if o else []
                while stack:
                    x = stack.pop()
                    if id(x) in seen:
                        continue
                    seen.add(id(x))
                    for bn, bi in x.get('bases', []):
                        if bi is not None:
                            b = reg['objs'][bi]
                            if SUPERSEDED.search(b['full']):
                                f['class'] = 'superseded-duplicate'
                                f['target'] = b['full']
                                return
                            stack.append(b)
            if f['kind'] == 'dead-anchor' and href is not None and href.startswith('#rst-toc-entry-'):
                f['class'] = 'toc-backlink'
                return
            if f['kind'] == 'dead-anchor' and href is not None and href.startswith('#') and f.get('zone') in ('member_doc', 'docstring'):
                # stale linker page: an object rendered on this page with its OWN docstring whose linker still holds the
                # page it had before a re-export; the fragment names a member of that former page
                frag0 = S.unquote(href[1:])
                for o in reg['objs']:
                    if o['url'].split('#')[0] != f.get('page') or o.get('linker_page') is None:
                        continue
                    lp = reg['objs'][o['linker_page']]
                    own_page = o if o['own'] else (reg['objs'][o['parent']] if o['parent'] is not None else o)
                    if lp is not own_page and reg['objs'].index(lp) != (reg['objs'].index(own_page)) \
                            and o.get('docsource') is not None and reg['objs'][o['docsource']] is o \
                            and any(reg['objs'][ci]['name'] == frag0 for ci in lp['contents']):
                        f['class'] = 'stale-linker-page'
                        f['target'] = lp['full'] + '.' + frag0
                        return
                # inherited docstring: the link was shortened against the page of the docstring's SOURCE (a base class)
                frag = S.unquote(href[1:])
                pobjs = [o for o in reg['objs'] if o['own'] and o['url'] == f.get('page') and o['cls'] == 'C']
                for po in pobjs:
                    for bi in po.get('mro', [])[1:]:
                        b = reg['objs'][bi]
                        if any(reg['objs'][ci]['name'] == frag for ci in b['contents']):
                            f['class'] = 'inherited-docstring-context'
                            f['target'] = b['full'] + '.' + frag
                            return
            f['class'] = 'unclassified'
        else:
            f['class'] = 'unclassified'
            if f['kind'] == 'hidden-row' and f.get('producer') in ('module_index', 'index_roots') and f.get('root'):
                f['class'] = 'hidden-root-listed'
            href = f.get('href')
            if f['kind'] == 'hidden-link' and href is not None and href.startswith('#') and f.get('zone') in ('member_doc', 'docstring'):
                # the C11 findings seen from C12: a docstring link shortened against ANOTHER page (the page of the inherited
                # docstring's source, or the page a stale linker holds), whose real target -- a VISIBLE member of that other
                # page -- has the same name as a hidden member of the page the link is rendered on
                frag = S.unquote(href[1:])
                hid = S.hidden_closure(reg)
                objs = reg['objs']
                for i, o in enumerate(objs):
                    if o['url'].split('#')[0] != f.get('page'):
                        continue
                    src = o.get('docsource')
                    if src is not None and src != i:
                        sp = objs[src]['parent']
                        if sp is not None and objs[sp]['url'] != f.get('page') and \
                                any(objs[ci]['name'] == frag and not hid[ci] for ci in objs[sp]['contents']):
                            f['class'] = 'inherited-docstring-context'
                            f['target'] = objs[sp]['full'] + '.' + frag
                            return
                    lp = o.get('linker_page')
                    if lp is not None and src == i and objs[lp]['url'] != f.get('page') and \
                            any(objs[ci]['name'] == frag and not hid[ci] for ci in objs[lp]['contents']):
                        f['class'] = 'stale-linker-page'
                        f['target'] = objs[lp]['full'] + '.' + frag
                        return

    def run_batch(self, cases: List[Dict[str, Any]], with_model: bool = True) -> List[Violation]:
        res = lib.run_impl_worker('c11_crawl.py', [compact_case(c) for c in cases], jobs=16, timeout=6000)
        out: List[Violation] = []
        ok = [(c, r) for c, r in zip(cases, res) if 'error' not in r]
        aborted = [(c, r) for c, r in zip(cases, res) if 'error' in r]
        self.count('runs_aborted', len(aborted))
        for c, r in aborted[:3]:
            self.notes.append('run aborted (C01 matter, not counted here): %s: %s' % (c.get('id'), r['error'].strip().splitlines()[-1][:200]))
        if len(aborted) * 4 > len(cases):
            out.append(Violation('correspondence', 'more than a quarter of the pydoctor runs aborted; first: '
                                 + aborted[0][1]['error'][-800:], case=compact_case(aborted[0][0]), found_input=False))
        mouts: List[Optional[str]] = [None] * len(ok)
        if with_model and ok:
            mouts = list(self.model('site', [S.to_model(r['registry']) for _, r in ok]))
        for (c, r), mo in zip(ok, mouts):
            reg, cr = r['registry'], r['crawl']
            self.evaluations += 1
            d = S.describe(reg)
            for k, v in d.items():
                self.count('sum_' + k, v)
            key = hashlib.sha256(json.dumps([c.get('files'), c.get('args'), c.get('realtree')], sort_keys=True).encode()).hexdigest()
            if d['hidden'] or d['private'] or d['superseded']:
                self.nontrivial.add(key)
            for feat in c.get('features', []):
                self.count('feature_' + feat)
            for a in c.get('args', []):
                if a.startswith('--theme') or a.startswith('--sidebar-expand-depth') or a == '--no-sidebar':
                    self.count('arg_' + a.lstrip('-'))
            self.count('privacy_rules', sum(1 for a in c.get('args', []) if a.startswith('--privacy')))
            partial = bool(c.get('partial'))
            if partial:
                self.count('partial_sites_html_subject')
            if mo is not None and not partial:
                m = dec(mo)
                self.count('registries_wf' if m[4] else 'registries_not_wf')
                # hypotheses of C11_hierarchy_anchor (wf_classes): subclasses consistent with baseobjects, classes
                # registered in allobjects, no inheritance cycle
                allids = set(v for _, v in reg['all'])
                okc = True
                for ci, co in enumerate(reg['objs']):
                    if co['cls'] != 'C':
                        continue
                    if ci not in allids:
                        okc = False
                    for bn, bi in co.get('bases', []):
                        if bi is not None and (reg['objs'][bi]['cls'] != 'C' or ci not in reg['objs'][bi].get('subclasses', [])):
                            okc = False
                    seen_c, stack_c = set(), [bi for _, bi in co.get('bases', []) if bi is not None]
                    while stack_c:
                        x = stack_c.pop()
                        if x == ci:
                            okc = False
                            break
                        if x in seen_c:
                            continue
                        seen_c.add(x)
                        stack_c.extend(bi for _, bi in reg['objs'][x].get('bases', []) if bi is not None)
                self.count('registries_wf_classes' if okc else 'registries_not_wf_classes')
                mv, cv = S.model_view(m), S.crawl_view(reg, cr)
                diff = S.diff_views(mv, cv)
                self.count('entries_compared', len(cv['entries']))
                self.count('anchors_compared', len(cv['anchors']))
                self.count('files_compared', len(cv['files']))
                for i, (ob, mob) in enumerate(zip(reg['objs'], m[3])):
                    if txt(mob[0]) != ob['url'] or bool(mob[1]) != ob['visible'] or txt(mob[2]) != ob['full']:
                        diff = diff or {}
                        diff['object'] = {'full': ob['full'], 'impl': [ob['url'], ob['visible']],
                                          'model': [txt(mob[0]), bool(mob[1]), txt(mob[2])]}
                        break
                # cross references rendered by the annotation linker (class signature incl. generic arguments, function
                # signatures, attribute types): the model's taglink with ctx = the page they are rendered on
                murls = [(txt(mob[0]), bool(mob[1])) for mob in m[3]]
                for page, info in cr['pages'].items():
                    allowed = None
                    for ref in info.get('refs', []):
                        if ref[2] in ('class_signature', 'member_header') and 'internal-link' in ref[3].split():
                            if allowed is None:
                                allowed = set()
                                for u, vis in murls:
                                    if vis:
                                        allowed.add(u[len(page):] if u.startswith(page + '#') else u)
                            self.count('annotation_links_compared')
                            if ref[1] not in allowed:
                                diff = diff or {}
                                diff.setdefault('annotation_links', []).append(
                                    {'page': page, 'zone': ref[2], 'href': ref[1],
                                     'why': 'not taglink(o, page_url=this page) of any visible object of the model'})
                # third leg: the function bodies translated from /repo, interpreted (Model/SiteIR.v), against the real objects
                if len(m) > 5:
                    for i, (ob, cv_) in enumerate(zip(reg['objs'], m[5])):
                        self.count('code_leg_objects')
                        got_url = txt(cv_[0][1]) if cv_[0][0] == 0 else ('<%d>' % cv_[0][0])
                        got_vis = bool(cv_[1][1]) if cv_[1][0] == 1 else None
                        got_prv = bool(cv_[2][1]) if cv_[2][0] == 1 else None
                        tl = []
                        for k in (3, 4):
                            tl.append(txt(cv_[k][1]) if cv_[k][0] == 2 else (None if cv_[k][0] == 3 else '<%d>' % cv_[k][0]))
                        mtl = [txt(cv_[5][0]) if cv_[5] else None, txt(cv_[6][0]) if cv_[6] else None]
                        if got_url != ob['url'] or got_vis != ob['visible'] or got_prv != (ob['priv'] != 'PUBLIC') or tl != mtl:
                            diff = diff or {}
                            diff['generated_code'] = {'full': ob['full'], 'impl': [ob['url'], ob['visible'], ob['priv'] != 'PUBLIC'],
                                                      'code': [got_url, got_vis, got_prv], 'taglink_code': tl, 'taglink_model': mtl}
                            break
                if diff and len([v for v in out if v.kind == 'correspondence']) < 5:
                    out.append(Violation('correspondence', 'Model.Site and the files pydoctor wrote disagree: '
                                         + json.dumps(diff)[:600], case=compact_case(c), expected='model', observed=diff))
            # a --html-subject run writes a partial site on purpose: link liveness (C11) does not apply to it
            findings = [] if (partial and self.which == 'C11') else self.oracle(reg, cr)
            seen_classes = set()
            for f in findings:
                self.annotate(f, reg, cr)
                sig = (f['class'], f['kind'], f.get('producer'), f.get('zone'))
                if sig in seen_classes:
                    continue
                seen_classes.add(sig)
                self.count('oracle_' + f['class'])
                cc = compact_case(c)
                cc['finding'] = f
                out.append(Violation('oracle', f['what'], case=cc, observed=f))
            if len(self.samples) < 4 and 'files' in c:
                self.sample({'id': c['id'], 'args': c['args'], 'roots': c['roots'], 'files': sorted(c['files']), 'registry': d})
        return out

    def correspondence(self) -> List[Violation]:
        cases = self.cases()
        out: List[Violation] = []
        step = 128            # bounded memory: one batch of crawls at a time
        for i in range(0, len(cases), step):
            out.extend(self.run_batch(cases[i:i + step]))
        self.stats['distinct_nontrivial'] = len(self.nontrivial)
        return out

    def search(self, broken: List[Violation]) -> List[Violation]:
        rng = random.Random(self.seed + 1)
        cases = S.corpus() + [S.gen_project(rng, 10000 + i) for i in range(150 if self.tier == 'quick' else 600)]
        found: List[Violation] = []
        for i in range(0, len(cases), 128):
            found.extend(v for v in self.run_batch(cases[i:i + 128], with_model=False) if v.kind == 'oracle')
        known, _ = lib.load_known_findings(self.id)
        fresh = [v for v in found if self.classify_known(v, known) is None]
        return fresh[:5] or found[:1]

    def classify_known(self, v: Violation, known: List[dict]) -> Optional[dict]:
        if v.kind != 'oracle' or not isinstance(v.case, dict):
            return None
        f = v.case.get('finding') or {}
        for k in known:
            m = k.get('match', {})
            if m.get('class') == f.get('class') and f.get('class') not in (None, 'unclassified'):
                if 'kinds' in m and f.get('kind') not in m['kinds']:
                    continue
                return k
        return None

    def replay(self, data: Any) -> int:
        case = data['input']
        if not isinstance(case, dict) or not ('files' in case or 'realtree' in case):
            print('nothing to replay: %s' % data.get('what'))
            return 1
        res = lib.run_impl_worker('c11_crawl.py', [compact_case(case)])[0]
        if 'error' in res:
            print('pydoctor run aborted:', res['error'][-1500:])
            return 1
        reg, cr = res['registry'], res['crawl']
        print('project files :', sorted(case.get('files', {})) or case.get('realtree'))
        print('arguments     :', case.get('args'))
        rc = 0
        if data.get('kind') == 'correspondence':
            b, _ = lib.build_model(self.id + '_site', 'XSite.v')
            m = dec(lib.run_model(b, [S.to_model(reg)])[0])
            diff = S.diff_views(S.model_view(m), S.crawl_view(reg, cr))
            print('model vs written files:', json.dumps(diff, indent=1)[:3000] if diff else 'agree')
            rc = 1 if diff else 0
        findings = self.oracle(reg, cr)
        known, _ = lib.load_known_findings(self.id)
        for f in findings:
            self.annotate(f, reg, cr)
        def is_known(f: Dict[str, Any]) -> bool:
            return self.classify_known(Violation('oracle', f['what'], case={'finding': f}), known) is not None
        fresh = [f for f in findings if not is_known(f)]
        for f in findings[:12]:
            print(' -', f['class'], ':', f['what'])
        want = (data.get('input') or {}).get('finding', {})
        same = [f for f in fresh if f.get('kind') == want.get('kind')]
        print('property %s requires: %s' % (self.id, 'every relative link resolves to a written file / existing anchor; every '
              'visible object has its page / anchor' if self.which == 'C11' else
              'a hidden object has no page, anchor, row, search or inventory entry and is no link target; every listing '
              'entry of a PRIVATE object carries the private marker'))
        print('still failing' if (same or fresh) else ('only recorded known findings on this input' if findings else 'holds on this input'))
        return 1 if (same or fresh or rc) else 0
