"""C05 -- inheritance is computed as Python computes it.

Three observations of the same class hierarchy are compared:
  * CPython itself: the class statements executed with type(name, bases, ns): __mro__ or TypeError, getattr,
    the namespaces along __mro__ (and inspect.getdoc, informational);
  * the real pydoctor: (a) pydoctor.mro.mro / _merge on the abstract graph, (b) the real builder on generated
    source spread over modules (Class.mro(), warnings of section 'mro', Class.find, docsources, get_docstring,
    templatewriter.util.class_members, pages.get_override_info);
  * the extracted Coq model (Model/Mro.v) and, for validation of the specification, the extracted Spec/C3.v.
oracle()  = the property, stated on (pydoctor observation, CPython observation) only.
correspondence = model == pydoctor on every case;  spec validation = Spec/C3.v == CPython on every case.
"""
from __future__ import annotations
import itertools, json, random
from typing import Any, Dict, Iterator, List, Optional, Tuple
import lib
from lib import PropertyCheck, Violation, enc, dec

NPOOL = 4
NAMES = list(range(NPOOL)) + [100 + n for n in range(NPOOL)]      # f0..f3, v0..v3 as the model numbers them


# ------------------------------------------------------------------ generators
def ordered_choices(items: List[int]) -> List[Tuple[int, ...]]:
    out: List[Tuple[int, ...]] = []
    for k in range(len(items) + 1):
        out.extend(itertools.permutations(items, k))
    return out


def hierarchies(n: int) -> Iterator[List[List[Any]]]:
    """Every hierarchy of exactly n classes 1..n: class i has any ordered choice of distinct bases among 1..i-1."""
    if n == 0:
        yield []
        return
    choices = ordered_choices(list(range(1, n)))
    for h in hierarchies(n - 1):
        for b in choices:
            yield h + [[n, list(b)]]


def dup_hierarchies(n: int, maxlen: int = 3) -> Iterator[List[List[Any]]]:
    """Hierarchies whose base lists may name a class more than once (`class C(A, A)`)."""
    if n == 0:
        yield []
        return
    seqs: List[Tuple[int, ...]] = []
    for k in range(maxlen + 1):
        seqs.extend(itertools.product(range(1, n), repeat=k))
    for h in dup_hierarchies(n - 1, maxlen):
        for b in seqs:
            yield h + [[n, list(b)]]


def random_hierarchy(rng: random.Random, n: int, externals: bool) -> List[List[Any]]:
    h: List[List[Any]] = []
    for c in range(1, n + 1):
        earlier = list(range(1, c))
        k = rng.choice([0, 1, 1, 1, 2, 2, 2, 3, 3, 4]) if earlier else 0
        k = min(k, len(earlier))
        # prefer recent classes and their bases so that diamonds are frequent
        bs = rng.sample(earlier, k)
        if bs and rng.random() < 0.6:
            # order the bases "mostly consistently" (subclasses first) so that many hierarchies are accepted
            bs.sort(reverse=True)
            if rng.random() < 0.3:
                rng.shuffle(bs)
        if externals and rng.random() < 0.12:
            bs.insert(rng.randint(0, len(bs)), 1000 + rng.randint(1, 3))
        h.append([c, bs])
    return h


def decorate(rng: random.Random, h: List[List[Any]], kind: str = 'build') -> Dict[str, Any]:
    n = len(h)
    nm = rng.randint(1, 3)
    if rng.random() < 0.6:
        cuts = sorted(rng.randint(0, n) for _ in range(nm - 1))
        mod = [sum(1 for c in cuts if i >= c) for i in range(n)]          # contiguous chunks: imports only go backwards
    else:
        mod = [rng.randrange(nm) for _ in range(n)]                        # interleaved: modules import each other
    used = sorted(set(mod))
    mod = [used.index(m) for m in mod]
    imp = [rng.randint(0, 1) for _ in range(n)]
    gen = [[c, p] for c, bs in h for p in range(len(bs)) if bs[p] < 1000 and rng.random() < 0.3]
    mem = []
    for c, _ in h:
        ms = []
        for name in rng.sample(range(NPOOL), rng.choice([0, 1, 1, 2, 2, 3])):
            kindm = 0 if rng.random() < 0.8 else 1
            r = rng.random()
            doc = None if r < 0.45 else 0 if r < 0.57 else c * 100 + name + 1 + 50 * kindm
            ms.append([name, doc, kindm])
        if ms:
            mem.append([c, ms])
    hid: List[List[int]] = []
    if rng.random() < 0.5:
        for c, ms in mem:
            for name, _, kindm in ms:
                if rng.random() < 0.3:
                    hid.append([c, mnum(name, kindm)])
        for c, _ in h:
            if rng.random() < 0.08:
                hid.append([c, -1])
    # a base written through a local name that is re-bound, after the class statement, to another documented class.
    # Only where every class involved is already defined/processed at that point (modules in contiguous chunks).
    reb: List[List[int]] = []
    if all(mod[i] <= mod[i + 1] for i in range(n - 1)) and rng.random() < 0.5:
        order = [c for c, _ in h]
        for i, (c, bs) in enumerate(h):
            for p, b in enumerate(bs):
                others = [d for d in order[:i] if d != b]
                if b < 1000 and b in order[:i] and others and rng.random() < 0.35:
                    reb.append([c, p, rng.choice(others)])
    return {'kind': kind, 'h': h, 'mod': mod, 'imp': imp, 'gen': gen, 'mem': mem, 'pkg': rng.random() < 0.2, 'hid': hid,
            'reb': reb}


def hidden_set(case: Any) -> set:
    """(class, member number) pairs that are not visible: hidden themselves or inside a hidden class"""
    hid = set((c, n) for c, n in case.get('hid', []))
    out = set()
    for c, ms in case.get('mem', []):
        for name, _, kindm in ms:
            if (c, mnum(name, kindm)) in hid or (c, -1) in hid:
                out.add((c, mnum(name, kindm)))
    return out


def random_cyclic(rng: random.Random) -> Dict[str, Any]:
    n = rng.randint(2, 6)
    h = []
    for c in range(1, n + 1):
        others = [x for x in range(1, n + 1) if x != c]
        k = rng.choice([0, 1, 1, 2, 2])
        h.append([c, rng.sample(others, min(k, len(others)))])
    case = decorate(rng, h, 'cyc')
    if rng.random() < 0.7:
        case['mod'] = [0] * n
    case['mem'] = []
    case['hid'] = []
    case['reb'] = []
    return case


def random_merge(rng: random.Random) -> Dict[str, Any]:
    k = rng.randint(0, 5)
    lo = 0 if rng.random() < 0.25 else 1
    ls = []
    for _ in range(k):
        ln = rng.randint(0, 5)
        if rng.random() < 0.8:
            pool = list(range(lo, 7))
            rng.shuffle(pool)
            l = sorted(pool[:ln]) if rng.random() < 0.6 else pool[:ln]
        else:
            l = [rng.randint(lo, 4) for _ in range(ln)]
        ls.append(l)
    return {'kind': 'merge', 'ls': ls}


# ------------------------------------------------------------------ graph helpers (case side)
def reaches_cycle(h: List[List[Any]]) -> Dict[int, bool]:
    d = {c: [b for b in bs] for c, bs in h}
    keys = set(d)

    def reach(c: int) -> set:
        seen: set = set()
        todo = [b for b in d[c] if b in keys]
        while todo:
            x = todo.pop()
            if x in seen:
                continue
            seen.add(x)
            todo.extend(b for b in d[x] if b in keys)
        return seen
    R = {c: reach(c) for c in d}
    oncycle = {c for c in d if c in R[c]}
    return {c: (c in oncycle or any(x in oncycle for x in R[c])) for c in d}


def ancestors(h: List[List[Any]], c: int) -> set:
    d = {k: bs for k, bs in h}
    seen = {c}
    todo = [c]
    while todo:
        x = todo.pop()
        for b in d.get(x, []):
            if b not in seen:
                seen.add(b)
                todo.append(b)
    return seen


def mnum(name: int, kind: int) -> int:
    return name + 100 * kind


def mstr(name: int, kind: int) -> str:
    return ('f%d' if kind == 0 else 'v%d') % name


# ------------------------------------------------------------------ the property, stated on observations
def oracle_abs(case: Any, obs: Any) -> Optional[str]:
    """pydoctor.mro.mro on the abstract graph answers what type() answers (or raises where type() raises)."""
    for (c, im), (_, py) in zip(obs['impl'], obs['py']):
        if im[0] == 4:
            return 'class %d: pydoctor.mro.mro raised %s' % (c, im[2])
        if py[0] == 0 and im != py:
            return ('class %d: Python linearises it as %s, pydoctor.mro.mro answers %s'
                    % (c, py[1], im[1] if im[0] == 0 else 'ValueError'))
        if py[0] == 1 and im[0] == 0:
            return 'class %d: Python rejects it (TypeError), pydoctor.mro.mro linearises it as %s' % (c, im[1])
    return None


def oracle_merge(case: Any, obs: Any) -> Optional[str]:
    if any(x == 0 for l in case['ls'] for x in l):
        return None          # falsy objects never reach _merge from source code (see C05_merge_falsy_refuted)
    im, py = obs['impl'], obs['py']
    if im[0] == 4:
        return '_merge raised %s' % im[2]
    if im[:2] != py[:2]:
        return 'C3 merge of %s is %s, pydoctor.mro._merge answers %s' % (case['ls'], py, im)
    return None


def oracle_build(case: Any, obs: Any) -> Optional[str]:
    impl, py = obs['impl'], obs['py']['classes']
    if impl['crash']:
        return 'the run aborted: ' + impl['crash']
    h = case['h']
    mem = {c: ms for c, ms in case.get('mem', [])}
    rc = reaches_cycle(h) if case['kind'] == 'cyc' else {}
    hidden = hidden_set(case)
    for c, bs in h:
        io = impl['classes'].get(str(c))
        po = py[str(c)]
        if io is None:
            return 'class K%d is not documented' % c
        if case['kind'] == 'cyc':
            if rc[c]:
                if not io['warn']:
                    return 'class K%d is on / inherits from an inheritance cycle and no warning of section mro names it' % c
                if not io['mro'] or io['mro'][0] != c or len(io['mro']) > 5000:
                    return 'class K%d (cycle): Class.mro() is %s' % (c, io['mro'][:20])
                continue
            if po['mro'] is None:
                continue          # forward references: not a program Python can run; model correspondence only
        if po['mro'] is None:
            # Python rejects the class statement (or one of its bases does not exist)
            if not io['warn']:
                return ('class K%d: Python raises TypeError for bases %s; pydoctor reports nothing and uses %s'
                        % (c, bs, io['mro']))
            if not io['mro'] or io['mro'][0] != c:
                return 'class K%d is rejected and Class.mro() does not start with it: %s' % (c, io['mro'])
            anc = ancestors(h, c)
            if any(x not in anc for x in io['mro']):
                return 'class K%d is rejected and Class.mro() lists a class that is not an ancestor: %s' % (c, io['mro'])
            continue
        if io['mro'] != po['mro']:
            return 'class K%d: __mro__ is %s, Class.mro(include_external=True) is %s' % (c, po['mro'], io['mro'])
        if io['warn']:
            return 'class K%d: Python accepts it (%s) and pydoctor reports an mro problem' % (c, po['mro'])
        if io['mro_int'] != [x for x in po['mro'] if x < 1000]:
            return 'class K%d: Class.mro() is %s, __mro__ without undocumented classes is %s' % (c, io['mro_int'], po['mro'])
        if case['kind'] == 'cyc':
            continue
        # attribute lookup
        if io['find'] != po['find']:
            return ('class K%d: getattr finds %s in classes %s, Class.find answers %s'
                    % (c, [mstr(n % 100, n // 100) for n in NAMES], po['find'], io['find']))
        # docstring inheritance: first class along __mro__ whose namespace has the name with a docstring that is not None
        pyd = {(e[0], 0): (e[1], e[2]) for e in po['docs']}
        for e in io['docs']:
            if len(e) == 3:
                return 'class K%d: member %s is not documented' % (c, mstr(e[0], e[1]))
            name, kind, srcs, doc, source = e
            if kind == 0:
                want_doc, want_src = pyd[(name, 0)]
            else:
                want_doc, want_src = None, None
                for b in po['mro']:
                    for n2, d2, k2 in mem.get(b, []):
                        if n2 == name and k2 == kind and d2 is not None and want_src is None:
                            want_doc, want_src = d2, b
            shown = None if want_doc in (None, 0) else want_doc
            if (doc, source) != (shown, want_src):
                return ('class K%d member %s: along __mro__ %s the docstring comes from %s (%s); get_docstring answers %s from %s'
                        % (c, mstr(name, kind), po['mro'], want_src, shown, doc, source))
            definers = [b for b in po['mro'] if any(n2 == name and k2 == kind for n2, _, k2 in mem.get(b, []))]
            if srcs != definers:
                return ('class K%d member %s: classes along __mro__ that define it are %s, docsources() yields %s'
                        % (c, mstr(name, kind), definers, srcs))
        # override notes: first class after c along __mro__ whose namespace has the name
        if io['ovr'] != po['ovr']:
            return 'class K%d: members override the ones of %s, get_override_info says %s' % (c, po['ovr'], io['ovr'])
        # inherited-member tables: every attribute getattr can see is listed exactly once, under its definer
        listed: Dict[str, int] = {}
        for chain, names in io['chains']:
            if not chain or chain[-1] != c:
                return 'class K%d: an inheritance chain does not end at the class: %s' % (c, chain)
            for nm in names:
                if nm in listed:
                    return 'class K%d: member %s is listed twice in the member tables' % (c, nm)
                listed[nm] = chain[0]
        # ... unless the definition attribute lookup stops at is hidden (--privacy): then the name is not listed at all
        want = {mstr(n % 100, n // 100): d for n, d in zip(NAMES, po['find']) if d is not None and (d, n) not in hidden}
        if listed != want:
            return ('class K%d: the visible attributes and the classes attribute lookup finds them in are %s '
                    '(hidden definitions: %s), the inherited-member tables say %s'
                    % (c, want, sorted('K%d.%s' % (d, mstr(n % 100, n // 100)) for d, n in hidden), listed))
    return None


# ------------------------------------------------------------------ model I/O
def model_hier_input(h: List[List[Any]]) -> str:
    return enc([1, [[c, list(bs)] for c, bs in h]])


def model_members_input(case: Any) -> str:
    hidden = hidden_set(case)
    mem = [[c, [[mnum(n, k), [] if d is None else [d], 1 if (c, mnum(n, k)) in hidden else 0] for n, d, k in ms]]
           for c, ms in case.get('mem', [])]
    return enc([2, [[[c, list(bs)] for c, bs in case['h']], mem, NAMES]])


def opt(x: List[Any]) -> Any:
    return x[0] if x else None


class Check(PropertyCheck):
    id = 'C05'
    props_module = 'Props.C05'
    models = {'mro': 'XMro.v', 'c3': 'XC3.v', 'mro_ir': 'XMroIR.v'}
    needs_gen = True
    gen_modules = ['gen_c05_code']
    rule = ('every class hierarchy of <= N classes (class i: every ordered choice of distinct bases among classes 1..i-1), each '
            'decided three ways (CPython type(), pydoctor.mro.mro on the graph, the real builder on generated multi-module '
            'source) + hierarchies with repeated bases + random hierarchies of 6-14 classes with members + cyclic graphs + '
            'raw _merge inputs; non-trivial = some class has >= 2 bases (C3 really merges); distinct by hierarchy')
    trusted_base = [
        'Coq 8.16.1 kernel (coqc; vm_compute only in Example/_refuted witnesses; no native_compute)',
        'no axioms (Print Assumptions: Closed under the global context for every theorem of Props/C05.v)',
        'extraction: ExtrOcamlBasic only; OCaml 4.13.1; coq/ocaml/driver.ml',
        'Spec/C3.v is a hand transcription of CPython 3.12 Objects/typeobject.c pmerge/mro_implementation; validated on '
        'every case of every run against type(name, bases, {}).__mro__ / TypeError (and functools._c3_merge for raw merges)',
        'translator harness/gen/gen_c05_code.py (fail-closed; Python ast of pydoctor/mro.py -> Gen/MroCode.v, regenerated on every '
        'run) and the meaning Model/MroIR.v gives to its small language; stated assumptions about library calls: deque(iterable) '
        'copies the items in order; d[0]/len/popleft/bool(d) as for a list; islice(d, a, b) consumed at once yields d[a:b]; '
        '`x in it` is any(y == x); any/all/map(lambda) as comprehensions; getbases is a pure function; value semantics '
        '(mutations are written back to the receiver / to the element of a `for i in s._lists` or `for i, j in zip(s._lists, e)` '
        'loop, refused elsewhere); translator normalisations: `while c: B` = `while True: (if c: pass else: break); B`, '
        '`[a, *b]` = `[a] + b`, `x != y` = `not x == y`, a one-parameter module-level helper function is translated like the '
        'other bodies and called through EHelper',
        'correspondence harness harness/c05.py + harness/impl/c05_mro.py + harness/impl/c05_builder.py',
        'modelled not verified: which object a base expression denotes (C04/C06); the `_finalbaseobjects is not None` '
        'shortcut of init_finalbaseobjects; Class.allbases on cyclic hierarchies (walks the bases resolved at visit time); '
        'visibility filtering in unmasked_attrs (C12)',
    ]
    manifest = {
        'text': ('Coq theorems over Model/Mro.v, for hierarchies of any size: mro._merge (deques) refines CPython\'s pmerge (arrays + '
                 'remain indices) -- C05_merge_refines; mro.mro equals mro_implementation on every acyclic hierarchy, failures and '
                 'duplicate bases included -- C05_mro_equal / C05_init_mro_equal; fuel never runs out -- C05_fuel*; C3 sanity -- '
                 'C05_mro_c3; cycles are reported -- C05_cycle_reported; Class.find / get_docstring / inherited-member tables follow '
                 'attribute lookup along the MRO -- C05_find_lookup / C05_docsources / C05_unmasked. The model is tied to '
                 'pydoctor (a) by translation: every function body of pydoctor/mro.py (Dependency.head/tail, DependencyList.__init__/'
                 '__contains__/heads/tails/exhausted/remove, _merge, mro) is translated statement by statement from the current source '
                 'into the deep-embedded language of Model/MroIR.v on every run, and C05_code_*_is_model prove, for all inputs, that '
                 'interpreting that code is the model (C05_code_mro_is_python: it computes CPython\'s MRO); (b) for model.py / '
                 'templatewriter by an exhaustive correspondence check (every hierarchy of <= 4 classes quick / <= 5 thorough, 10,573) '
                 'three ways, and the specification to CPython by the same enumeration.'),
        'note': ('Trusted: Coq kernel, extraction + OCaml driver, Python harness, transcription of typeobject.c (validated against '
                 'type()). Residual: base-expression resolution (C04/C06), allbases fallback on cyclic hierarchies, visibility.'),
        'technique': 'Coq proof (suffix simulation deque/array; induction on fuel) + exhaustive three-way differential correspondence',
    }
    assumptions = ['class objects and base names are truthy (the empty base name is excluded: C05_merge_falsy_refuted)',
                   'docstring inheritance is compared with the namespaces along __mro__ (inspect.getdoc follows getattr(base, name) '
                   'and can skip ahead of that order; its agreement rate is recorded, not required)']

    # -------------------------------------------------------------- case streams
    def maxn(self) -> int:
        return 4 if self.tier == 'quick' else 5

    def abs_cases(self) -> List[Any]:
        out = []
        for n in range(1, 6):               # the abstract graph is cheap: all 10,573 hierarchies of <= 5 classes in every tier
            for h in hierarchies(n):
                out.append({'kind': 'abs', 'h': h})
        self.stats['exhaustive_hierarchies_abstract'] = len(out)
        nd = 0
        for n in range(2, (3 if self.tier == 'quick' else 4) + 1):
            for h in dup_hierarchies(n, 3 if n < 4 else 2):
                if any(len(set(bs)) != len(bs) for _, bs in h):
                    out.append({'kind': 'abs', 'h': h, 'dup': True})
                    nd += 1
        self.stats['duplicate_base_hierarchies'] = nd
        nr = 2000 if self.tier == 'quick' else 20000
        for _ in range(nr):
            out.append({'kind': 'abs', 'h': random_hierarchy(self.rng, self.rng.randint(6, 14), self.rng.random() < 0.3)})
        self.stats['random_abstract_hierarchies'] = nr
        return out

    def merge_cases(self) -> List[Any]:
        corpus = [[], [[]], [[1]], [[0]], [[1, 1]], [[1], [1]], [[1, 2], [2, 1]], [[1, 2], [2, 3], [3, 1]],
                  [[1, 2, 3], [1, 3], [2, 3]], [[2, 1], [3, 1], [2, 3]], [[1, 0]], [[], [1], []]]
        out = [{'kind': 'merge', 'ls': ls} for ls in corpus]
        nr = 2000 if self.tier == 'quick' else 60000
        out += [random_merge(self.rng) for _ in range(nr)]
        self.stats['merge_inputs'] = len(out)
        return out

    def build_cases(self) -> List[Any]:
        out = []
        rng = random.Random(self.seed * 7919 + 5)
        # corpus first: hidden overrides / hidden classes between a class and the base that defines the member
        # 1 Base(f0 f1), 2 Mid(1)(f0 hidden, f2), 3 Leaf(2)(f3), 4 Mixin(f0 f1), 5 Multi(2, 4)
        hier5 = [[1, []], [2, [1]], [3, [2]], [4, []], [5, [2, 4]]]
        mem5 = [[1, [[0, 101, 0], [1, 102, 0]]], [2, [[0, 201, 0], [2, 203, 0]]], [3, [[3, 304, 0]]],
                [4, [[0, 401, 0], [1, 402, 0]]]]
        for hid in ([[2, 0]], [[2, -1]], [[1, 0], [4, 1]], [[2, 0], [4, 0]], []):
            out.append({'kind': 'build', 'h': hier5, 'mod': [0] * 5, 'imp': [0] * 5, 'gen': [], 'mem': mem5,
                        'pkg': False, 'hid': hid})
        out.append({'kind': 'build', 'h': hier5, 'mod': [0, 1, 1, 0, 2], 'imp': [0, 1, 0, 0, 1], 'gen': [[5, 0]], 'mem': mem5,
                    'pkg': True, 'hid': [[2, 0], [3, -1]]})
        self.stats['privacy_corpus'] = len(out)
        # corpus: the name used as a base is bound again later in the same scope (Python keeps the first binding)
        # m0: K1(f0 f1)  m1: K2(f0 f2)  m2: `from m0 import K1 as B; class K3(B); from m1 import K2 as B; class K4(K2)`
        hier4 = [[1, []], [2, []], [3, [1]], [4, [2]]]
        mem4 = [[1, [[0, 101, 0], [1, 102, 0]]], [2, [[0, 201, 0], [2, 203, 0]]], [3, [[0, None, 0]]], [4, [[0, None, 0]]]]
        out.append({'kind': 'build', 'h': hier4, 'mod': [0, 1, 2, 2], 'imp': [0] * 4, 'gen': [], 'mem': mem4, 'pkg': True,
                    'hid': [], 'reb': [[3, 0, 2]]})
        # same module: `B = K1; class K3(B, K2[T]); B = K2` and a rebinding to a subclass / to an unrelated class
        out.append({'kind': 'build', 'h': [[1, []], [2, [1]], [3, [1]], [4, [3, 2]]], 'mod': [0] * 4, 'imp': [0] * 4,
                    'gen': [[4, 1]], 'mem': mem4, 'pkg': False, 'hid': [], 'reb': [[3, 0, 2], [4, 0, 1], [4, 1, 3]]})
        self.stats['rebinding_corpus'] = 2
        ne = 0
        for n in range(1, self.maxn() + 1):
            for h in hierarchies(n):
                out.append(decorate(rng, h))
                ne += 1
        self.stats['exhaustive_hierarchies_built'] = ne
        corpus_dups = [[[1, []], [2, [1, 1]]], [[1, []], [2, [1]], [3, [1, 2, 1]]], [[1, []], [2, []], [3, [2, 1, 2]]]]
        for h in corpus_dups:
            out.append(decorate(rng, h))
        for n in range(2, 4):
            for h in dup_hierarchies(n, 2):
                if any(len(set(bs)) != len(bs) for _, bs in h):
                    out.append(decorate(rng, h))
        nr = 600 if self.tier == 'quick' else 20000
        for _ in range(nr):
            out.append(decorate(rng, random_hierarchy(rng, rng.randint(6, 14), rng.random() < 0.25)))
        self.stats['random_built_hierarchies'] = nr
        nc = 300 if self.tier == 'quick' else 4000
        # the example of pydoctor's own test-suite first
        out.append({'kind': 'cyc', 'h': [[1, [4]], [2, []], [3, [1, 2]], [4, [3]]], 'mod': [0, 0, 0, 0], 'imp': [0] * 4,
                    'gen': [], 'mem': [], 'pkg': False})
        for _ in range(nc):
            out.append(random_cyclic(rng))
        self.stats['cyclic_graphs'] = nc + 1
        self.stats['built_projects'] = len(out)
        return out

    # -------------------------------------------------------------- comparisons
    def check_abs(self, cases: List[Any], out: List[Violation]) -> None:
        obs = lib.run_impl_worker('c05_mro.py', cases, jobs=16)
        wires = [model_hier_input(c['h']) for c in cases]
        mod = self.model('mro', wires)
        spec = self.model('c3', wires)
        irs = self.model('mro_ir', wires)
        nt = set()
        for c, o, m, s, ir in zip(cases, obs, mod, spec, irs):
            mm, ss = dec(m), dec(s)
            ir_view = [[e[0], [e[1][0], e[1][1]]] for e in dec(ir)]
            if ir_view != [[e[0], e[1][:2]] for e in o['impl']] and sum(1 for v in out if v.kind == 'correspondence') < 10:
                out.append(Violation('correspondence', 'the code translated from pydoctor/mro.py (Gen/MroCode.v, interpreted by '
                                     'Model.MroIR) and pydoctor.mro.mro disagree: the translator or the statement language '
                                     'misrepresents the source', case=c, expected=ir_view, observed=o['impl']))
            spec_view = [[e[0], [e[1][0], e[1][1]]] for e in ss]
            if spec_view != o['py']:
                raise RuntimeError('SPEC VALIDATION FAILED (defect of the verification, not of pydoctor): Spec/C3.v '
                                   'cpython_mro answers %s, CPython answers %s on %s' % (spec_view, o['py'], c['h']))
            model_view = [[e[0], [e[3][0], e[3][1]]] for e in mm]
            impl_view = [[e[0], e[1][:2]] for e in o['impl']]
            if model_view != impl_view and sum(1 for v in out if v.kind == 'correspondence') < 10:
                out.append(Violation('correspondence', 'Model.Mro.mro and pydoctor.mro.mro disagree on a hierarchy',
                                     case=c, expected=model_view, observed=impl_view))
            msg = oracle_abs(c, o)
            if msg and sum(1 for v in out if v.kind == 'oracle') < 10:
                out.append(Violation('oracle', msg, case=c, observed=o))
            for e in o['py']:
                self.count('abs_python_' + ('accepts' if e[1][0] == 0 else 'rejects'))
            if any(len(bs) >= 2 for _, bs in c['h']):
                nt.add(json.dumps(c['h']))
        self.evaluations += len(cases)
        self._nt |= nt

    def check_merge(self, cases: List[Any], out: List[Violation]) -> None:
        obs = lib.run_impl_worker('c05_mro.py', cases, jobs=8)
        wires = [enc([0, c['ls']]) for c in cases]
        mod = self.model('mro', wires)
        spec = self.model('c3', wires)
        irs = self.model('mro_ir', wires)
        for c, o, m, s, ir in zip(cases, obs, mod, spec, irs):
            mm, ss = dec(m), dec(s)
            if dec(ir) != o['impl'][:2] and sum(1 for v in out if v.kind == 'correspondence') < 10:
                out.append(Violation('correspondence', 'the code translated from pydoctor/mro.py (Gen/MroCode.v, interpreted by '
                                     'Model.MroIR) and pydoctor.mro._merge disagree: the translator or the statement language '
                                     'misrepresents the source', case=c, expected=dec(ir), observed=o['impl']))
            if ss != o['py']:
                raise RuntimeError('SPEC VALIDATION FAILED (defect of the verification, not of pydoctor): Spec/C3.v pmerge '
                                   'answers %s, functools._c3_merge answers %s on %s' % (ss, o['py'], c['ls']))
            if mm != o['impl'][:2] and sum(1 for v in out if v.kind == 'correspondence') < 10:
                out.append(Violation('correspondence', 'Model.Mro.merge and pydoctor.mro._merge disagree',
                                     case=c, expected=mm, observed=o['impl']))
            msg = oracle_merge(c, o)
            if msg and sum(1 for v in out if v.kind == 'oracle') < 10:
                out.append(Violation('oracle', msg, case=c, observed=o))
            self.count('merge_' + ('ok' if o['impl'][0] == 0 else 'error'))
        self.evaluations += len(cases)

    def model_build_view(self, case: Any, m1: Any, m2: Any) -> Dict[str, Any]:
        """What the model predicts pydoctor does, in the shape of the impl observation."""
        view: Dict[str, Any] = {}
        mem = {c: ms for c, ms in case.get('mem', [])}
        for e1, e2 in zip(m1, m2):
            c, kind, mro = e1[0], e1[1], e1[2]
            keys = set(k for k, _ in case['h'])
            o: Dict[str, Any] = {'warn': [] if kind == 0 else [kind]}
            if kind != 3:
                o['mro'] = mro
                o['mro_int'] = [x for x in mro if x in keys]
            if case['kind'] != 'cyc':
                o['find'] = [opt(x) for x in e2[1]]
                docs = []
                for (name, d, k), md in zip(mem.get(c, []), e2[2]):
                    docs.append([name, k, md[1], opt(md[2]), opt(md[3])])
                o['docs'] = docs
                o['chains'] = [[ch[0], [mstr(n % 100, n // 100) for n in ch[1]]] for ch in e2[3]]
                o['ovr'] = [opt(x) for x in e2[4]]
            view[str(c)] = o
        return view

    def check_build(self, cases: List[Any], out: List[Violation]) -> None:
        obs = lib.run_impl_worker('c05_builder.py', cases, jobs=16)
        m1s = self.model('mro', [model_hier_input(c['h']) for c in cases])
        m2s = self.model('mro', [model_members_input(c) for c in cases])
        agree = differ = 0
        for c, o, m1, m2 in zip(cases, obs, m1s, m2s):
            view = self.model_build_view(c, dec(m1), dec(m2))
            bad = None
            if o['impl']['crash']:
                bad = 'crash'
            else:
                for k, mv in view.items():
                    io = o['impl']['classes'].get(k)
                    if io is None:
                        bad = 'class %s missing' % k
                        break
                    for field, val in mv.items():
                        if io.get(field) != val:
                            bad = 'class K%s field %s: model %s, pydoctor %s' % (k, field, val, io.get(field))
                            break
                    if bad:
                        break
            if bad and sum(1 for v in out if v.kind == 'correspondence') < 10:
                out.append(Violation('correspondence', 'Model.Mro and the real builder disagree: ' + bad, case=c,
                                     expected=view, observed=o['impl']))
            msg = oracle_build(c, o)
            if msg and sum(1 for v in out if v.kind == 'oracle') < 10:
                out.append(Violation('oracle', msg, case=c, observed={'impl': o['impl'], 'py': o['py']}))
            # distributions
            self.count('built_%s' % c['kind'])
            if c.get('reb'):
                self.count('built_with_rebound_base_names')
            if c.get('hid'):
                self.count('built_with_hidden_members_or_classes')
                self.count('hidden_rules', len(c['hid']))
            self.count('modules_%d' % (max(c['mod']) + 1 if c['mod'] else 0))
            for k, po in o['py']['classes'].items():
                self.count('built_python_' + ('accepts' if po['mro'] is not None else 'rejects_or_undefined'))
                for (n1, d1, s1), (n2, d2) in zip(po.get('docs', []), po.get('getdoc', [])):
                    if (d1 or None) == (d2 or None):
                        agree += 1
                    else:
                        differ += 1
            if not o['impl']['crash']:
                for io in o['impl']['classes'].values():
                    if io:
                        for w in io['warn']:
                            self.count('warning_kind_%d' % w)
            if any(len(bs) >= 2 for _, bs in c['h']):
                self._nt.add(json.dumps(c['h']))
        self.stats['inspect_getdoc_agrees_with_namespace_walk'] = self.stats.get('inspect_getdoc_agrees_with_namespace_walk', 0) + agree
        self.stats['inspect_getdoc_skips_ahead'] = self.stats.get('inspect_getdoc_skips_ahead', 0) + differ
        self.evaluations += len(cases)

    def correspondence(self) -> List[Violation]:
        out: List[Violation] = []
        self._nt: set = set()
        a = self.abs_cases()
        self.check_abs(a, out)
        mcs = self.merge_cases()
        self.check_merge(mcs, out)
        b = self.build_cases()
        self.check_build(b, out)
        self.exhaustive = True
        self.stats['max_classes_exhaustive'] = self.maxn()
        self.stats['distinct_nontrivial'] = len(self._nt)
        for c in (a[150:152] + mcs[40:41] + b[170:172] + b[-1:]):
            self.sample(c)
        return out

    def search(self, broken: List[Violation]) -> List[Violation]:
        """Something no longer checks and no oracle failure is at hand: run the property itself on the thorough streams."""
        out: List[Violation] = []
        self._nt = set()
        seen_tier = self.tier
        self.tier = 'thorough'
        try:
            self.check_abs(self.abs_cases(), out)
            if not [v for v in out if v.kind == 'oracle']:
                self.check_merge(self.merge_cases(), out)
            if not [v for v in out if v.kind == 'oracle']:
                self.check_build(self.build_cases(), out)
        finally:
            self.tier = seen_tier
        return [v for v in out if v.kind == 'oracle']

    def classify_known(self, v: Violation, known: List[dict]) -> Optional[dict]:
        for k in known:
            m = k.get('match', {})
            if m.get('kind') and v.kind != m['kind']:
                continue
            if m.get('what_contains') and m['what_contains'] not in (v.what or ''):
                continue
            if m.get('case_kind') and not (isinstance(v.case, dict) and v.case.get('kind') == m['case_kind']):
                continue
            return k
        return None

    def replay(self, data: Any) -> int:
        case = data['input']
        if not isinstance(case, dict) or 'kind' not in case:
            print('no concrete input recorded:', data.get('what'))
            return 1
        if case['kind'] in ('abs', 'merge'):
            o = lib.run_impl_worker('c05_mro.py', [case])[0]
            msg = oracle_abs(case, o) if case['kind'] == 'abs' else oracle_merge(case, o)
            print('input    :', case.get('h', case.get('ls')))
            print('pydoctor :', o['impl'])
            print('CPython  :', o['py'])
        else:
            o = lib.run_impl_worker('c05_builder.py', {'cases': [case], 'want_src': True})[0]
            msg = oracle_build(case, o)
            for name, text in o['src'].items():
                print('# ---- %s.py' % name.replace('.', '/'))
                print(text)
            print('pydoctor :', json.dumps(o['impl']))
            print('CPython  :', json.dumps(o['py']))
        print('property :', msg or 'holds on this input')
        return 1 if msg else 0
