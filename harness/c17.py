"""C17 -- written inventories read back faithfully; malformed remote ones are survivable.

Model: coq/theories/Model/Inventory.v (extracted, `run`), implementation: pydoctor.sphinx / driver.make through
harness/impl/c17_inventory.py.  The harness process itself never imports pydoctor; it uses CPython's own
zlib / utf-8 / int() / str.splitlines / urllib.parse.quote as the oracles the model is parameterised by and
validates the model's executable versions of them (spec validation)."""
from __future__ import annotations

import bz2
import gzip
import itertools
import json
import re
import unicodedata
import urllib.parse
import zlib
from typing import Any, Dict, List, Optional, Tuple

import lib
from lib import PropertyCheck, Violation, enc, dec, txt

BIG = 1000000007
URL = 'http://h/b/objects.inv'
BASE = 'http://h/b'
FULL_HEADER = (b'# Sphinx inventory version 2\n# Project: proj\n# Version: 1.0\n'
               b'# The rest of this file is compressed with zlib.\n')
WORKER = 'c17_inventory.py'


# ------------------------------------------------------------------------------------------------ helpers
def py_int(s: str) -> Optional[int]:
    try:
        return int(s)
    except ValueError:
        return None


def int_wire(v: Optional[int]) -> Any:
    return [] if v is None else [1 if v < 0 else 0, abs(v) % BIG]


def strip_comment_lines(data: bytes) -> bytes:
    """independent restatement of the comment stripping of _getPayload"""
    while data[:1] == b'#' and b'\n' in data:
        data = data[data.index(b'\n') + 1:]
    return data


def oracle_table(data: Optional[bytes]) -> List[Any]:
    """zlib / utf-8 answers for every suffix of `data` that starts after a newline (and data itself), keyed by the
    suffix; computed with CPython's zlib and codec, not with pydoctor. Suffixes zlib rejects are left out."""
    if not data:
        return []
    out = []
    offs = [0] + [i + 1 for i, b in enumerate(data) if b == 10]
    for o in offs:
        suf = data[o:]
        try:
            raw = zlib.decompress(suf)
        except zlib.error:
            continue                       # absent entry = zlib.error
        try:
            t = raw.decode('utf-8')
        except UnicodeError:
            out.append([suf, 1, ''])
            continue
        out.append([suf, 2, t])
    return out


def fetch_case(fetches: List[Tuple[str, Optional[bytes]]], queries: List[str] = ()) -> Dict[str, Any]:
    return {'k': 'fetch', 'fetches': [[u, None if d is None else d.hex()] for u, d in fetches],
            'queries': list(queries)}


def inv_bytes(lines: List[str], header: bytes = FULL_HEADER, nl: str = '\n') -> bytes:
    return header + zlib.compress(''.join(l + nl for l in lines).encode('utf-8', 'surrogatepass'))


def fetch_to_wire(case: Dict[str, Any], which: int = 0) -> str:
    fs = []
    table: List[Any] = []
    for u, d in case['fetches']:
        data = None if d is None else bytes.fromhex(d)
        fs.append([u, data is not None, data or b''])
        for e in oracle_table(data):
            if e not in table:
                table.append(e)
    return enc([1, which, fs, case.get('queries', []), table])


REPORT_FMT = {
    1: lambda a, b: 'Failed to get remote base url for %s' % (a,),
    2: lambda a, b: 'Failed to get object inventory from %s' % (a,),
    3: lambda a, b: 'Failed to uncompress inventory from %s' % (a,),
    4: lambda a, b: 'Failed to decode inventory from %s' % (a,),
    5: lambda a, b: 'Failed to parse line "%s" for %s' % (a, b),
}
EXN = {0: 'ValueError', 1: 'IndexError', 2: 'OutOfFuel'}


def canon_model_fetch(m: Any) -> Dict[str, Any]:
    status, links, reps, answers = m
    return {
        'exc': None if status == 0 else EXN.get(status - 1, '?'),
        'links': [[txt(a), txt(b), txt(c)] for a, b, c in links] if status == 0 else None,
        'reports': [['sphinx', REPORT_FMT[k](txt(a), txt(b)), -1] for k, a, b in reps] if status == 0 else None,
        'answers': [[txt(n), txt(u) if f else None] for n, f, u in answers] if status == 0 else None,
    }


def canon_impl_fetch(o: Dict[str, Any]) -> Dict[str, Any]:
    if o['exc'] is not None:
        return {'exc': o['exc'], 'links': None, 'reports': None, 'answers': None}
    return {'exc': None, 'links': o['links'], 'reports': o['reports'], 'answers': o['answers']}


# ------------------------------------------------------------------------------------------------ the property
CANON = re.compile(r'([^\s]+) (py:[^\s]+) (-?[0-9]+) ([^\s]+) ([^\s](?:.*[^\s])?)', re.S)


def clearly_bad(line: str) -> bool:
    """A v2 line has five space separated columns one of which (not the first two) is an integer."""
    pieces = line.split(' ')
    return len(pieces) < 5 or not any(py_int(p) is not None for p in pieces[2:])


def oracle_fetch(case: Dict[str, Any], obs: Dict[str, Any]) -> Optional[str]:
    """The robustness half of C17 stated directly on one observation of the real SphinxInventory:
    nothing escapes update(); every stage failure is reported exactly once and leaves no links; clearly
    malformed lines are reported; lines in the plain canonical form `name py:type prio location display`
    resolve through getLink (with $ expansion); nothing appears in the map that no line mentions."""
    if obs.get('exc'):
        return 'exception %s escaped SphinxInventory.update(): loading this remote inventory aborts the run' % obs['exc']
    links = {}
    for n, b, l in obs['links']:
        links[n] = (b, l)
    answers = dict((n, u) for n, u in obs['answers'])
    for where, msg, thresh in obs['reports']:
        if thresh != -1:
            return 'a problem was reported with thresh=%r, not as an error (-1): %r' % (thresh, msg)
    expected: Dict[str, Optional[Tuple[str, str]]] = {}
    stage_reports = 0
    min_line_reports = 0
    max_line_reports = 0
    mentioned: List[Tuple[str, str]] = []      # (base, line)
    for u, d in case['fetches']:
        if '/' not in u:
            stage_reports += 1
            continue
        base = u[:u.rindex('/')]
        data = None if d is None else bytes.fromhex(d)
        if not data:
            stage_reports += 1
            continue
        payload = strip_comment_lines(data)
        try:
            raw = zlib.decompress(payload)
        except zlib.error:
            stage_reports += 1
            continue
        try:
            text = raw.decode('utf-8')
        except UnicodeError:
            stage_reports += 1
            continue
        for line in text.splitlines():
            mentioned.append((base, line))
            m = CANON.fullmatch(line)
            if m:
                expected[m.group(1)] = (base, m.group(4))
                continue
            max_line_reports += 1
            if clearly_bad(line):
                min_line_reports += 1
            else:
                # a line in another shape that may legitimately (re)define a name it starts with
                pieces = line.split(' ')
                for k in range(1, len(pieces)):
                    expected[' '.join(pieces[:k])] = None
    nrep = len(obs['reports'])
    if not (stage_reports + min_line_reports <= nrep <= stage_reports + max_line_reports):
        return ('%d problem(s) reported; %d unusable stage(s) and between %d and %d unusable lines were expected to be '
                'reported' % (nrep, stage_reports, min_line_reports, max_line_reports))
    for name, exp in expected.items():
        if exp is None:
            continue
        if links.get(name) != exp:
            return 'usable line for %r does not resolve: _links has %r, the line says %r' % (name, links.get(name), exp)
        base, loc = exp
        want = base + '/' + (loc[:-1] + name if loc.endswith('$') else loc)
        if answers.get(name) != want:
            return 'getLink(%r) = %r, the inventory line says %r' % (name, answers.get(name), want)
    for name, (b, l) in links.items():
        if not any(bb == b and (ln.startswith(name + ' ')) for bb, ln in mentioned):
            return '_links contains %r -> %r which no line of the inventory starts with' % (name, (b, l))
    return None


def oracle_linker(case: Dict[str, Any], obs: Dict[str, Any]) -> Optional[str]:
    """C17 on a documented project with remote inventories loaded: loading survives (oracle_fetch on the bytes that were
    loaded), and every usable canonical line whose name is not an object of the project itself resolves through the
    docstring linker of every object asked -- look_for_intersphinx and the cross reference resolution -- to the
    base/location of that line."""
    if obs.get('build_exc'):
        return 'building the project raised ' + obs['build_exc']
    fc = {'k': 'fetch', 'fetches': [[u, d] for (u, _), d in zip(case['fetches'], obs['data'])], 'queries': case.get('queries', [])}
    msg = oracle_fetch(fc, obs)
    if msg:
        return msg
    local = set(obs['local'])
    want = dict((n, u) for n, u in obs['answers'])
    # names whose line is in the plain canonical form: what the inventory says, independently of getLink
    certain: Dict[str, Optional[str]] = {}
    for (u, _), d in zip(case['fetches'], obs['data']):
        if d is None or '/' not in u:
            continue
        base = u[:u.rindex('/')]
        try:
            text = zlib.decompress(strip_comment_lines(bytes.fromhex(d))).decode('utf-8')
        except Exception:  # noqa
            continue
        for line in text.splitlines():
            m = CANON.fullmatch(line)
            if m:
                loc = m.group(4)
                certain[m.group(1)] = base + '/' + (loc[:-1] + m.group(1) if loc.endswith('$') else loc)
            else:
                pieces = line.split(' ')
                for k in range(1, len(pieces)):
                    certain[' '.join(pieces[:k])] = None
    for f, n, look, kind, val, expanded in obs['lookups']:
        exp = certain.get(n)
        if exp is None or n in local:
            continue
        if look != exp:
            return ('from %r: look_for_intersphinx(%r) = %r, the loaded inventory says %r (root names of the project: %r)'
                    % (f, n, look, exp, obs['root_names']))
        if expanded == n and not (kind == 'url' and val == exp):
            return ('from %r: the cross reference %r resolves to %s %r, the loaded inventory says %r'
                    % (f, n, kind, val, exp))
    return None


def space_int_piece(name: str) -> bool:
    """the known class: a qualified name with a space separated piece, from index 2 on, that int() accepts"""
    return any(py_int(p) is not None for p in name.split(' ')[2:])


def oracle_project(case: Dict[str, Any], obs: Dict[str, Any]) -> Optional[Tuple[str, List[str]]]:
    """The round trip half of C17 on one real project: objects.inv read back by pydoctor and by Sphinx yields exactly
    one entry per visible object (reachable through contents), name -> page#anchor.  Returns (message, bad names)."""
    if obs.get('build_exc'):
        return ('building/writing the project raised ' + obs['build_exc'], [])
    html_mode = obs.get('mode', 'intersphinx') != 'intersphinx'
    what = 'documented by this run at' if html_mode else 'documented at'
    vis = {}
    # with HTML output: the objects whose page (and anchor) this very run wrote; without: the visible objects
    # reachable from the root objects
    for n, u in (obs['documented'] if html_mode else obs['visible']):
        if n in vis and vis[n] != u:
            return ('two visible objects share the qualified name %r but not the location (%r, %r)' % (n, vis[n], u), [n])
        vis[n] = u
    bad: List[str] = []
    msgs: List[str] = []
    pyd = obs['pyd']
    if pyd['exc']:
        return ("pydoctor's reader raised %s on the inventory pydoctor wrote" % pyd['exc'], [])
    got = {n: (b, l) for n, b, l in pyd['links']}
    want = {n: (BASE, u) for n, u in vis.items()}
    ans = dict((n, u) for n, u in pyd['answers'])
    for n in sorted(set(got) | set(want)):
        if got.get(n) != want.get(n):
            bad.append(n)
            msgs.append("pydoctor's reader: %r -> %r, %s %r" % (n, got.get(n), what, want.get(n)))
        elif ans.get(n) != BASE + '/' + vis[n]:
            bad.append(n)
            msgs.append('getLink(%r) = %r, documented at %r' % (n, ans.get(n), BASE + '/' + vis[n]))
    if pyd['reports']:
        msgs.append("pydoctor's reader reported %r on the inventory pydoctor wrote" % (pyd['reports'][:2],))
        for _, m, _ in pyd['reports']:
            mm = re.match(r'Failed to parse line "(.*)" for ', m, flags=re.S)
            bad.append(mm.group(1) if mm else '?')
    sx = obs['sphinx']
    if sx['exc']:
        return ('sphinx.util.inventory.InventoryFile.load raised %s on the inventory pydoctor wrote' % sx['exc'], [])
    sgot: Dict[str, List[str]] = {}
    for typ, name, uri, disp in sx['entries']:
        sgot.setdefault(name, []).append(uri)
        if not typ.startswith('py:'):
            bad.append(name)
            msgs.append('Sphinx reads %r with type %r' % (name, typ))
    for n in sorted(set(sgot) | set(vis)):
        if sgot.get(n) != ([vis[n]] if n in vis else None):
            bad.append(n)
            msgs.append('Sphinx reader: %r -> %r, %s %r' % (n, sgot.get(n), what, vis.get(n)))
    for n, loc, file_ok, anchor_ok in obs.get('targets', []):
        if not file_ok:
            bad.append(n)
            msgs.insert(0, 'entry %r -> %r: that page was not written by this run (mode %s)' % (n, loc, obs.get('mode')))
        elif not anchor_ok:
            bad.append(n)
            msgs.insert(0, 'entry %r -> %r: the page has no such anchor' % (n, loc))
    if obs.get('writer_errors'):
        msgs.append('the writer reported %d error(s)' % obs['writer_errors'])
    if msgs:
        return ('; '.join(msgs[:4]), sorted(set(bad)))
    return None


# ------------------------------------------------------------------------------------------------ generators
TOKENS = ['a', '', '1', '-1', 'py:x', 'std:y', 'b$', '-']

VALID_LINES = [
    'mod py:module -1 mod.html -',
    'mod.Cls py:class 1 mod.Cls.html -',
    'mod.Cls.meth py:method 1 mod.Cls.html#meth -',
    'mod.Cls.attr py:attribute 1 mod.Cls.html#$ -',
    'mod.func py:function 1 mod.html#$ -',
    'mod.dup 0 py:function -1 mod.html#dup%200 -',
    'genindex std:label -1 genindex.html Index',
    'some term std:term -1 glossary.html#term-some-term -',
    'mod.Cls.prop py:property 2 api/mod.html#mod.Cls.prop The prop of Cls',
    'c.func c:function 1 c.html#c.func -',
    'twisted.internet.defer.Deferred py:class 1 api/$.html Deferred',
]


def mutations(line: str) -> List[Tuple[str, str]]:
    """all single-column mutations of one valid line"""
    cols = line.split(' ')
    out: List[Tuple[str, str]] = []
    n = len(cols)
    for i in range(n):
        out.append(('delete', ' '.join(cols[:i] + cols[i + 1:])))
        out.append(('duplicate', ' '.join(cols[:i] + [cols[i]] + cols[i:])))
        out.append(('empty', ' '.join(cols[:i] + [''] + cols[i + 1:])))
        out.append(('extra-space', ' '.join(cols[:i] + [''] + cols[i:])))
        out.append(('tab', ' '.join(cols[:i]) + '\t' + ' '.join(cols[i:])))
        out.append(('truncate', ' '.join(cols[:i])))
        out.append(('truncate-sp', ' '.join(cols[:i]) + ' '))
        for j in range(i + 1, n):
            c = list(cols)
            c[i], c[j] = c[j], c[i]
            out.append(('swap', ' '.join(c)))
        for rep, kind in (('1', 'numeric'), ('-1', 'numeric'), ('+1', 'plus'), ('1_0', 'underscore'),
                          ('\u0661', 'unicode-digit'), ('\uff11\uff12', 'fullwidth-digit'), ('1\u00a0', 'nbsp-digit'),
                          ('std:doc', 'non-py'), ('py:', 'py-empty'), ('$', 'dollar'), ('x$', 'dollar'),
                          ('1.5', 'float'), ('0x10', 'hex'), ('\u00b2', 'superscript'), ('1' * 30, 'long-int'),
                          ('a b', 'inner-space'), ('a 1 2', 'inner-space-int'), ('a\x0cb', 'form-feed'),
                          ('a\u2028b', 'line-sep'), ('\ud800', 'surrogate')):
            out.append((kind, ' '.join(cols[:i] + [rep] + cols[i + 1:])))
    out.append(('cr', line + '\r'))
    out.append(('leading-space', ' ' + line))
    out.append(('trailing-space', line + ' '))
    out.append(('priority-last', ' '.join(cols[:3])))
    return out


IDENT = ['a', 'b', 'c', 'f', 'g', 'x', 'y', 'K', 'M', '_p', '__d__', '_q', 'r\u00e9', 'z1']


class Check(PropertyCheck):
    id = 'C17'
    props_module = 'Props.C17'
    models = {'inventory': 'XInventory.v', 'inventory_ir': 'XInventoryIR.v'}
    needs_gen = True
    gen_modules = ['gen_c17_code']
    rule = ('lines: every sequence of <= N tokens from {a, "", 1, -1, py:x, std:y, b$, -} joined by single spaces '
            '(N = 5 quick / 6 thorough), every single-column mutation of 11 valid v2 lines; payloads: every byte string of '
            'length <= 2 as decompressed payload and (after "#\\n") as raw data (thorough: length <= 3 raw, summarised), every '
            'prefix and every single-byte corruption of a valid zlib stream, wrong compressions, non-UTF-8, URL and header '
            'variants; projects: generated Systems (nested classes, duplicates, hidden/private, packages, names with spaces) '
            'and real packages (pydoctor/test/testpackages; thorough: pydoctor itself) written by driver.make and read back by '
            'pydoctor and Sphinx. non-trivial = a line that reaches the column '
            'arithmetic (>= 3 pieces) / a fetch that reaches _parseInventory with >= 1 line / a project with >= 1 hidden object, '
            'a name with a space, or an HTML output mode; projects run in every output mode of driver.make (--make-intersphinx, '
            '--make-html, both, --html-subject, --html-summary-pages) and with HTML each entry is compared with the pages and '
            'anchors that run wrote; linker: projects whose root names do / do not share the top-level package of the entries '
            'of the loaded inventories (one of them written by pydoctor itself), every name looked up through '
            'docstring_linker.look_for_intersphinx and the cross reference resolution of several objects; counted over distinct cases')
    trusted_base = [
        'Coq 8.16.1 kernel (coqc; vm_compute for witnesses and for closed facts about py_int; no native_compute)',
        'no axioms (Print Assumptions: Closed under the global context for every theorem)',
        'extraction: ExtrOcamlBasic only; OCaml 4.13.1; coq/ocaml/driver.ml',
        'translator harness/gen/gen_c17_code.py (fail-closed; Python ast of _parseInventoryLine, SphinxInventory.getLink and SphinxInventory._parseInventory -> '
        'Gen/InventoryCode.v in the language of Model/InventoryIR.v; its normalisations -- for/range and while as SLoop, '
        'augmented assignment, dropped exception messages -- and the primitives of the language (str.split/join, '
        'indexing/slicing, int(), len, endswith, dict.get, f-strings of str; for _parseInventory: str.splitlines, structural '
        'for-each over the lines, the dict store, self.error as an appended report, the call of the translated '
        '_parseInventoryLine by name) are trusted as stated in Model/InventoryIR.v); '
        'the interpretation of the generated code is also run against pydoctor as a third leg of the correspondence',
        'correspondence harness harness/c17.py + harness/impl/c17_inventory.py (real pydoctor.sphinx / driver.make / Sphinx reader)',
        'oracles, quantified over in the theorems: zlib.decompress / zlib.compress (contract: decompress(compress b) = b, '
        'compressed data never starts with "#"), utf-8 codec (contract: decode(concat(map encode ls)) = concat ls), '
        'supplied to the extracted model per case by the harness from CPython',
        'py_int (model of CPython 3.12 int(str), Unicode 15.0 Nd table), splitlines, quote: executable Gallina, '
        'validated against CPython on every run (all code points, generated strings)',
    ]
    assumptions = [
        'an --html-subject is a module or class (an object with a page of its own); a function or attribute given as '
        '--html-subject gets an inventory line but no page -- not generated, not modelled',
        'parent/contents coherence of the object tree (C02): isVisible of the parent is the visibility passed down',
        'names contain no lone surrogates (str.encode would raise in the writer, and in quote() long before)',
    ]
    manifest = {
        'text': ('Theorems over Model/Inventory.v, for all inputs: _parseInventoryLine returns or raises ValueError, never '
                 'IndexError, for every line and every behaviour of int() (C17_parse_total; the pinned code refuted by '
                 '"a py:class 1"); its result is exactly the declarative column grammar (C17_parse_line_meaning); written '
                 'lines parse back to their columns unless the name has a space separated piece from index 2 on that int() '
                 'accepts (C17_line_roundtrip, refuted for "a 1 2"); update() returns for every byte string and every '
                 'zlib/utf-8 behaviour, each bad line gives exactly one report and good lines around it are all present '
                 '(C17_update_total, C17_fetch_all_total, C17_bad_parts_skipped); stage failures give one report and no links '
                 '(C17_payload_stages); $ expansion (C17_getlink_dollar); whole-inventory round trip: one entry per visible '
                 'object reachable through contents, mapped to its url (C17_inventory_roundtrip, '
                 'C17_entries_are_the_visible_objects, C17_roundtrip_getlink; guards: no int()-like piece from index 2 on, no '
                 'line boundary character in a qualified name, distinct qualified names). The model is tied to '
                 'pydoctor/sphinx.py twice: (a) the bodies of _parseInventoryLine, SphinxInventory.getLink and '
                 'SphinxInventory._parseInventory (C17_code_parse_inventory_is_model: same dict and same reports) are translated from '
                 'the current source on every run into a deep-embedded statement language (Gen/InventoryCode.v) and '
                 'C17_code_parse_line_is_model / C17_code_get_link_is_model prove, for all inputs, that interpreting that '
                 'code is the model (C17_code_parse_total states the robustness core on the translated code); (b) '
                 'by an exhaustive + generated correspondence check and the round trip is observed on '
                 'generated projects through pydoctor\'s reader and Sphinx\'s.'),
        'note': ('Trusted: Coq kernel, extraction + OCaml driver, Python harness. Oracles (zlib, utf-8 codec) are quantified '
                 'over with stated contracts; py_int/splitlines/quote are executable models validated against CPython. '
                 'Residual: --html-subject subjects, lone surrogates, the object tree itself (C02).'),
        'technique': 'Coq proof (list/fuel induction) + exhaustive and generated model/implementation correspondence + Sphinx as second reader',
    }

    # ------------------------------------------------------------------ spec validation (CPython, not pydoctor)
    def spec_validation(self) -> None:
        ins = [enc([3, lo, min(lo + 0x8000, 0x110000)]) for lo in range(0, 0x110000, 0x8000)]
        outs = [dec(x) for x in self.model('inventory', ins)]
        digits: Dict[int, int] = {}
        spaces: List[int] = []
        breaks: List[int] = []
        for d, s, b in outs:
            for c, v in d:
                digits[c] = v
            spaces += s
            breaks += b
        want_digits = {}
        want_spaces = []
        want_breaks = []
        for c in range(0x110000):
            ch = chr(c)
            v = unicodedata.decimal(ch, None)
            if v is not None:
                want_digits[c] = v
            if 0xd800 <= c < 0xe000:
                continue
            if py_int(ch + '7') == 7 and c != 0x2b and v is None:
                want_spaces.append(c)
            if len(('a' + ch + 'b').splitlines()) == 2:
                want_breaks.append(c)
        if digits != want_digits:
            raise RuntimeError('spec validation: digit_val differs from unicodedata.decimal (%s)' % unicodedata.unidata_version)
        if spaces != want_spaces:
            raise RuntimeError('spec validation: py_space differs from what int() strips: %r vs %r' % (spaces, want_spaces))
        if breaks != want_breaks:
            raise RuntimeError('spec validation: is_linebreak differs from str.splitlines: %r vs %r' % (breaks, want_breaks))
        # int() on generated candidates
        alpha = ['1', '0', '7', '-', '+', '_', ' ', '\t', '\u0663', '\uff15', '\u00a0', '\x1c', 'a', '.', '\u2028', '\x00',
                 '\u00b2', 'x', '\U0001d7d8']
        cands = set()
        for k in range(0, 5 if self.tier == 'quick' else 6):
            for t in itertools.product(alpha[:11] if k >= 4 else alpha, repeat=k):
                cands.add(''.join(t))
        cands.update(['1' * 4300, '1' * 4301, '0' * 4301, '-' + '9' * 4300, '1_' * 4299 + '11', '1_' * 4300 + '1',
                      ' ' * 10 + '12' + '\u3000' * 3, '9' * 40, '-' + '9' * 40])
        for _ in range(2000 if self.tier == 'quick' else 50000):
            n = self.rng.randint(1, 12)
            cands.add(''.join(self.rng.choice(alpha) for _ in range(n)))
        cl = sorted(cands)
        outs = [dec(x) for x in self.model('inventory', [enc([4, s]) for s in cl])]
        for s, o in zip(cl, outs):
            if o != int_wire(py_int(s)):
                raise RuntimeError('spec validation: py_int(%r) = %r, CPython int() gives %r' % (s[:60], o, int_wire(py_int(s))))
        self.stats['specval_int_candidates'] = len(cl)
        self.stats['specval_int_accepted'] = sum(1 for s in cl if py_int(s) is not None)
        # splitlines / quote
        a2 = ['a', 'b', '\n', '\r', '\x0b', '\x0c', '\x1c', '\x1d', '\x1e', '\x85', '\u2028', '\u2029', ' ', '\x1f', '\t']
        texts = [''.join(t) for k in range(0, 4) for t in itertools.product(a2, repeat=k)]
        for _ in range(1000 if self.tier == 'quick' else 20000):
            texts.append(''.join(self.rng.choice(a2) for _ in range(self.rng.randint(4, 14))))
        outs = [dec(x) for x in self.model('inventory', [enc([5, s]) for s in texts])]
        for s, o in zip(texts, outs):
            if [txt(l) for l in o] != s.splitlines():
                raise RuntimeError('spec validation: splitlines(%r) = %r, CPython gives %r' % (s, o, s.splitlines()))
        qs = [chr(c) for c in list(range(0, 0x300)) + [0x7ff, 0x800, 0xffff, 0x10000, 0x10ffff, 0x20ac, 0xd7ff, 0xe000]]
        qs += ['a b/c.d-e_f~g', 'mod.Cls 0', 'r\u00e9sum\u00e9.\u4e2d\u6587']
        outs = [dec(x) for x in self.model('inventory', [enc([6, s]) for s in qs])]
        for s, o in zip(qs, outs):
            if txt(o) != urllib.parse.quote(s):
                raise RuntimeError('spec validation: quote(%r) = %r, urllib gives %r' % (s, txt(o), urllib.parse.quote(s)))
        self.stats['specval_splitlines_texts'] = len(texts)
        self.stats['specval_quote_texts'] = len(qs)

    # ------------------------------------------------------------------ cases
    def line_cases(self) -> List[Dict[str, Any]]:
        maxk = 5 if self.tier == 'quick' else 6
        seen = set()
        out: List[str] = []

        def add(l: str, kind: str) -> None:
            if l not in seen:
                seen.add(l)
                out.append(l)
                self.count('line_' + kind)
        for l in ['a py:class 1', 'a py:class 1 ', 'a py:class 1 x', 'a py:class 1 x ', 'a py:class 1 x -', '', ' ', '  ',
                  'a 1 2 py:module -1 a%201%202.html -', 'a 1 py:module -1 a%201.html -', 'foo 0 py:function -1 u -',
                  'a b 1', 'a b 1 c', '1 2 3 4 5', 'a py:c \u0661 l d', 'a py:c +1 l d', 'a py:c 1_0 l d', 'a py:c \t1 l d',
                  'a py:c ' + '1' * 4301 + ' 1 l d', 'a  py:c 1 l d', 'a py:c 1  d', 'a py:c 1 l  ', 'a py:c 1 l  d']:
            add(l, 'corpus')
        for k in range(0, maxk + 1):
            for t in itertools.product(TOKENS, repeat=k):
                add(' '.join(t), 'exhaustive')
        self.stats['line_exhaustive_max_tokens'] = maxk
        for v in VALID_LINES:
            add(v, 'valid')
            for kind, m in mutations(v):
                add(m, 'mut_' + kind)
        nrand = 3000 if self.tier == 'quick' else 300000
        pool = TOKENS + ['py:class', 'mod.f', '0', '+2', '\u0662', '1_1', 'a\tb', '\t3', 'x y', '#', 'py:', '$', '-$', '\x0c']
        for _ in range(nrand):
            n = self.rng.randint(3, 9)
            add(' '.join(self.rng.choice(pool) for _ in range(n)), 'random')
        return [{'k': 'line', 'line': l} for l in out]

    def fetch_cases(self, lines: List[str]) -> List[Dict[str, Any]]:
        out: List[Dict[str, Any]] = []

        def add(c: Dict[str, Any], kind: str) -> None:
            c['kind'] = kind
            out.append(c)
            self.count('fetch_' + kind)
        valid = inv_bytes(VALID_LINES)
        q = ['mod.Cls.attr', 'mod.func', 'nothing', 'mod.dup 0', 'twisted.internet.defer.Deferred', 'genindex', '']
        add(fetch_case([(URL, valid)], q), 'valid')
        # the 'py:' filter of _parseInventory: a type that merely starts with 'py' is not a Python reference
        near = ['m.a py 1 m.html#a -', 'm.b pyx:function 1 m.html#b -', 'm.c python:class 1 m.html#c -',
                'm.d PY:class 1 m.html#d -', 'm.e py:x 1 m.html#e -', 'm.g p 1 m.html#g -', 'm.h :py:x 1 m.html#h -']
        add(fetch_case([(URL, inv_bytes(near))], ['m.a', 'm.b', 'm.c', 'm.d', 'm.e', 'm.g', 'm.h']), 'py_prefix')
        # URL / data stage
        for u in ['objects.inv', '', '/', '/objects.inv', 'http://h/b/', 'http://h', 'h/o', 'a/b/c/', '//', 'x/$']:
            add(fetch_case([(u, valid)], q), 'url')
        for d in [None, b'']:
            add(fetch_case([(URL, d)], q), 'nodata')
        # header variants
        comp = zlib.compress(''.join(l + '\n' for l in VALID_LINES[:4]).encode())
        for h in [b'', b'#\n', b'#', b'# x', b'\n', b'#\n\n', b'x\n', b'# a\n# b\n# c\n# d\n# e\n', b'#\r\n', b' #\n',
                  FULL_HEADER[:-1], FULL_HEADER + b'#', FULL_HEADER + b'#\n', FULL_HEADER + b'\n']:
            add(fetch_case([(URL, h + comp)], q), 'header')
        # wrong compression / encodings
        plain = ''.join(l + '\n' for l in VALID_LINES).encode()
        co = zlib.compressobj(9, zlib.DEFLATED, -15)
        rawdeflate = co.compress(plain) + co.flush()
        for body in [plain, gzip.compress(plain), bz2.compress(plain), rawdeflate, zlib.compress(zlib.compress(plain)),
                     zlib.compress(plain) + b'junk', zlib.compress(b''), zlib.compress(plain.decode().encode('utf-16')),
                     zlib.compress('caf\u00e9 py:class 1 x -\n'.encode('latin-1')), zlib.compress(b'\xff\xfe'),
                     zlib.compress(b'a py:class 1 \xed\xa0\x80 -\n'), zlib.compress(b'\xef\xbb\xbfa py:class 1 x -\n'),
                     zlib.compress(b'a py:class 1 x -\r\nb py:class 1 y -\r\n'), zlib.compress(b'a py:class 1 x -'),
                     zlib.compress(b'\n\n\n'), zlib.compress(b'a py:class 1 x -\x0cb py:class 1 y -\x85')]:
            add(fetch_case([(URL, FULL_HEADER + body)], ['a', 'b', 'caf\u00e9']), 'compression')
        # truncated / corrupted zlib streams
        small = zlib.compress(b'a py:class 1 x -\nb py:function 1 y$ -\n')
        for i in range(len(small)):
            add(fetch_case([(URL, b'#\n' + small[:i])], ['a', 'b']), 'truncated')
        for i in range(len(small)):
            for x in ((0x01, 0x80, 0xff) if self.tier == 'quick' else (0x01, 0x02, 0x04, 0x08, 0x10, 0x20, 0x40, 0x80, 0xff)):
                b = bytearray(small)
                b[i] ^= x
                add(fetch_case([(URL, b'#\n' + bytes(b))], ['a', 'b']), 'corrupt')
        # payloads made of the exhaustive / mutated lines, good lines before and after
        chunk = 40
        lines = [l for l in lines if not any(0xd800 <= ord(ch) < 0xe000 for ch in l)]   # those make the payload undecodable
        for i in range(0, len(lines), chunk):
            ls = lines[i:i + chunk]
            body = ['first py:class 1 first.html -'] + ls + ['last py:class 1 last.html#$ -']
            # lines are joined by "\n" only when they contain no line boundary themselves (else they are several lines: fine)
            add(fetch_case([(URL, inv_bytes(body))], ['first', 'last', 'a']), 'lines')
        # several inventories into one map (later ones overwrite)
        add(fetch_case([('http://one/objects.inv', inv_bytes(VALID_LINES[:5])), ('bad', valid),
                        ('http://two/x/objects.inv', inv_bytes(['mod py:module 1 other.html -', 'new py:class 1 n.html -'])),
                        ('http://three/objects.inv', FULL_HEADER + b'garbage'),
                        ('http://four/objects.inv', inv_bytes(['mod.Cls py:class 1  -']))], q + ['new', 'mod']), 'multi')
        # exhaustive small domains: every byte string of length <= 2 as decompressed payload / as raw data after "#\n"
        for n in range(0, 3):
            for t in itertools.product(range(256), repeat=n):
                bs = bytes(t)
                add(fetch_case([(URL, b'#\n' + zlib.compress(bs))], ['a']), 'payload_bytes_le2')
                add(fetch_case([(URL, b'#\n' + bs)], []), 'raw_bytes_le2')
                if n < 2:
                    add(fetch_case([(URL, bs)], []), 'raw_bytes_nohdr_le1')
                    add(fetch_case([(URL, FULL_HEADER + bs)], []), 'raw_bytes_fullhdr_le1')
        # random payloads: mostly valid inventories with a few mutated lines
        nrand = 150 if self.tier == 'quick' else 20000
        for _ in range(nrand):
            body = []
            for _ in range(self.rng.randint(1, 12)):
                v = self.rng.choice(VALID_LINES)
                if self.rng.random() < 0.4:
                    v = self.rng.choice(mutations(v))[1]
                body.append(v)
            nl = self.rng.choice(['\n', '\n', '\r\n', '\r'])
            data = inv_bytes(body, nl=nl)
            r = self.rng.random()
            if r < 0.1:
                data = data[:self.rng.randint(0, len(data))]
            elif r < 0.2:
                b = bytearray(data)
                b[self.rng.randrange(len(b))] ^= 1 << self.rng.randrange(8)
                data = bytes(b)
            add(fetch_case([(URL, data)], ['mod.func', 'mod.Cls.attr']), 'random')
        return out

    # -- generated projects
    def gen_body(self, depth: int, in_class: bool) -> Tuple[str, List[str]]:
        """source of a module / class body; returns (text, local names)"""
        r = self.rng
        lines: List[str] = []
        names: List[str] = []
        for _ in range(r.randint(1, 5)):
            n = r.choice(IDENT)
            k = r.random()
            if k < 0.3:
                deco = ''
                if in_class:
                    deco = r.choice(['', '', '@classmethod\n', '@staticmethod\n', '@property\n'])
                lines.append('%sdef %s(%s):\n    "doc"\n' % (deco, n, 'self' if in_class else ''))
            elif k < 0.55:
                lines.append('%s = 1\n' % n if r.random() < 0.7 else '%s: int = 2\n"""doc"""\n' % n)
            elif k < 0.85 and depth < 3:
                body, _ = self.gen_body(depth + 1, True)
                lines.append('class %s:\n    "doc"\n%s' % (n, ''.join('    ' + l + '\n' for l in body.splitlines())))
            else:
                lines.append('def %s(): pass\n' % n)
            names.append(n)
        if r.random() < 0.25 and names:
            d = r.choice(names)
            lines.append('def %s(): "again"\n' % d)          # duplicate definition
        return ''.join(lines) or 'pass\n', names

    def project_cases(self) -> List[Dict[str, Any]]:
        r = self.rng
        out: List[Dict[str, Any]] = []

        def add(c: Dict[str, Any], kind: str) -> None:
            c['k'] = 'project'
            c['kind'] = kind
            out.append(c)
            self.count('project_' + kind)
        # every output mode of driver.make on two fixed projects (first, so that they run in every tier)
        acme = {'acme/__init__.py': '"doc"\n',
                'acme/core.py': 'LIMIT = 3\n"c"\ndef run(x):\n  "r"\nclass Engine:\n  "e"\n  def start(self):\n    "s"\n'
                                '  class _In:\n    v = 1\n',
                'acme/util.py': 'def helper():\n  "h"\n', 'acme/_impl.py': 'class Hid:\n  def m(self): pass\n'}
        two = [['one', 'def f(): pass\nclass C:\n  a = 1\n  def m(self): pass\n', None, False],
               ['two', '"doc"\n', None, True], ['sub', 'class D:\n  class E:\n    x = 1\n', 'two', False]]
        for mode, extra in [('intersphinx', {}), ('html', {}), ('html+intersphinx', {}), ('summary', {}),
                            ('subject', {'subjects': ['acme.util']}),
                            ('subject', {'subjects': ['acme.core.Engine', 'acme.util']})]:
            add(dict({'files': acme, 'privacy': [['HIDDEN', 'acme._impl.Hid']], 'mode': mode}, **extra), 'mode_' + mode)
        # --html-subject naming an object BELOW a hidden ancestor (the object itself is not matched by the privacy rule):
        # it is not visible, gets no page, and must not be listed
        add({'files': acme, 'privacy': [['HIDDEN', 'acme.core']], 'mode': 'subject', 'subjects': ['acme.util', 'acme.core.Engine']},
            'mode_subject_hidden_ancestor')
        add({'files': acme, 'privacy': [['HIDDEN', 'acme.core']], 'mode': 'subject', 'subjects': ['acme.core']}, 'mode_subject_hidden_ancestor')
        add({'mods': two, 'privacy': [['HIDDEN', 'two.sub']], 'mode': 'subject', 'subjects': ['two.sub.D', 'one']},
            'mode_subject_hidden_ancestor')
        add({'mods': two, 'privacy': [['HIDDEN', 'two.sub.D'], ['PUBLIC', 'two.sub.D.E']], 'mode': 'subject', 'subjects': ['two.sub.D.E']},
            'mode_subject_hidden_ancestor')
        for mode, extra in [('intersphinx', {}), ('html', {}), ('summary', {}), ('subject', {'subjects': ['two.sub', 'one']}),
                            ('subject', {'subjects': ['two.sub.D.E']})]:
            add(dict({'mods': two, 'privacy': [['HIDDEN', 'one.C.m']], 'mode': mode}, **extra), 'mode_' + mode)
        # corpus
        add({'mods': [['m', 'def f(): pass\ndef f(): pass\nclass _P:\n  class N:\n    def g(self): pass\n    x = 1\n', None, False]],
             'privacy': [['HIDDEN', 'm._P.N']]}, 'corpus')
        add({'mods': [['pkg', '"doc"\nfrom ._impl import Foo\n__all__ = ["Foo"]\n', None, True],
                      ['_impl', 'class Foo:\n  def m(self): pass\n  @property\n  def p(self): return 1\n', 'pkg', False],
                      ['other', 'X = 1\n', None, False]], 'privacy': []}, 'corpus')
        add({'mods': [['a b', 'def f(): pass\nclass C:\n  y = 1\n', None, False]], 'privacy': []}, 'corpus_space')
        add({'mods': [['a 1', 'def f(): pass\n', None, False], ['z', 'k = 1\n', None, False]], 'privacy': []}, 'corpus_space')
        add({'mods': [['m', 'def f(): pass\n', None, False], ['m', 'def g(): pass\nclass K:\n  def h(self): pass\n', None, False]],
             'privacy': []}, 'corpus_duplicate_module')
        add({'mods': [['m', 'class A:\n  class B:\n    class C:\n      def d(self): pass\n', None, False]],
             'privacy': [['HIDDEN', 'm.A.B'], ['PUBLIC', 'm.A.B.C']]}, 'corpus')
        add({'mods': [['m', 'def f(): pass\n', None, False]], 'privacy': [['HIDDEN', 'm']]}, 'corpus_all_hidden')
        add({'mods': [['r\u00e9sum\u00e9', 'def \u00e9t\u00e9(): pass\nclass \u4e2d:\n  \u6587 = 1\n', None, False]], 'privacy': []},
            'corpus_unicode')
        add({'mods': [['m', 'def f(): pass\nclass C:\n  def m(self): pass\n', None, False]], 'privacy': [], 'html': True}, 'corpus_html')
        add({'files': {'pk/__init__.py': '"doc"\n', 'pk/mod.py': 'def f(): pass\nclass C:\n  a = 1\n', 'pk/_priv.py': 'x = 1\n',
                       'pk/sub/__init__.py': '', 'pk/sub/deep.py': 'class D:\n  def m(self): pass\n'}, 'privacy': []}, 'corpus_files')
        # the known class (DESIGN 7.3): a file name with spaces and integer-looking pieces
        add({'files': {'a 1 2.py': 'def f(): pass\nclass C:\n  def m(self): pass\n  x = 1\n'}, 'privacy': []}, 'corpus_space_int')
        add({'mods': [['a b +3', 'def f(): pass\n', None, False], ['q', 'v = 1\n', None, False]], 'privacy': []}, 'corpus_space_int')
        # real packages: pydoctor's own test packages (quick: four of them), and pydoctor itself (thorough)
        real = ['basic', 'allgames', 'nestedconfusion', 'reparented_module']
        if self.tier != 'quick':
            real += ['codeininit', 'cyclic_imports', 'cyclic_imports_base_classes', 'importingfrompackage', 'interfaceallgames',
                     'interfaceclass', 'liveobject', 'modnamedafterbuiltin', 'multipleinheritance', 'package_module_name_clash',
                     'relativeimporttest', 'reparenting_crash', 'reparenting_crash_alt', 'reparenting_follows_aliases',
                     'report_trigger', 'syntax_error']
        for pk in real:
            add({'paths': ['pydoctor/test/testpackages/' + pk], 'privacy': []}, 'real_testpackage')
        add({'paths': ['pydoctor/test/testpackages/allgames', 'pydoctor/test/testpackages/basic'],
             'privacy': [['HIDDEN', 'allgames.mod1'], ['PRIVATE', 'basic.mod.C']]}, 'real_testpackage')
        if self.tier != 'quick':
            add({'paths': ['pydoctor'], 'privacy': [['HIDDEN', 'pydoctor.test'], ['PUBLIC', 'pydoctor.test.epydoc']]}, 'real_pydoctor')
        n = 26 if self.tier == 'quick' else 1000
        for i in range(n):
            mods: List[List[Any]] = []
            names: List[str] = []
            nroots = r.randint(1, 3)
            full: List[str] = []
            for j in range(nroots):
                ispkg = r.random() < 0.4
                rn = r.choice(['m', 'pkg', 'lib', '_internal', 'x y', 'top 0', 'n 7']) if r.random() < 0.8 else r.choice(IDENT)
                if rn in names and r.random() < 0.7:
                    rn = rn + str(j)
                names.append(rn)
                body, locs = self.gen_body(0, False)
                mods.append([rn, body, None, ispkg])
                full += [rn + '.' + l for l in locs]
                if ispkg and names.count(rn) == 1:
                    for _ in range(r.randint(0, 2)):
                        sn = r.choice(['sub', '_hid', 'core', 'a b'])
                        sbody, slocs = self.gen_body(0, False)
                        if [sn, rn] not in [[m[0], m[2]] for m in mods]:
                            mods.append([sn, sbody, rn, False])
                            full += [rn + '.' + sn] + [rn + '.' + sn + '.' + l for l in slocs]
            privacy = []
            for _ in range(r.randint(0, 3)):
                if full:
                    privacy.append([r.choice(['HIDDEN', 'HIDDEN', 'PRIVATE', 'PUBLIC']), r.choice(full + ['*._p', '**._q', '*.K'])])
            c: Dict[str, Any] = {'mods': mods, 'privacy': privacy}
            x = r.random()
            rootnames = [m[0] for m in mods if m[2] is None]
            pickable = [n_ for n_ in rootnames if rootnames.count(n_) == 1] + \
                [m[2] + '.' + m[0] for m in mods if m[2] is not None and rootnames.count(m[2]) == 1]
            if x < 0.08:
                c['mode'] = 'html'
            elif x < 0.12:
                c['mode'] = 'html+intersphinx'
            elif x < 0.18:
                c['mode'] = 'summary'
            elif x < 0.26 and pickable:
                c['mode'] = 'subject'
                c['subjects'] = r.sample(sorted(set(pickable)), min(len(set(pickable)), r.randint(1, 2)))
                subs = [x for x in c['subjects'] if '.' in x]
                if subs and r.random() < 0.5:
                    # hide the package of one chosen sub-module: the subject then lives below a hidden ancestor
                    c['privacy'] = privacy + [['HIDDEN', subs[0].rsplit('.', 1)[0]]]
            else:
                c['mode'] = 'intersphinx'
            add(c, 'generated')
            self.count('project_mode_' + c['mode'])
        return out

    def linker_cases(self) -> List[Dict[str, Any]]:
        """projects documented with remote inventories loaded; names looked up through the real docstring linker"""
        r = self.rng
        out: List[Dict[str, Any]] = []

        def add(c: Dict[str, Any], kind: str) -> None:
            c['k'] = 'linker'
            c['kind'] = kind
            out.append(c)
            self.count('linker_' + kind)
        ns_a = {'project': 'A', 'mods': [['ns', '"d"\n', None, True],
                                         ['a', 'class Thing:\n  def run(self): pass\n  level = 3\ndef helper(): pass\n', 'ns', False]]}
        ns_b = [['ns', '"d"\n', None, True], ['b', 'from ns.a import Thing\ndef use(t):\n  "d"\nclass K:\n  def m(self): pass\n', 'ns', False]]
        other = inv_bytes(['other.mod.func py:function 1 mod.html#$ -', 'ns.c.f py:function 1 api/ns.c.html#$ -',
                           'ns.b.use py:function 1 elsewhere.html -', 'ns.c py:module 1 api/$.html -'])
        # a namespace-style top-level package shared between the documented project and the loaded inventories
        add({'mods': ns_b, 'fetches': [['http://a/api/objects.inv', ns_a]], 'queries': ['nothing', 'ns.zzz'],
             'from': ['ns.b', 'ns.b.use', 'ns.b.K.m', 'ns']}, 'shared_root_written')
        add({'mods': ns_b, 'fetches': [['http://a/api/objects.inv', ns_a], ['http://o/objects.inv', other.hex()]],
             'queries': ['nothing'], 'from': ['ns.b', 'ns.b.K']}, 'shared_root_two_inventories')
        add({'mods': [['m', 'def f(): pass\n', None, False]], 'fetches': [['http://o/objects.inv', inv_bytes(
            ['m.ext.g py:function 1 m.ext.html#$ -', 'm py:module 1 m.html -', 'mm.h py:function 1 mm.html#h -', 'm.f py:function 1 x.html -']).hex()]],
             'queries': ['m.nothing'], 'from': ['m', 'm.f']}, 'shared_root_module')
        add({'mods': [['one', 'x = 1\n', None, False], ['two', '"d"\n', None, True], ['sub', 'class D: pass\n', 'two', False]],
             'fetches': [['http://o/x/objects.inv', inv_bytes(['two.other.D py:class 1 two.other.D.html -', 'one.y py:attribute 1 one.html#y -',
                                                             'three.z py:function 1 three.html#$ -', 'a py:class 1', 'two.bad'])],
                         ['bad', None]],
             'queries': [], 'from': ['two.sub.D', 'one']}, 'two_roots_bad_lines')
        out[-1]['fetches'][0][1] = out[-1]['fetches'][0][1].hex()
        add({'mods': [['unrelated', 'def f(): pass\n', None, False]], 'fetches': [['http://o/objects.inv', inv_bytes(VALID_LINES).hex()]],
             'queries': ['mod.func', 'nothing'], 'from': ['unrelated', 'unrelated.f']}, 'unrelated_roots')
        n = 12 if self.tier == 'quick' else 400
        for _ in range(n):
            roots = r.sample(['m', 'pkg', 'ns', 'lib', 'x y'], r.randint(1, 2))
            mods: List[List[Any]] = []
            froms = []
            for rn in roots:
                ispkg = r.random() < 0.5
                body, locs = self.gen_body(1, False)
                mods.append([rn, body, None, ispkg])
                froms.append(rn)
                froms += [rn + '.' + l for l in locs[:1]]
                if ispkg:
                    mods.append(['sub', 'def s(): pass\n', rn, False])
                    froms.append(rn + '.sub')
            lines = []
            for _ in range(r.randint(2, 8)):
                top = r.choice(roots + roots + ['other', 'zz'])
                nm = top + '.' + '.'.join(r.choice(['ext', 'far', 'Cls', 'sub', 'q', 'f']) for _ in range(r.randint(0, 3)))
                nm = nm.rstrip('.')
                loc = r.choice([nm + '.html', 'api/' + top + '.html#$', 'p.html#' + nm, '$'])
                lines.append('%s py:%s %s %s -' % (nm, r.choice(['function', 'class', 'module', 'method']), r.choice(['1', '-1']), loc))
            if r.random() < 0.3:
                lines.insert(r.randrange(len(lines) + 1), r.choice(['a py:class 1', 'x', 'a b c d', 'k std:label 1 k.html K']))
            add({'mods': mods, 'fetches': [['http://r/d/objects.inv', inv_bytes(lines).hex()]], 'queries': ['nothing'],
                 'from': froms[:4]}, 'generated')
        return out

    def check_linker(self, cases: List[Dict[str, Any]], out: List[Violation]) -> None:
        impl = lib.run_impl_worker(WORKER, cases, jobs=8 if len(cases) >= 32 else 1)
        wires = []
        for c, r in zip(cases, impl):
            if r.get('build_exc'):
                wires.append(enc([8, 0, [], [], [], [], []]))
                continue
            fs = []
            table: List[Any] = []
            for (u, _), d in zip(c['fetches'], r['data']):
                data = None if d is None else bytes.fromhex(d)
                fs.append([u, data is not None, data or b''])
                for e in oracle_table(data):
                    if e not in table:
                        table.append(e)
            froms = []
            for l in r['lookups']:
                if l[0] not in froms:
                    froms.append(l[0])
            wires.append(enc([8, 0, fs, c.get('queries', []), table, r['root_names'], froms]))
        mod = self.model('inventory', wires)
        for c, r, m in zip(cases, impl, mod):
            self.evaluations += 1
            if r.get('build_exc'):
                out.append(Violation('oracle', 'building the project raised ' + r['build_exc'], case=c, observed=r))
                continue
            status, links, reps, lookups = dec(m)
            cm = {'exc': None if status == 0 else EXN.get(status - 1, '?'),
                  'links': [[txt(a), txt(b), txt(x)] for a, b, x in links],
                  'reports': [['sphinx', REPORT_FMT[k](txt(a), txt(b)), -1] for k, a, b in reps],
                  'lookups': [[txt(f), txt(n), txt(u) if found else None] for f, n, found, u in lookups]}
            ci = {'exc': r['exc'], 'links': r['links'], 'reports': r['reports'],
                  'lookups': [[l[0], l[1], l[2]] for l in r['lookups']]}
            if cm != ci:
                out.append(Violation('correspondence', 'Model.Inventory.look_for_intersphinx / update and the real linker / '
                                     'SphinxInventory disagree (%s)' % c.get('kind'), case=c, expected=cm, observed=ci))
            shared = [l for l in r['lookups'] if l[1].split('.')[0] in r['root_names'] and l[1] not in r['local'] and l[2]]
            self.count('linker_lookups', len(r['lookups']))
            self.count('linker_lookups_resolved_under_own_root', len(shared))
            if shared:
                self.nontrivial.add('K' + json.dumps(c, sort_keys=True))
            msg = oracle_linker(c, r)
            if msg:
                out.append(Violation('oracle', msg, case=c, observed={'root_names': r['root_names'], 'local': r['local'][:30],
                                                                      'lookups': r['lookups'][:40], 'links': r['links'][:40]}))

    # ------------------------------------------------------------------ correspondence
    def check_lines(self, cases: List[Dict[str, Any]], out: List[Violation]) -> None:
        impl = lib.run_impl_worker(WORKER, cases, jobs=8)
        mod = self.model('inventory', [enc([0, 0, c['line']]) for c in cases])
        # the interpretation of the code TRANSLATED from sphinx.py (Gen/InventoryCode.v): third leg of the comparison
        modir = self.model('inventory_ir', [enc([0, c['line']]) for c in cases])
        nir = 0
        for c, r, mi in zip(cases, impl, modir):
            mm = dec(mi)
            if mm[0] == 0 and len(mm) == 7:
                ci = [0, txt(mm[1]), txt(mm[2]), mm[3], mm[4], txt(mm[5]), txt(mm[6])]
            elif mm[0] == 1:
                ci = [1, EXN.get(mm[1], '?')]
            else:
                ci = [2, 'stuck']
            if ci != r and nir < 10:
                nir += 1
                out.append(Violation('correspondence', 'the code translated from sphinx._parseInventoryLine (Gen/InventoryCode.v, '
                                     'interpreted by Model.InventoryIR) and the real function disagree: the translator or the '
                                     'statement language misrepresents the source', case=c, expected=ci, observed=r))
        suspicious: List[str] = []
        for c, r, m in zip(cases, impl, mod):
            mm = dec(m)
            if mm[0] == 0:
                cm = [0, txt(mm[1]), txt(mm[2]), mm[3], mm[4], txt(mm[5]), txt(mm[6])]
            else:
                cm = [1, EXN.get(mm[1], '?')]
            self.count('line_result_%s' % ('ok' if r[0] == 0 else r[1]))
            if len(c['line'].split(' ')) >= 3:
                self.nontrivial.add('L' + c['line'])
            if cm != r and len(out) < 20:
                out.append(Violation('correspondence', 'Model.Inventory.parse_line and sphinx._parseInventoryLine disagree',
                                     case=c, expected=cm, observed=r))
            if r[0] == 1 and r[1] != 'ValueError':
                suspicious.append(c['line'])
        self.evaluations += len(cases)
        # the property on such a line: an inventory that contains it must still load
        if suspicious:
            fcs = [fetch_case([(URL, inv_bytes(['ok py:class 1 ok.html -', l, 'ok2 py:class 1 ok2.html -']))], ['ok', 'ok2'])
                   for l in suspicious[:5]]
            obs = lib.run_impl_worker(WORKER, fcs)
            for fc, o in zip(fcs, obs):
                msg = oracle_fetch(fc, o)
                if msg:
                    out.append(Violation('oracle', msg, case=fc, observed=o))

    def check_fetches(self, cases: List[Dict[str, Any]], out: List[Violation]) -> None:
        impl = lib.run_impl_worker(WORKER, cases, jobs=8)
        mod = self.model('inventory', [fetch_to_wire(c) for c in cases])
        # getLink as translated from the source, on the maps the real reader built
        irq, irw = [], []
        for c, r in zip(cases, impl):
            if r['links'] and not r['exc'] and len(irq) < 4000:
                for n, u in r['answers']:
                    irq.append(enc([1, r['links'], n]))
                    irw.append((c, n, u))
        nir = 0
        for (c, n, u), mi in zip(irw, self.model('inventory_ir', irq)):
            mm = dec(mi)
            got = (txt(mm[2]) if mm[1] else None) if len(mm) == 3 else '!stuck'
            if got != u and nir < 10:
                nir += 1
                out.append(Violation('correspondence', 'the code translated from SphinxInventory.getLink (Gen/InventoryCode.v, interpreted '
                                     'by Model.InventoryIR) and the real method disagree on getLink(%r)' % n, case=c, expected=got, observed=u))
        self.stats['getlink_ir_queries'] = len(irq)
        noracle = 0
        for c, r, m in zip(cases, impl, mod):
            cm = canon_model_fetch(dec(m))
            ci = canon_impl_fetch(r)
            if cm != ci and len([v for v in out if v.kind == 'correspondence']) < 20:
                out.append(Violation('correspondence', 'Model.Inventory.update and SphinxInventory.update disagree (%s)'
                                     % c.get('kind'), case=c, expected=cm, observed=ci))
            self.count('fetch_links_%s' % ('0' if not r['links'] else '1-3' if len(r['links']) < 4 else '4+'))
            self.count('fetch_reports_%s' % (str(len(r['reports'])) if len(r['reports']) < 3 else '3+'))
            for rep in r['reports']:
                self.count('report_' + (rep[1] or '').split(' ')[2] if rep[1] else 'report_none')
            if r['exc']:
                self.count('fetch_exception_' + r['exc'])
            if r['links'] or any('parse line' in (x[1] or '') for x in r['reports']):
                self.nontrivial.add('F' + json.dumps(c['fetches']))
            msg = oracle_fetch(c, r)
            if msg and noracle < 20:
                noracle += 1
                out.append(Violation('oracle', msg, case=c, observed=r))
        self.evaluations += len(cases)
        # shrink the three smallest failing inventories line by line
        orc = sorted([v for v in out if v.kind == 'oracle' and v.case.get('k') == 'fetch'], key=lambda v: len(json.dumps(v.case)))
        for v in orc[:3]:
            small = self.shrink_fetch(v.case, v.what)
            if small is not v.case:
                o = lib.run_impl_worker(WORKER, [small])[0]
                m = oracle_fetch(small, o)
                if m:
                    v.case, v.observed, v.what = small, o, m

    def check_projects(self, cases: List[Dict[str, Any]], out: List[Violation]) -> None:
        impl = lib.run_impl_worker(WORKER, cases, jobs=12 if len(cases) >= 48 else 1)
        wire2, wire1 = [], []
        for c, r in zip(cases, impl):
            if r.get('build_exc'):
                wire2.append(enc([2, [], [], '', '']))
                wire1.append(enc([1, 0, [], [], []]))
                continue
            wire2.append(enc([2, r['root_names'], r['dump'], r['project'], r['version']]))
            wire1.append(fetch_to_wire(fetch_case([(URL, bytes.fromhex(r['data']))], [])))
        wire7 = []
        for r in impl:
            mk = r.get('make') or {'makehtml': False, 'makeintersphinx': False, 'htmlsubjects': [], 'summarypages': False, 'roots': []}
            wire7.append(enc([7, mk['makehtml'], mk['makeintersphinx'], mk['htmlsubjects'], mk['summarypages'], mk['roots']]))
        m2 = self.model('inventory', wire2)
        m1 = self.model('inventory', wire1)
        m7 = self.model('inventory', wire7)
        for c, r, mk7 in zip(cases, impl, m7):
            if r.get('build_exc'):
                continue
            h, i = dec(mk7)
            exp = {'html_subjects': [txt(x) for x in h[0]] if h else None, 'inv_subjects': [txt(x) for x in i[0]] if i else None}
            got = {'html_subjects': r['make']['html_subjects'], 'inv_subjects': r['make']['inv_subjects']}
            if exp != got:
                out.append(Violation('correspondence', 'Model.Inventory.make_subjects and driver.make disagree on the subjects '
                                     'given to the HTML writer / the inventory writer (mode %s)' % r.get('mode'),
                                     case=c, expected=exp, observed=got))
        for c, r, a, b in zip(cases, impl, m2, m1):
            self.evaluations += 1
            if r.get('build_exc'):
                out.append(Violation('oracle', 'building/writing the project raised ' + r['build_exc'], case=c, observed=r))
                continue
            data = bytes.fromhex(r['data'])
            lines_m, unknown_m, header_m = dec(a)
            content_m = ''.join(txt(l) for l in lines_m)
            header_i = b'\n'.join(data.split(b'\n', 4)[:4]) + b'\n'
            try:
                content_i = zlib.decompress(data[len(header_i):]).decode('utf-8')
            except Exception as e:  # noqa
                content_i = '!%s' % type(e).__name__
            exp = {'header': txt(header_m), 'content': content_m, 'errors': len(unknown_m)}
            got = {'header': header_i.decode('utf-8', 'replace'), 'content': content_i, 'errors': r['writer_errors']}
            if exp != got:
                out.append(Violation('correspondence', 'Model.Inventory.generate and SphinxInventoryWriter disagree on objects.inv',
                                     case=c, expected=exp, observed=got))
            cm = canon_model_fetch(dec(b))
            ci = canon_impl_fetch(r['pyd'])
            if cm != ci:
                out.append(Violation('correspondence', 'Model.Inventory.update and SphinxInventory.update disagree on a written inventory',
                                     case=c, expected=cm, observed=ci))
            nvis = len(r['visible'])

            def count_hidden(d: Any) -> int:
                return (1 if d[2] else 0) + sum(count_hidden(k) for k in d[3])
            nh = sum(count_hidden(d) for d in r['dump'])
            self.count('project_objects', nvis)
            self.count('project_registry_agrees_%s' % r['registry_agrees'])
            self.count('project_hidden_objects', nh)
            if nh or any(' ' in n for n, _ in r['visible']) or r.get('mode') != 'intersphinx':
                self.nontrivial.add('P' + json.dumps(c, sort_keys=True))
            o = oracle_project(c, r)
            if o:
                out.append(Violation('oracle', 'round trip: ' + o[0], case=c, observed={'bad_names': o[1], 'visible': r['visible'][:30]}))

    def sweep3(self, out: List[Violation]) -> None:
        cases = [{'k': 'sweep3', 'head': b'#\n'.hex(), 'first': f} for f in range(256)]
        res = lib.run_impl_worker(WORKER, cases, jobs=16)
        n = 0
        for c, r in zip(cases, res):
            n += r['n']
            for a in r['anomalies'][:2]:
                fc = fetch_case([(URL, bytes.fromhex(a))], [])
                o = lib.run_impl_worker(WORKER, [fc])[0]
                m = canon_model_fetch(dec(self.model('inventory', [fetch_to_wire(fc)])[0]))
                if m != canon_impl_fetch(o):
                    out.append(Violation('correspondence', 'Model.Inventory.update and SphinxInventory.update disagree (3 raw bytes)',
                                         case=fc, expected=m, observed=canon_impl_fetch(o)))
                msg = oracle_fetch(fc, o)
                if msg:
                    out.append(Violation('oracle', msg, case=fc, observed=o))
        # the model on the same domain: zlib rejects every string of <= 3 bytes (checked here with CPython's zlib on
        # a sample of 65536), so the model's answer is the constant (no links, one RUncompress report)
        for b2 in range(256):
            for b3 in range(256):
                try:
                    zlib.decompress(bytes([0x78, b2, b3]))
                    raise RuntimeError('zlib accepted a 3 byte stream')
                except zlib.error:
                    pass
        self.stats['raw_bytes_eq3_summarised'] = n
        self.evaluations += n

    def correspondence(self) -> List[Violation]:
        out: List[Violation] = []
        self.spec_validation()
        linkers = self.linker_cases()
        self.check_linker(linkers, out)
        self.stats['linker_cases'] = len(linkers)
        lines = self.line_cases()
        self.check_lines(lines, out)
        fetches = self.fetch_cases([c['line'] for c in lines])
        self.check_fetches(fetches, out)
        projects = self.project_cases()
        self.check_projects(projects, out)
        if self.tier != 'quick':
            self.sweep3(out)
        self.exhaustive = True
        self.stats['lines'] = len(lines)
        self.stats['fetches'] = len(fetches)
        self.stats['projects'] = len(projects)
        self.sample(lines[40])
        self.sample(lines[-1])
        self.sample({k: v for k, v in fetches[0].items() if k != 'fetches'} | {'fetches': [[fetches[0]['fetches'][0][0], fetches[0]['fetches'][0][1][:80] + '...']]})
        self.sample(projects[0])
        self.sample(projects[-1])
        return out

    # ------------------------------------------------------------------ search / known / replay
    def search(self, broken: List[Violation]) -> List[Violation]:
        """A proof or the correspondence broke and the oracle did not fail on the regular stream: try the cases the
        break mentions, then a larger stream, against the real code."""
        out: List[Violation] = []
        cands: List[Dict[str, Any]] = []
        for b in broken:
            c = b.case
            if isinstance(c, dict) and c.get('k') == 'line':
                cands.append(fetch_case([(URL, inv_bytes(['ok py:class 1 ok.html -', c['line'], 'ok2 py:class 1 ok2.html#$ -']))],
                                        ['ok', 'ok2']))
            elif isinstance(c, dict) and c.get('k') == 'fetch':
                cands.append(c)
        old_tier = self.tier
        self.tier = 'thorough'
        try:
            lines = [c['line'] for c in self.line_cases()][:120000]
        finally:
            self.tier = old_tier
        for i in range(0, len(lines), 25):
            cands.append(fetch_case([(URL, inv_bytes(['ok py:class 1 ok.html -'] + lines[i:i + 25] + ['ok2 py:class 1 ok2.html#$ -']))],
                                    ['ok', 'ok2']))
        obs = lib.run_impl_worker(WORKER, cands, jobs=16)
        for c, o in zip(cands, obs):
            msg = oracle_fetch(c, o)
            if msg:
                out.append(Violation('oracle', msg, case=self.shrink_fetch(c, msg), observed=o))
                if len(out) >= 3:
                    break
        return out

    def shrink_fetch(self, case: Dict[str, Any], msg: str) -> Dict[str, Any]:
        """delta-debug the lines of a single-fetch case whose payload decodes (one worker call per round)"""
        try:
            (u, d), = case['fetches']
            data = bytes.fromhex(d)
            hdr_len = len(data) - len(strip_comment_lines(data))
            lines = zlib.decompress(data[hdr_len:]).decode('utf-8').split('\n')
        except Exception:  # noqa
            return case

        def mk(ls: List[str]) -> Dict[str, Any]:
            return fetch_case([(u, data[:hdr_len] + zlib.compress('\n'.join(ls).encode('utf-8', 'surrogatepass')))],
                              case.get('queries', []))
        cur = lines
        if oracle_fetch(mk(cur), lib.run_impl_worker(WORKER, [mk(cur)])[0]) is None:
            return case
        for _ in range(200):
            if len(cur) <= 1:
                break
            cands = [cur[:i] + cur[i + 1:] for i in range(len(cur))]
            cs = [mk(t) for t in cands]
            obs = lib.run_impl_worker(WORKER, cs)
            nxt = None
            for t, c, o in zip(cands, cs, obs):
                if oracle_fetch(c, o) is not None:
                    nxt = t
                    break
            if nxt is None:
                break
            cur = nxt
        out = mk(cur)
        out['kind'] = 'shrunk'
        return out

    def classify_known(self, v: Violation, known: List[dict]) -> Optional[dict]:
        if v.kind != 'oracle' or not isinstance(v.case, dict) or v.case.get('k') != 'project':
            return None
        bad = (v.observed or {}).get('bad_names') if isinstance(v.observed, dict) else None
        if not bad:
            return None
        for k in known:
            m = k.get('match', {})
            if m.get('case') == 'project' and m.get('every_bad_name') == 'has a space separated piece at index >= 2 that int() accepts':
                if all(space_int_piece(n) for n in bad):
                    return k
        return None

    def replay(self, data: Any) -> int:
        case = data['input']
        if not isinstance(case, dict) or 'k' not in case:
            print('no concrete input in this replay file:', data.get('what'))
            return 1
        self.binaries['inventory'] = lib.BUILD / 'C17_inventory' / 'run'
        have_model = self.binaries['inventory'].exists()
        r = lib.run_impl_worker(WORKER, [case])[0]
        rc = 0
        if case['k'] == 'line':
            print('line     :', repr(case['line']))
            print('observed : _parseInventoryLine ->', r)
            if have_model:
                print('model    :', dec(self.model('inventory', [enc([0, 0, case['line']])])[0]))
            if r[0] == 1 and r[1] != 'ValueError':
                print('property : _parseInventoryLine may only raise ValueError (the only exception _parseInventory handles)')
                rc = 1
            else:
                print('property : holds on this input')
        elif case['k'] == 'fetch':
            for u, d in case['fetches']:
                print('url      :', repr(u))
                if d is not None:
                    bs = bytes.fromhex(d)
                    print('data     :', repr(bs[:200]))
                    try:
                        print('payload  :', repr(zlib.decompress(strip_comment_lines(bs)).decode('utf-8', 'replace')[:600]))
                    except zlib.error as e:
                        print('payload  : zlib.error', e)
            print('observed :', json.dumps(r)[:1500])
            if have_model:
                print('model    :', json.dumps(canon_model_fetch(dec(self.model('inventory', [fetch_to_wire(case)])[0])))[:1500])
            msg = oracle_fetch(case, r)
            print('property :', msg or 'holds on this input')
            rc = 1 if msg else 0
        elif case['k'] == 'linker':
            print('project  :', json.dumps(case.get('mods'))[:800])
            print('fetches  :', [[u, (d if isinstance(d, dict) else (d or '')[:60])] for u, d in case['fetches']])
            if not r.get('build_exc'):
                print('roots    :', r['root_names'], ' own objects:', r['local'][:30])
                print('loaded   :', r['links'][:30], r['reports'][:5], r['exc'])
                for l in r['lookups'][:40]:
                    print('  from %r: look_for_intersphinx(%r) = %r; xref -> %s %r' % (l[0], l[1], l[2], l[3], l[4]))
            msg = oracle_linker(case, r)
            print('property :', msg or 'holds on this input')
            rc = 1 if msg else 0
        elif case['k'] == 'project':
            print('project  :', json.dumps({k: v for k, v in case.items() if k in ('mods', 'files', 'paths', 'privacy', 'mode', 'subjects')})[:1500])
            if not r.get('build_exc'):
                print('make     :', r['make'])
                if 'documented' in r:
                    print('documented by this run:', r['documented'][:40], '(%d pages written)' % r['pages_written'])
                    print('entries whose target was not written:', [t for t in r['targets'] if not (t[2] and t[3])][:20])
            if not r.get('build_exc'):
                print('visible  :', r['visible'][:40])
                print('pydoctor :', r['pyd']['links'][:40], r['pyd']['reports'][:5], r['pyd']['exc'])
                print('sphinx   :', r['sphinx']['entries'][:40], r['sphinx']['exc'])
            o = oracle_project(case, r)
            print('property :', ('round trip fails: ' + o[0] + ' (names: %r)' % (o[1],)) if o else 'holds on this input')
            rc = 1 if o else 0
        return rc
