"""C10 -- generated pages are well-formed and source text can never become markup.

Model (Coq, extracted): Model/Stan.v (twisted flatten + both escapers), Model/DocutilsEsc.v (docutils encode / attval /
starttag with pydoctor's rst- prefixing), Model/Html2Stan.v, Model/DeprecateText.v; spec Spec/Xml.v (XML reader),
Spec/StanXml.v (meaning of a stan tree).  This module ties them to /repo:

  correspondence  real stanutils.flatten / html2stan / HTMLTranslator.encode,attval,starttag / deprecate text
                  vs the extracted model, byte for byte, on exhaustive small and random adversarial inputs;
  spec validation Spec.Xml.read vs expat on the same strings (a disagreement is a broken check, not a finding);
  oracle          the property stated on the real output: it parses (illegal characters set aside), its elements
                  and attributes are exactly those of the input tree / of the same input with a harmless payload;
  whole run       tiny projects carrying adversarial strings at every source-text site, every docformat,
                  through driver.main --make-html; every page parsed; element/attribute/entity multisets
                  compared with the same project holding a harmless payload.
"""
from __future__ import annotations
import collections, itertools, json, re
from typing import Any, Dict, List, Optional, Tuple
import xml.parsers.expat as expat
import lib
from lib import PropertyCheck, Violation, enc, dec, txt

# ------------------------------------------------------------------ adversarial material
SMALL = ['<', '>', '&', '"', "'", ';', '#', 'x', 'a']            # exhaustive alphabet
FRAGS = ['<', '>', '&', '"', "'", ';', '#', 'x', '0', '1', '9', 'a', 'z', ' ', '=', '/', '@', '.', '-',
         ']]>', '-->', '<!--', '<script>', '</script>', '<script>alert(1)</script>', '<![CDATA[', '<?x ?>',
         '&lt;', '&amp;', '&gt;', '&quot;', '&#60;', '&#x3c;', '&#0;', '&nbsp;', '&bogus;', '&lt', '&#',
         '<b onload="x">', "<a href='javascript:x'>", '\n', '\t', '\r', '\r\n', '\x0c', '\x0b', '\x01', '\x00',
         '<zzq>', '</zzq>', '<zzq onzz="1">', '<zzq/>', '<zzq>x</zzq>', '<zzq onzz="1"/>', '<b>x</b>',
         '<img src="zzq.png" onerror="x"/>', '--> <zzq/>', ']]> <zzq/>', '--> <zzq onzz="1"/>', '--> <script>zzq()</script>', '&zzent;', ' zzattr="1" ', '\x1f', '\x1c', '\x7f', '\x85', '\xa0', '\xe9', '\u2028', '\ufffe', '\uffff', '\U0001f600', '\\', '\\x01']
TAGS = ['a', 'b', 'div', 'span', 'br', 'p', 'code', 'img', '', 'hr', 'wbr', 'li', 'td']
ATTRS = ['href', 'class', 'title', 'id', 'data-x', 'src', 'name', 'alt']
LEGAL = re.compile('[\x09\x0a\x0d\x20-\ud7ff\ue000-\ufffd\U00010000-\U0010ffff]*')
ILLEGAL1 = re.compile('[^\x09\x0a\x0d\x20-\ud7ff\ue000-\ufffd\U00010000-\U0010ffff]')
LINE_BREAKS = '\n\x0b\x0c\r\x1c\x1d\x1e\x85\u2028\u2029'


def small_strings(maxlen: int) -> List[str]:
    out = ['']
    for n in range(1, maxlen + 1):
        out.extend(''.join(p) for p in itertools.product(SMALL, repeat=n))
    return out


def eol(s: str) -> str:
    return s.replace('\r\n', '\n').replace('\r', '\n')


def attr_ws(s: str) -> str:
    return re.sub('[\t\n\r]', ' ', eol(s))


# ------------------------------------------------------------------ decoding the model's answers
def m_text(x: Any) -> str:
    return ''.join(chr(c) for c in x)


def m_forest(f: Any) -> List[Any]:
    out = []
    for n in f:
        if n[0] == 0:
            out.append([0, m_text(n[1])])
        else:
            out.append([1, m_text(n[1]), [[m_text(k), m_text(v)] for k, v in n[2]], m_forest(n[3])])
    return out


def m_stan(s: Any) -> Any:
    if s[0] == 0:
        return [0, m_text(s[1])]
    return [1, m_text(s[1]), [[m_text(k), m_text(v)] for k, v in s[2]], [m_stan(k) for k in s[3]]]


def canon_kids(kids: List[Any]) -> List[Any]:
    """merge adjacent texts, drop empty ones (what twisted's expat handler may deliver in several chunks)"""
    out: List[Any] = []
    for k in kids:
        if k[0] == 0:
            if not k[1]:
                continue
            if out and out[-1][0] == 0:
                out[-1] = [0, out[-1][1] + k[1]]
                continue
            out.append([0, k[1]])
        else:
            out.append([1, k[1], k[2], canon_kids(k[3])])
    return out


def norm_forest(f: List[Any]) -> List[Any]:
    """end-of-line and attribute-value normalisation, applied to a literal forest so that it can be compared with expat"""
    out = []
    for n in f:
        if n[0] == 0:
            out.append([0, eol(n[1])])
        else:
            out.append([1, n[1], [[k, attr_ws(v)] for k, v in n[2]], norm_forest(n[3])])
    return out


def forest_names(f: List[Any]) -> Tuple[List[str], List[str], str]:
    els, ats, text = [], [], ''
    for n in f:
        if n[0] == 0:
            text += n[1]
        else:
            els.append(n[1])
            ats.extend(n[1] + '@' + k for k, _ in n[2])
            e, a, t = forest_names(n[3])
            els += e
            ats += a
            text += t
    return els, ats, text


def stan_names(s: Any) -> Tuple[List[str], List[str], str]:
    if s[0] == 0:
        return [], [], s[1]
    if s[0] == 2:
        return ['#' + str(s[1])], [], ''      # a Comment / CDATA / other non-Tag node
    els, ats, text = [], [], ''
    if s[1]:
        els.append(s[1])
        ats.extend(s[1] + '@' + k for k, _ in s[2])
    for k in s[3]:
        e, a, t = stan_names(k)
        els += e
        ats += a
        text += t
    return els, ats, text


def strings_of(x: Any) -> List[str]:
    if isinstance(x, str):
        return [x]
    if isinstance(x, (list, tuple)):
        return [t for y in x for t in strings_of(y)]
    return []


def has_feature(forest: List[Any]) -> bool:
    """names outside the subset of Spec/Xml.v (colon, non-ASCII)"""
    for n in forest:
        if n[0] == 1:
            names = [n[1]] + [k for k, _ in n[2]]
            if any(not re.fullmatch(r'[A-Za-z_][A-Za-z0-9_.\-]*', x) for x in names):
                return True
            if has_feature(n[3]):
                return True
    return False


# ------------------------------------------------------------------ the property on one observation of the REAL code
def oracle_flatten(case: Any, obs: Any) -> Optional[str]:
    """flatten(stan): the output parses as XML once illegal characters are set aside, and its elements, attributes
    and text are exactly those of the tree: nothing is contributed by the characters of texts or attribute values."""
    stan = case[1]
    if obs[0] == 0:
        return None          # flatten refused (encoding error): nothing was written
    if obs[0] != 1:
        return 'flatten raised %s' % (obs[1:],)
    html, xml = obs[1], obs[2]
    if xml[0] != 'ok':
        return 'flattened output is not well-formed: %s' % xml[1]
    if xml[2]:
        return 'flattened output contains %s' % xml[2]
    got = forest_names(xml[1][0][3])
    want = stan_names(stan)
    if sorted(got[0]) != sorted(want[0]):
        return 'elements %s in the output, the tree has %s' % (sorted(got[0]), sorted(want[0]))
    if sorted(got[1]) != sorted(want[1]):
        return 'attributes %s in the output, the tree has %s' % (sorted(got[1]), sorted(want[1]))
    # line ends are normalised by the parser per run of character data: compare the text without CR / LF
    strip = lambda t: ILLEGAL1.sub('', t).replace('\r', '').replace('\n', '')
    if strip(got[2]) != strip(want[2]):
        return 'text %r in the output, the tree says %r' % (got[2], want[2])
    return None


def neutralised(t: str) -> str:
    """what the re-parse path is meant to show for t: C0 controls other than TAB LF CR written as \\xNN, line ends as LF"""
    return eol(''.join('\\x%02x' % ord(c) if ord(c) < 32 and c not in '\t\n\r' else c for c in t))


def oracle_reparse(case: Any, obs: Any) -> Optional[str]:
    """The re-parse path (text -> docutils encode -> html2stan), as used for signatures, colourised values and docstrings:
    for every text of XML characters and C0 controls the result exists and is TEXT ONLY, namely the text itself with the
    control characters neutralised: the text appears as text and creates no node."""
    fn = case[0]
    t = case[1] if fn == 13 else case[1][0]
    if any(ord(c) >= 32 and ILLEGAL1.match(c) for c in t):
        return None          # U+FFFE, U+FFFF, surrogates: not XML characters and not control characters: set aside
    if obs[0] in (0, 3):
        return 'the re-parse path fails on %r (the caller then drops the whole signature / value / docstring rendering)' % t
    if obs[0] != 1:
        return 'unexpected %s' % (obs,)
    st = obs[-1]
    els, ats, text = stan_names(st)
    if fn == 13:
        if els or ats:
            return 'html2stan(encode(%r)) created elements %s attributes %s' % (t, els, ats)
    else:
        want_els = ['span']
        want_ats = ['span@class'] if case[1][1] is not None else []
        if els != want_els or sorted(ats) != want_ats:
            return 'node2stan of an inline node holding %r created elements %s attributes %s' % (t, els, ats)
    if fn == 14:
        # docutils uses NUL as its internal escape marker: Text.astext() drops it (with a following space / newline)
        t = re.sub('\x00[ \n]?', '', t)
    if text != neutralised(t):
        return 'the re-parse path shows %r for the text %r (expected %r)' % (text, t, neutralised(t))
    return None


def nul_dropped(t: str) -> str:
    """docutils uses NUL as its internal escape marker: Text.astext() drops it (with a following space / newline)"""
    return re.sub('\x00[ \n]?', '', t)


def oracle_label(case: Any, obs: Any) -> Optional[str]:
    """node2stan over the children of a reference (its label): the result holds one <span> per inline child and nothing
    else -- every child's text appears as text, whatever it holds."""
    items = case[1]
    texts = ''.join(nul_dropped(it[1]) for it in items)
    if any(ord(c) >= 32 and ILLEGAL1.match(c) for c in texts):
        return None
    if obs[0] in (0, 3):
        if '\xa0' in texts:
            return None      # the known re-parse failure (no-break space), see fn 13
        return 'node2stan fails on the label %r' % (items,)
    if obs[0] != 1:
        return 'unexpected %s' % (obs,)
    els, ats, text = stan_names(obs[1])
    want_els = ['span'] * sum(1 for it in items if it[0] == 1)
    want_ats = ['span@class'] * sum(1 for it in items if it[0] == 1 and it[2])
    if sorted(els) != want_els or sorted(ats) != want_ats:
        return 'the text of a reference label became markup: elements %s attributes %s (expected %s %s)' % (
            sorted(els), sorted(ats), want_els, want_ats)
    if text != neutralised(texts):
        return 'the label shows %r for the text %r' % (text, texts)
    return None


def oracle_signature(case: Any, obs: Any) -> Optional[str]:
    """format_signature of def f(a=<value>, *, k=<value>): the signature is rendered (not dropped), and its elements and
    attributes are exactly those of the same signature with a harmless text inside the value: the characters of a default
    value -- str or bytes, bare or inside a container / call -- appear as text."""
    kind, payload = case[1][2], case[1][3]
    got, base = obs
    if base[0] != 1:
        return None
    if got[0] != 1:
        if kind in ('str', 'dictkey', 'nested') and ('\xa0' in payload or any(ord(c) >= 32 and ILLEGAL1.match(c) for c in payload)):
            # known: NO-BREAK SPACE makes the re-parse path fail (C10-nbsp-reparse); U+FFFE / U+FFFF are not XML
            # characters and not control characters: set aside
            return None
        return 'the signature with the default value %s is dropped: %r' % (case[1][0], got[1])
    ge, ga, _ = stan_names(got[1])
    be, ba, _ = stan_names(base[1])
    if sorted(ge) != sorted(be) or sorted(ga) != sorted(ba):
        extra_e = sorted((collections.Counter(ge) - collections.Counter(be)).elements())
        extra_a = sorted((collections.Counter(ga) - collections.Counter(ba)).elements())
        return 'the default value %s became markup in the signature: extra elements %s attributes %s (all: %s)' % (
            case[1][0], extra_e, extra_a, sorted(ge))
    return None


def oracle_starttag(case: Any, obs: Any) -> Optional[str]:
    """starttag(...): closing the tag gives well-formed XML whose only elements are the tag itself and the empty
    <span id> anchors of additional ids, and whose attribute names are (lower-cased) keyword names or
    class/id/lang/target: no element or attribute comes from a VALUE (class, id, href, title ... text)."""
    if obs[0] == 0:
        return None
    if obs[0] != 1:
        return 'starttag raised %s' % (obs[1:],)
    tag, ncls, nids, inline_first, empty, suffix, attrs = case[1]
    tagl = tag.lower()
    html = obs[1]
    doc = '<c10root>' + ILLEGAL1.sub('', html) + ('' if empty else '</%s>' % tagl) + '</c10root>'
    r = parse(doc, html_entities=True)
    if r[0] != 'ok':
        return 'start tag is not well-formed: %s in %r' % (r[1], html)
    if r[2]:
        return 'start tag holds %s' % r[2]
    els, ats, _ = forest_names(r[1][0][3])
    total_ids = len(nids) + sum(len(v) for k, kind, v in attrs if k.lower() == 'ids' and kind == 1)
    want = sorted([tagl] + ['span'] * max(0, total_ids - 1))
    if sorted(els) != want:
        return 'start tag produced elements %s, expected %s' % (sorted(els), want)
    allowed = {tagl + '@' + k.lower() for k, _, _ in attrs} | {tagl + '@' + k for k in ('class', 'id', 'lang', 'target')} | {'span@id'}
    bad = [a for a in ats if a not in allowed]
    if bad:
        return 'start tag produced attributes %s' % bad
    return None


XHTML_ENTITIES = '<!DOCTYPE c10root [<!ENTITY nbsp "&#160;">]>'


def parse(data: str, html_entities: bool = False) -> Any:
    """expat on a str: ['ok', forest, features] | ['err', msg]  (same shape as the impl worker's).
    html_entities: declare &nbsp; as the XHTML DTD does (docutils' html4css1 writer emits it for U+00A0)."""
    if html_entities:
        data = XHTML_ENTITIES + data
    feats = set()
    root = [1, None, [], []]
    stack = [root]

    def start(name: str, attrs: List[str]) -> None:
        node = [1, name, [[attrs[i], attrs[i + 1]] for i in range(0, len(attrs), 2)], []]
        stack[-1][3].append(node)
        stack.append(node)

    def chars(d: str) -> None:
        k = stack[-1][3]
        if k and k[-1][0] == 0:
            k[-1][1] += d
        else:
            k.append([0, d])
    p = expat.ParserCreate()
    p.ordered_attributes = True
    p.buffer_text = True
    p.StartElementHandler = start
    p.EndElementHandler = lambda name: stack.pop()
    p.CharacterDataHandler = chars
    p.CommentHandler = lambda d: feats.add('comment')
    p.ProcessingInstructionHandler = lambda t, d: feats.add('pi')
    p.StartCdataSectionHandler = lambda: feats.add('cdata')
    if not html_entities:
        p.StartDoctypeDeclHandler = lambda *a: feats.add('doctype')
    p.XmlDeclHandler = lambda *a: feats.add('xmldecl')
    p.SkippedEntityHandler = lambda name, is_pe: feats.add('entity:' + name)
    try:
        p.Parse(data.encode('utf-8'), True)
    except expat.ExpatError as e:
        return ['err', str(e)]
    except UnicodeEncodeError:
        return ['err', 'unicode']
    return ['ok', root[3], sorted(feats)]


# ------------------------------------------------------------------ project generator (whole-run stream)
# printable metacharacters only: none of these makes pydoctor take a fallback path or changes the layout of a value
STRICT = ['<', '>', '&', '"', "'", ';', '#', 'x', '0', '9', 'a', 'z', '=', '/', ']]>', '-->', '<!--', '<script>', '</script>',
          '<![CDATA[', '&lt;', '&amp;', '&#60;', '&#x3c;', '&nbsp;', '&bogus;', '&lt', '&#', '<zzq onzz="1">', '&zzent;', '<b onload="x">', '<zzq/>',
          '<zzq>x</zzq>', '<zzq onzz="1"/>', '<b>x</b>', '<img src="zzq.png" onerror="x"/>', '--> <zzq/>', ']]> <zzq/>',
          '--> <zzq onzz="1"/>', '--> <script>zzq()</script>', '<!-- x --> <zzq/>', '<i>zzq</i>']
DOCFORMATS = ['epytext', 'restructuredtext', 'google', 'numpy', 'plaintext']
BENIGN = 'x x'


def doc_fields(fmt: str, p: List[str]) -> str:
    """a function docstring in the given docformat with payloads as words of the description / type / return"""
    if fmt == 'epytext':
        return ('Summary word %s word.\n\nMore %s text.\n\n@param a: about %s here\n@type a: str or %s\n'
                '@return: the %s value\n@raise ValueError: when %s\n@see: also %s\n' % tuple(p[:7]))
    if fmt == 'restructuredtext':
        return ('Summary word %s word.\n\nMore %s text.\n\n:param a: about %s here\n:type a: str or %s\n'
                ':return: the %s value\n:raises ValueError: when %s\n\n.. note:: note %s here\n' % tuple(p[:7]))
    if fmt == 'google':
        return ('Summary word %s word.\n\nMore %s text.\n\nArgs:\n    a (str): about %s here\n    c (int or %s): c\n\n'
                'Returns:\n    the %s value\n\nRaises:\n    ValueError: when %s\n\nNote:\n    note %s here\n' % tuple(p[:7]))
    if fmt == 'numpy':
        return ('Summary word %s word.\n\nMore %s text.\n\nParameters\n----------\na : str\n    about %s here\nc : int or %s\n    c\n\n'
                'Returns\n-------\nstr\n    the %s value\n\nRaises\n------\nValueError\n    when %s\n\nNotes\n-----\nnote %s here\n' % tuple(p[:7]))
    return 'Summary word %s word.\n\nMore %s text. %s %s %s %s %s\n' % tuple(p[:7])


def doctest_block(fmt: str, payload: str) -> str:
    """a doctest block whose comment carries the payload (one comment token whatever it holds)"""
    if fmt == 'plaintext':
        return ''
    return '\n\n>>> value = 1 # note %s\n>>> value\n1\n' % payload


def markup_doc(fmt: str, pl: Dict[str, Any]) -> str:
    """a docstring whose payloads sit INSIDE docstring markup constructs: the explicit label of a cross-reference and of a
    hyperlink, inline code / emphasis, and -- reStructuredText family -- a role with a label, a comment, a substitution
    definition, a footnote and a hyperlink target"""
    if fmt == 'epytext':
        return ('Use L{%s <func>} and U{%s <http://example.org/x>} or L{%s <func>} and C{%s} here.\n\n'
                'Also L{%s <pkg.C.m>}, B{%s}, U{%s <http://example.org/%s>}.\n'
                % (pl['lab0'], pl['lab1'], pl['lab2'], pl['lab3'], pl['com'], pl['sub'], pl['foot'], pl['tgt']))
    if fmt == 'plaintext':
        return 'Use %s and %s or %s and %s here. %s %s %s %s\n' % (
            pl['lab0'], pl['lab1'], pl['lab2'], pl['lab3'], pl['com'], pl['sub'], pl['foot'], pl['tgt'])
    return ('Use `%s <func>` and `%s <http://example.org/x>`_ or :py:func:`%s <func>` and ``%s`` here.\n\n'
            '.. note: %s\n\n'
            '.. |sub| replace:: %s\n\n'
            'Text |sub| and [1]_ and target_ end.\n\n'
            '.. [1] Footnote %s here.\n\n'
            '.. _target: http://example.org/%s\n'
            % (pl['lab0'], pl['lab1'], pl['lab2'], pl['lab3'], pl['com'], pl['sub'], pl['foot'], pl['tgt'].replace(' ', '')))


def project(fmt: str, pl: Dict[str, Any]) -> Dict[str, Any]:
    """pl: site -> payload string.  Sites: modname, doc0..doc6 (docstring words), const, default, default2, annot,
    annot_str, deco, deco_kw, base_arg, attr_doc, depr (None = no deprecated site), dict_key, bytes."""
    r = repr
    doc = doc_fields(fmt, [pl['doc%d' % i] for i in range(7)]) + doctest_block(fmt, pl['doc0'])
    title = 'Section %s' % pl['doc1'].replace('\n', ' ')
    section = ''
    if fmt == 'restructuredtext':
        section = '\n\n%s\n%s\n\nText in the section %s.\n' % (title, '=' * max(4, len(title)), pl['doc2'])
    elif fmt == 'epytext':
        section = '\n\n%s\n%s\n  Text in the section %s.\n' % (title, '=' * len(title), pl['doc2'])
    init = [
        r('Package summary %s here.\n\nBody %s.' % (pl['doc0'], pl['doc1']) + section),
        'from typing import Literal, List',
        'from twisted.python.deprecate import deprecated',
        'from incremental import Version',
        '__docformat__ = %s' % r(fmt),
        'def deco(*a, **k):',
        '    return lambda f: f',
        'CONST = %s' % r(pl['const']),
        r('Constant doc %s.' % pl['attr_doc']),
        'TABLE = {%s: [%s]}' % (r(pl['dict_key']), r(pl['const'])),
        'PAIR = (%s, %s)' % (r(pl['default2']), r(pl['bytes'].encode('utf-8', 'replace'))),
        'class C(List[Literal[%s]]):' % r(pl['base_arg']),
        '    ' + r('Class summary %s.' % pl['doc2']),
        '    attr: Literal[%s] = %s' % (r(pl['annot']), r(pl['default'])),
        '    ' + r('Attribute doc %s.' % pl['attr_doc']),
        '    @deco(%s, key=%s)' % (r(pl['deco']), r(pl['deco_kw'])),
        '    def m(self, a=%s, *b: %s, c: Literal[%s] = %s, **d) -> Literal[%s]:' % (
            r(pl['default']), r(pl['annot_str']), r(pl['annot']), r(pl['default2']), r(pl['annot'])),
        '        ' + r(doc),
        '    @property',
        '    def prop(self) -> %s:' % r(pl['annot_str']),
        '        ' + r('Property %s.' % pl['doc3']),
        'def func(a: Literal[%s] = %s, /, b=(%s, [%s]), *, c=lambda q=%s: q) -> None:' % (
            r(pl['annot']), r(pl['default']), r(pl['default2']), r(pl['const']), r(pl['default'])),
        '    ' + r(doc),
    ]
    bts = r(pl['bytes'].encode('utf-8', 'replace'))
    init += ['def rawdefault(code=%s, *args, fallback=%s, number=1.5, flag=None) -> bytes:' % (bts, bts),
             '    ' + r('Bytes defaults %s.' % pl['doc6']),
             'class D:',
             '    ' + r('Class with bytes defaults.'),
             '    def run(self, code=%s, /, *, fallback=(%s, 2)) -> None:' % (bts, bts),
             '        ' + r('Run.')]
    init += ['def links():', '    ' + r('Links summary.\n\n' + markup_doc(fmt, pl))]
    if pl.get('extra') is not None:
        # one more docstring, taken as it is (dedicated projects for classes of docstring markup)
        init += ['def extra():', '    ' + r('Extra summary.\n\n' + pl['extra'])]
    if pl.get('depr') is not None:
        init += ['@deprecated(Version("pkg", 1, 2, 3), replacement=%s)' % r(pl['depr']),
                 'def old():',
                 '    ' + r('Old %s.' % pl['doc4']),
                 '@deprecated(Version("pkg", 1, 2, 3))',
                 'class Older:',
                 '    ' + r('Older %s.' % pl['doc5'])]
    files = {'pkg/__init__.py': '\n'.join(init) + '\n',
             'pkg/%s.py' % pl['modname']: r('Module %s doc.' % pl['doc6']) + '\nVALUE = %s\n' % r(pl['const'])}
    return {'files': files, 'root': 'pkg', 'docformat': fmt, 'project_name': 'proj'}


SITES = ['modname', 'doc0', 'doc1', 'doc2', 'doc3', 'doc4', 'doc5', 'doc6', 'const', 'default', 'default2', 'annot',
         'annot_str', 'deco', 'deco_kw', 'base_arg', 'attr_doc', 'depr', 'dict_key', 'bytes',
         'lab0', 'lab1', 'lab2', 'lab3', 'com', 'sub', 'foot', 'tgt']
MARKUP_SITES = ('lab0', 'lab1', 'lab2', 'lab3', 'com', 'sub', 'foot', 'tgt')
# characters that are markup (not words) in a docstring of some docformat, or that end lines: kept out of docstring payloads
DOC_MARKUP = set('{}@`*_|:\\\n\r\x0b\x0c\x1c\x1d\x1e\x85\u2028\u2029')
# characters a file name cannot hold / that change what pydoctor takes as the module name
NAME_BAD = set('/\x00.')


def totals(res: Dict[str, Any]) -> Dict[str, Dict[str, int]]:
    tot: Dict[str, Dict[str, int]] = {'elems': {}, 'attrs': {}, 'entities': {}}
    for page in res['pages'].values():
        for kind in tot:
            for k, n in page[kind].items():
                tot[kind][k] = tot[kind].get(k, 0) + n
    return tot


TAINT = re.compile('zzq|onzz|zzent|zzattr')


def oracle_project(job: Dict[str, Any], res: Dict[str, Any], base: Dict[str, Any], strict: bool, depr_site: bool = False,
                   new_names: bool = True) -> Optional[str]:
    """The property on one whole run, observed from the written pages:
      * every page is well-formed XML once characters illegal in XML are set aside;
      * no element, attribute or entity carries one of the marker names that only payloads hold (zzq, onzz, zzent, zzattr);
      * no element name, element@attribute name, entity or event handler / script URL occurs that does not also occur in
        the same project with the harmless payload (those come from the templates and from docstring markup);
      * strict payloads (printable metacharacters, no character that triggers a fallback rendering): summed over the pages the
        element / attribute / entity multisets are exactly those of the harmless project."""
    if res['exc']:
        return 'pydoctor raised: ' + res['exc'][:300]
    if not res['pages']:
        return 'no page written (status %s): %s' % (res['status'], res['log'][-300:])
    for name, page in sorted(res['pages'].items()):
        if not page['wf']:
            return 'page %s is not well-formed: %s near %r' % (name, page['err'], page['ctx'])
    a, b = totals(res), totals(base)
    for kind in ('elems', 'attrs', 'entities'):
        t = sorted(k for k in a[kind] if TAINT.search(k))
        if t:
            return 'payload text became markup: %s %s' % (kind, t)
        new = sorted(k for k in a[kind] if k not in b[kind])
        if new and new_names:
            return 'payload text became markup: %s %s do not occur with the harmless payload' % (kind, new)
    ha = sorted(set(h for p in res['pages'].values() for h in p['handlers']))
    hb = sorted(set(h for p in base['pages'].values() for h in p['handlers']))
    if [h for h in ha if h not in hb]:
        return 'event handlers / script URLs %s, the harmless project (templates) has %s' % (ha[:8], hb[:8])
    if strict:
        if len(res['pages']) != len(base['pages']):
            return 'pages written: %d, with the harmless payload: %d' % (len(res['pages']), len(base['pages']))
        for kind in ('elems', 'attrs', 'entities'):
            # <wbr> break opportunities are inserted into names at dots / case changes: their number follows the module name
            diff = {k: (a[kind].get(k, 0), b[kind].get(k, 0)) for k in set(a[kind]) | set(b[kind])
                    if a[kind].get(k, 0) != b[kind].get(k, 0) and k != 'wbr'
                    # docutils wraps the words of an inline literal in <span class="pre">: their number follows the text
                    and not (depr_site and k in ('span', 'span@class'))}
            if diff:
                return '%s differ from the harmless project (payload, harmless): %s' % (kind, dict(sorted(diff.items())[:8]))
    return None


class Check(PropertyCheck):
    id = 'C10'
    props_module = 'Props.C10'
    models = {'stan': 'XStan.v'}
    needs_gen = True
    gen_modules = ['gen_c10', 'gen_c10_code']
    rule = ('texts and attribute values: every string of length <= N over the alphabet < > & " \' ; # x a (N=3 quick, 4 '
            'thorough) in 4 stan contexts and through encode/attval/html2stan; random stan trees / raw XML / starttag '
            'calls / deprecation texts over the adversarial fragment list; whole runs over 5 docformats. non-trivial = '
            'the input holds at least one of < > & " or a control character; distinct inputs counted as a set')
    trusted_base = [
        'Coq 8.16.1 kernel (coqc, vm_compute for table facts and witnesses; no native_compute)',
        'no axioms (Print Assumptions: Closed under the global context for every theorem)',
        'extraction: ExtrOcamlBasic only; OCaml 4.13.1; coq/ocaml/driver.ml',
        'translator harness/gen/gen_c10.py (escape tables read from the live twisted / docutils / pydoctor modules, fail-closed)',
        'translator harness/gen/gen_c10_code.py (bodies of stanutils.html2stan and of the string part of deprecatedToUsefulText -> Gen/ReparseCode.v, fail-closed); '
        'primitives of Model/ReparseIR.v assumed as documented there: str.encode, regex class substitution (table evaluated from the live regex and lambda), '
        'XMLString = Model xml_load, str.replace / split / join / isidentifier tables',
        'correspondence harness harness/c10.py + harness/impl/c10_units.py, c10_project.py; expat (xml.parsers.expat) as the '
        'reference XML parser against which Spec/Xml.v is validated on every run',
        'modelled not verified: twisted template loading / slot filling / renderers, docutils reST parser and every '
        'visit_* of its HTML writer, pydoctor page templates: exercised only by the whole-run stream',
    ]
    manifest = {
        'text': ('Theorems over Model/Stan.v, DocutilsEsc.v, Html2Stan.v, DeprecateText.v for ALL inputs: both twisted escapers are '
                 'inverted by the XML reader of Spec/Xml.v and emit no < > (") and only the listed entities (C10_escape_roundtrip); '
                 'for every stan tree whose tag/attribute names are XML names the reader reads flatten(s) back as the tree, '
                 'adjacent text merged: well-formed, balanced, elements/attributes/text exactly those of the tree whatever '
                 'characters texts and attribute values hold (C10_flatten_reads_back, C10_no_markup_from_text); html2stan(encode t) '
                 'is one text node except for NO-BREAK SPACE (C10_html2stan_roundtrip_partial/_refuted; FORM FEED before cc2b510: _formfeed_old_refuted); docutils encode/attval are inverted and start tags read back (C10_docutils_escape, C10_starttag_safe_partial); '
                 'validate_identifier accepts only dotted identifiers (C10_identifier_guard); which non-XML characters survive '
                 '(C10_ctrl_chars_partial); the bodies of html2stan and deprecatedToUsefulText, translated from the current source on every run, interpret to the models (C10_code_html2stan_is_model, C10_code_deprecate_is_model); the reST generated for @deprecated is one body line and the replacement sits in one literal for EVERY decorator argument (C10_deprecate_one_line, C10_deprecate_literal; the old clean-up: _old_refuted). Tied to /repo by regenerated escape tables and byte-for-byte correspondence; whole-run '
                 'stream parses every page of tiny adversarial projects in every docformat.'),
        'note': ('Trusted: Coq kernel, extraction + OCaml driver, Python harness, expat as reference parser. Modelled not verified: '
                 'twisted template engine, docutils parser and writer visit methods, page templates (sampled by the whole-run stream). '
                 'Known findings: NO-BREAK SPACE makes the re-parse path fail (rendering dropped, pages stay well-formed); math \\text{} and javascript: URLs in docstrings. Fixed in /repo: cc2b510 (form feed not neutralised), 0e1361d: @deprecated replacement text leaving its reST literal.'),
        'technique': 'Coq proof (XML reader inverts the escapers; induction on stan trees) + regenerated tables + exhaustive/random correspondence + whole-run differential oracle',
    }
    assumptions = ['tag and attribute names of stan trees are ASCII XML names without colon (they come from templates and code, not from source text)',
                   'characters that are not XML Chars are set aside, as the property says (C10_ctrl_chars_partial states which)']

    # ------------------------------------------------------------------ generators
    def adv(self, maxn: int = 6, frags: Optional[List[str]] = None) -> str:
        fr = frags or FRAGS
        return ''.join(self.rng.choice(fr) for _ in range(self.rng.randint(0, maxn)))

    def rand_stan(self, depth: int) -> Any:
        if depth == 0 or self.rng.random() < 0.35:
            return [0, self.adv()]
        name = self.rng.choice(TAGS)
        keys = self.rng.sample(ATTRS, self.rng.randint(0, 3))
        kids = [self.rand_stan(depth - 1) for _ in range(self.rng.randint(0, 3))]
        return [1, name, [[k, self.adv()] for k in keys], kids]

    def stan_cases(self) -> List[Any]:
        n = 3 if self.tier == 'quick' else 4
        out: List[Any] = []
        for s in small_strings(n):
            out.append([0, [0, s]])                                        # a text alone
            out.append([0, [1, 'a', [['href', s]], []]])                    # an attribute value
            out.append([0, [1, 'p', [], [[0, s]]]])                         # text inside a tag
            h = len(s) // 2
            out.append([0, [1, '', [], [[0, s[:h]], [1, '', [], [[0, s[h:]]]], [1, 'br', [], []], [0, s]]]])  # split texts
        self.exhaustive = True
        self.stats['exhaustive_strings'] = len(small_strings(n))
        # boundary corpus
        for t in FRAGS + ['\ud800', 'a\udfffb', ']]', ']]>]]>', '&&', '&amp;amp;', '<' * 50, '\x00\x01\x02']:
            out.append([0, [0, t]])
            out.append([0, [1, 'img', [['alt', t], ['src', t]], []]])
        out.append([0, [1, 'br', [], [[0, '']]]])
        out.append([0, [1, 'br', [], [[1, '', [], []]]]])
        out.append([0, [1, 'd\xe9', [], []]])
        out.append([0, [1, 'a', [['h\xe9', 'x']], []]])
        out.append([0, [1, '', [['h\xe9', 'x']], [[0, 'y']]]])
        nrand = 3000 if self.tier == 'quick' else 40000
        for _ in range(nrand):
            out.append([0, self.rand_stan(3)])
        self.stats['random_stan'] = nrand
        return out

    def text_cases(self) -> List[Any]:
        n = 3 if self.tier == 'quick' else 4
        out: List[Any] = []
        strings = ['\x0c', 'a\x0cb', '\x0c<zzq/>\x0c', 'p\x0cq\x0b\x01'] + small_strings(n) + FRAGS
        nrand = 600 if self.tier == 'quick' else 20000
        strings += [self.adv(8) for _ in range(nrand)]
        for s in strings:
            if any(0xD800 <= ord(c) < 0xE000 for c in s):
                continue
            out.append([5, s])
            out.append([6, s])
            out.append([13, s])
        for s in strings[::7]:
            out.append([14, [s, None]])
            out.append([14, [s, ['c1']]])
        # node2stan over a LIST of nodes (the children of a reference: its label): Text leaves and inline nodes
        wf = ['<zzq/>', '<zzq onzz="1"/>', '<b>x</b>', '<img src="x" onerror="zzattr()"/>', 'the <b>old</b> one', '&lt;', '&amp;',
              '<zzq>x</zzq>', 'x', ' ', '<', '&', '--> <zzq/>', '<!-- c -->', '<![CDATA[x]]>', '\x01', '"', "'"]
        front = []
        for t in wf:
            front.append([15, [[0, t, []]]])
            front.append([15, [[0, 'see ', []], [1, t, ['c1']], [0, t, []]]])
        n15 = 200 if self.tier == 'quick' else 5000
        for _ in range(n15):
            items = []
            for _ in range(self.rng.randint(1, 4)):
                t = self.adv(3, wf + FRAGS) if self.rng.random() < 0.7 else self.rng.choice(wf)
                t = ''.join(ch for ch in t if not (0xD800 <= ord(ch) < 0xE000))
                items.append([0, t, []] if self.rng.random() < 0.6 else [1, t, self.rng.choice([[], ['c1'], ['a', 'b']])])
            out.append([15, items])
        return self.signature_cases() + front + out

    SIG_KINDS = ['bytes', 'str', 'list', 'call', 'dictkey', 'tuple', 'nested']

    @staticmethod
    def sig_expr(kind: str, p: str) -> str:
        b = repr(p.encode('utf-8', 'replace'))
        if kind == 'bytes':
            return b
        if kind == 'str':
            return repr(p)
        if kind == 'list':
            return '[%s, 1.5]' % b
        if kind == 'call':
            return 'bytes(%s)' % b
        if kind == 'dictkey':
            return '{%s: %s}' % (b, repr(p))
        if kind == 'tuple':
            return '(%s,)' % b
        return 'f(x=[%s], y=%s)' % (repr(p), b)

    def signature_cases(self) -> List[Any]:
        """default values of every constant kind that can hold text, as the signature shows them (format_signature)"""
        out = []
        corpus = ['<script>alert(2)</script>', '<img src="x" onerror="alert(1)"/>', '<zzq/>', '<zzq onzz="1">x</zzq>', '<br/>', '<b>x</b>',
                  '<p>', 'a&b', '&lt;', ']]>', 'p\x0cq', '--> <zzq/>', '"', "'", '\x01<zzq/>', '\xe9<zzq/>', '\n<zzq/>']
        for p in corpus:
            for kind in self.SIG_KINDS:
                out.append([16, [self.sig_expr(kind, p), self.sig_expr(kind, BENIGN), kind, p]])
        n = 120 if self.tier == 'quick' else 4000
        for _ in range(n):
            p = ''.join(ch for ch in self.adv(4) if not (0xD800 <= ord(ch) < 0xE000))
            kind = self.rng.choice(self.SIG_KINDS)
            out.append([16, [self.sig_expr(kind, p), self.sig_expr(kind, BENIGN), kind, p]])
        return out

    # raw XML: serialise random trees with varying lexical forms, then corrupt some
    def raw_xml(self, depth: int) -> str:
        if depth == 0 or self.rng.random() < 0.3:
            t = self.adv(4, ['x', 'a', ' ', '\n', '\t', '\r', '&amp;', '&lt;', '&gt;', '&quot;', '&apos;', '&#60;', '&#x3C;', '&#x3c;',
                             '&#038;', '>', '"', "'", ']]', ']', ';', '#', '\xe9', '\U0001f600', '&#65;', '&#x10FFFF;'])
            return t
        name = self.rng.choice(['a', 'b', 'div', 'x-y', 'x.y', '_q', 'A1'])
        s = '<' + name
        for k in self.rng.sample(['href', 'class', 'k_1', 'data-x', 'Z'], self.rng.randint(0, 3)):
            q = self.rng.choice('"\'')
            v = self.adv(3, ['x', ' ', '&amp;', '&lt;', '&quot;', '&apos;', '>', ';', '#', '&#65;', "'" if q == '"' else '"', '\xe9'])
            s += self.rng.choice([' ', '  ', '\n', '\t ']) + k + self.rng.choice(['=', ' =', '= ', ' = ']) + q + v + q
        s += self.rng.choice(['', ' ', '\n'])
        if self.rng.random() < 0.25:
            return s + '/>'
        s += '>'
        for _ in range(self.rng.randint(0, 3)):
            s += self.raw_xml(depth - 1)
        return s + '</' + name + self.rng.choice(['', ' ', '\n']) + '>'

    def corrupt(self, s: str) -> str:
        if not s:
            return self.adv(3)
        ops = self.rng.randint(1, 2)
        for _ in range(ops):
            i = self.rng.randrange(len(s) + 1)
            k = self.rng.random()
            if k < 0.4:
                s = s[:i] + self.rng.choice(['<', '>', '&', '"', "'", ';', '#', '/', '=', ' ', 'x', ']]>', '&#', '&#x', '&bogus;', '&#0;', '&#xD800;',
                                             '&#1114112;', '\x01', '\x0c', '\ufffe', '<!-- c -->', '<?pi x?>', '<![CDATA[x]]>', 'a:b', '&#X41;',
                                             ' k_1="1"', '<a>', '</a>', '<a/>', '\xe9=']) + s[i:]
            elif k < 0.8 and i < len(s):
                s = s[:i] + s[i + 1:]
            elif i < len(s):
                s = s[:i] + s[i:][::-1][:1] + s[i + 1:]
        return s

    def xml_cases(self) -> List[str]:
        n = 1200 if self.tier == 'quick' else 40000
        out = ['', 'x', '<a/>', '<a></a>', '<a b="1" b="2"/>', '<a b="<"/>', '<a b=1/>', '<a b/>', "<a b='1'c='2'/>", '<a  b="1"\n c="2"\t/>',
               '<a></b>', '<a>', '</a>', '<a></a >', '<a></ a>', '< a/>', '<a/ >', '&amp;', '&amp', '&;', '&#;', '&#x;', '&#65;', '&#x41;', '&#X41;',
               '&#0;', '&#9;', '&#xD7FF;', '&#xD800;', '&#xFFFE;', '&#x10000;', '&#x110000;', '&#00065;', ']]>', ']]', 'a]]>b', '<a b="]]>"/>', '>',
               '<!-- c -->', '<?pi?>', '<![CDATA[x]]>', '<!DOCTYPE a>', '<a:b/>', '<a xmlns="u"/>', '<\xe9/>', '<a \xe9="1"/>', '\x01', '\x0c', '\ufffe', '\x7f',
               '\r\n', '\r', 'a\rb', '<a b="x\ty\nz"/>', '<a b="&#10;"/>', "<a b='\"'/>", '<a b="\'"/>', '<a.b-c_d/>', '<-a/>', '<1a/>', '<a-/>',
               '<a><b><c/></b></a>', '<a>x<b/>y<b/>z</a>w', '<a/><a/>', 'x<a/>y', '<a b="1"></a>', '<a\n></a\n>', '<a b = "1"/>', '<a b="1"/ >']
        for _ in range(n):
            s = ''.join(self.raw_xml(3) for _ in range(self.rng.randint(1, 2)))
            if self.rng.random() < 0.6:
                s = self.corrupt(s)
            out.append(s)
        return out

    def starttag_cases(self) -> List[Any]:
        n = 500 if self.tier == 'quick' else 15000
        out = []
        tags = ['div', 'span', 'h1', 'h2', 'a', 'img', 'td', 'tt', 'DIV', 'h', 'h12', 'hx']
        keys = ['CLASS', 'class', 'ids', 'href', 'name', 'title', 'src', 'alt', 'HREF', 'classes', 'names', 'Title', 'colspan', 'id']
        tok = ['x', 'rst-', 'rst-x', 'language-', 'language-py', ' ', '\t', '\xa0', '\u2003', '<', '>', '&', '"', "'", '#', 'a b', '\n', '\x0c', '@', '\x1f']
        for _ in range(n):
            attrs = []
            for k in self.rng.sample(keys, self.rng.randint(0, 4)):
                if k == 'id' and self.rng.random() < 0.8:
                    continue
                if k.lower() in ('classes', 'ids', 'names'):
                    attrs.append([k, 1, [self.adv(3, tok) for _ in range(self.rng.randint(0, 3))]])
                else:
                    attrs.append([k, 0, self.adv(4, tok)])
            safe = ['x', 'rst-x', 'a-b', 'id1', 'x9']
            nids = [self.adv(3, tok)] * self.rng.randint(0, 1) + [self.rng.choice(safe) for _ in range(self.rng.randint(0, 2))]
            first_taken = bool(nids)
            for a in attrs:
                if a[0].lower() == 'ids':
                    a[2] = [(self.rng.choice(safe) if (first_taken or j > 0) else a[2][j]) for j in range(len(a[2]))]
                    first_taken = first_taken or bool(a[2])
            out.append([7, [self.rng.choice(tags), [self.adv(3, tok) for _ in range(self.rng.randint(0, 3))],
                            nids, int(self.rng.random() < 0.3),
                            int(self.rng.random() < 0.3), self.rng.choice(['\n', '', 'x']), attrs]])
        return out

    def depr_cases(self) -> List[Any]:
        n = 150 if self.tier == 'quick' else 4000
        out = []
        pk = ['pkg', 'a.b', 'a..b', '', '.', 'a-b', 'a b', '1a', 'a1', '_', '\xe9', 'a.\xb5', 'a\xb7', '\xb7a', '<b>', 'a\n', 'a\r', 'x`y', 'a.b.c_d', '\u2118', 'a\u0301']
        for p in pk:
            out.append([9, p])
        for _ in range(n):
            out.append([9, self.adv(4, ['a', '.', '_', '1', '-', ' ', '<', '\xe9', '\n', '\xb7', '\u0301', 'Z'])])
        rp = [None, 'new', 'a.b', 'x x', '<script>alert(1)</script>', 'a\nb', '', ' ', 'a``b', '`', '``', '\\', 'a\\', '*x*', 'x_', '|x|', 'http://x/<b>',
              'a\rb', 'a\r\r   .. raw:: html\r\r      <script>alert(1)</script>\r\r   x', 'a\u2028b', 'a\x0cb', 'a\x1cb',
              'a`` `t <javascript:alert(1)>`__ ``b', 'a.1', '1', 'a-b', '&amp;', ']]>',
              ' javascript:alert(1)//', 'x\n\n.. raw:: html\n\n   <script>alert(1)</script>',
              'x\n\n.. raw:: html\n\n   <zzq onzz="1"></zzq>\n\ny', 'x\n\n   .. raw:: html\n\n      <script>alert(1)</script>\n\n   y',
              'x\n\n.. note:: n', 'x\n\n* item', 'x\n\n   quoted', 'x\n\ny', '\n\n.. raw:: html\n\n   <b>x</b>', 'x\r\n\r\n.. raw:: html\r\n\r\n   <b>x</b>',
              'x\u2028\u2028.. raw:: html\u2028\u2028   <b>x</b>', 'x\n\n.. image:: javascript:alert(1)']
        for r in rp:
            out.append([10, ['f', 'pkg', '1.2.3', [] if r is None else [r]]])
        for _ in range(n):
            r = self.adv(5, FRAGS + ['`', '``', '*', '_', '|', 'new', '.', '\n\n', '\n\n', '.. raw:: html', '   ', '<b>x</b>', '.. note:: n'])
            out.append([10, [self.rng.choice(['f', 'g\xe9', '_h']), self.rng.choice(['pkg', 'a.b']), '1.2.3', [r]]])
        return out

    # ------------------------------------------------------------------ correspondence
    def is_nontrivial(self, s: str) -> bool:
        return any(c in s for c in '<>&"') or any(ord(c) < 32 for c in s)

    def correspondence(self) -> List[Violation]:
        out: List[Violation] = []
        self._nt: set = set()
        self._xml_pending: List[Any] = []
        self._caps = {}
        out += self.check_units()
        out += self.check_projects()
        out = self.most_telling(out)
        self.stats["distinct_nontrivial"] = len(self.nontrivial)
        return out

    @staticmethod
    def most_telling(out: List[Violation]) -> List[Violation]:
        """The driver reports the three shortest failing inputs. Of the decorator-argument failures keep the two that show
        the most (an injected script / marker element / hyperlink rather than a mere extra paragraph), so that a whole page
        with the injected element is among the reported ones as well."""
        def rank(v: Violation) -> Any:
            w = v.what
            sev = 0 if ("'script'" in w or "'zzq'" in w or "'img'" in w) else 1 if ("'a'" in w or 'became markup' in w) else 2
            return (sev, len(json.dumps(v.case)))
        for fn in (10, 15, 16):
            grp = [v for v in out if v.kind == 'oracle' and isinstance(v.case, list) and v.case and v.case[0] == fn]
            if len(grp) > 1:
                keep = sorted(grp, key=rank)[:1]
                out = [v for v in out if v not in grp or v in keep]
        return out

    def viol(self, out: List[Violation], kind: str, what: str, case: Any, expected: Any = None, observed: Any = None) -> None:
        # at most 6 per kind of message and per kind of case, so that one (possibly known) class cannot hide another
        key = (kind, what[:24], case[0] if isinstance(case, list) else 'project')
        self._caps[key] = self._caps.get(key, 0) + 1
        if self._caps[key] <= 6:
            out.append(Violation(kind, what, case=case, expected=expected, observed=observed))

    def check_units(self, oracle_only: bool = False, only: Optional[List[Any]] = None) -> List[Violation]:
        out: List[Violation] = []
        if only is not None:
            cases: List[Any] = list(only)
        else:
            cases = self.stan_cases() + self.text_cases() + self.starttag_cases() + self.depr_cases()
            xmls = self.xml_cases()
            cases += [[3, s] for s in xmls]
            cases += [[8, s] for s in xmls if '<!' not in s and '<?' not in s and ':' not in s and 'xmlns' not in s
                      and not re.search(r'&#(9|10|13|x0*[9aAdD]);', s)]
        self.evaluations += len(cases)
        impl = lib.run_impl_worker('c10_units.py', cases, jobs=16 if len(cases) > 4000 else 4)
        # what the model is asked: fn 13 = html2stan(encode t) -> two model calls; fn 14 has no model counterpart (oracle only)
        minputs: List[str] = []
        mindex: List[Tuple[int, str]] = []
        for i, c in enumerate(cases):
            fn = c[0]
            if fn in (0,):
                minputs += [enc([0, c[1]]), enc([11, c[1]])]
                mindex += [(i, 'flatten'), (i, 'norm')]
            elif fn in (3, 5, 6, 7, 8, 9, 10):
                minputs.append(enc(c))
                mindex.append((i, 'same'))
                if fn in (8, 10):
                    # third leg: the code translated from the current source (Gen/ReparseCode.v), interpreted
                    minputs.append(enc([17 if fn == 8 else 18, c[1]]))
                    mindex.append((i, 'code'))
            elif fn == 13:
                minputs.append(enc([5, c[1]]))
                mindex.append((i, 'enc'))
            elif fn == 15:
                for k, item in enumerate(c[1]):
                    minputs.append(enc([5, nul_dropped(item[1])]))
                    mindex.append((i, 'enc%d' % k))
        mres = self.model('stan', minputs) if not oracle_only else []
        by_case: Dict[int, Dict[str, Any]] = {}
        for (i, tag), r in zip(mindex, mres):
            by_case.setdefault(i, {})[tag] = dec(r)
        # second round for fn 13: html2stan of the model's own encode output
        second = [(i, enc([8, d['enc']])) for i, d in by_case.items() if 'enc' in d]
        for i, d in by_case.items():
            if 'enc0' in d:
                html = ''
                for k, item in enumerate(cases[i][1]):
                    piece = m_text(d['enc%d' % k])
                    if item[0] == 1:
                        cls = ' '.join('rst-' + x for x in item[2])
                        piece = ('<span class="%s">' % cls if cls else '<span>') + piece + '</span>'
                    html += piece
                second.append((i, enc([8, html])))
        if second:
            for (i, _), r in zip(second, self.model('stan', [s for _, s in second])):
                by_case[i]['h2s'] = dec(r)
        for i, (c, o) in enumerate(zip(cases, impl)):
            fn = c[0]
            self.count('fn_%d' % fn)
            if isinstance(o, list) and o and o[0] == 'exc':
                self.viol(out, 'correspondence', 'real code raised %s on this input: %s' % (o[1], o[2][-300:]), c, observed=o[:2])
                continue
            m = by_case.get(i, {})
            if self.is_nontrivial(''.join(strings_of(c))):
                self.nontrivial.add(json.dumps(c))
            if fn == 0:
                msg = oracle_flatten(c, o)
                if msg:
                    self.viol(out, 'oracle', msg, c, observed=o)
                if oracle_only:
                    continue
                mf = m['flatten']
                model_obs = [1, m_text(mf[1])] if mf[0] == 1 else [0]
                if model_obs != o[:2]:
                    self.viol(out, 'correspondence', 'Model.Stan.flatten and stanutils.flatten disagree', c, model_obs, o[:2])
                elif o[0] == 1 and o[2][0] == 'ok' and not ILLEGAL1.search(o[1]):
                    # spec validation: expat's reading of the real output is Spec.StanXml.norm of the tree
                    want = norm_forest(m_forest(m['norm']))
                    got = o[2][1][0][3]
                    if want != got:
                        self.viol(out, 'specvalidation', 'Spec.StanXml.norm disagrees with expat on the real flatten output', c, want, got)
                self.count('flatten_' + ('ok' if o[0] == 1 else 'encoding_error'))
            elif fn == 3:
                if oracle_only:
                    continue
                self._xml_pending.append((c[1], None, o))
                self.count('xml_expat_' + o[0])
            elif fn in (5, 6):
                if oracle_only:
                    continue
                mt = m_text(m['same'])
                if mt != o:
                    self.viol(out, 'correspondence', 'Model.DocutilsEsc.%s and docutils disagree' % ('encode' if fn == 5 else 'attval'), c, mt, o)
            elif fn == 7:
                msg = oracle_starttag(c, o)
                if msg:
                    self.viol(out, 'oracle', msg, c, observed=o)
                if oracle_only:
                    continue
                mm = m['same']
                mo = [1, m_text(mm[1])] if mm[0] == 1 else [0]
                if mo != o:
                    self.viol(out, 'correspondence', 'Model.DocutilsEsc.starttag and HTMLTranslator.starttag disagree', c, mo, o)
                self.count('starttag_' + ('ok' if o[0] == 1 else 'assert'))
            elif fn == 8:
                if oracle_only:
                    continue
                mm = m['same']
                if mm[0] == 1:
                    ms = m_stan(mm[1])
                    mo: Any = [1, [1, ms[1], ms[2], canon_kids(ms[3])]]
                elif mm[0] == 2:
                    continue
                else:
                    mo = [0]
                if o[0] == 3:
                    continue
                if o[0] == 1 and has_feature([o[1][:1] + ['x'] + o[1][2:]]):
                    self.count('html2stan_outside_subset')      # non-ASCII / colon names: outside the modelled XML subset
                    continue
                if mo != o:
                    self.viol(out, 'correspondence', 'Model.Html2Stan.html2stan and stanutils.html2stan disagree', c, mo, o)
                cm = m.get('code')
                if cm is not None:
                    if cm[0] == 1:
                        cs = m_stan(cm[1])
                        co: Any = [1, [1, cs[1], cs[2], canon_kids(cs[3])]]
                    else:
                        co = [cm[0]]
                    self.count('code_leg_html2stan')
                    if co != o:
                        self.viol(out, 'correspondence', 'the interpreted translation of html2stan (Gen/ReparseCode.v) and stanutils.html2stan disagree', c, co, o)
                self.count('html2stan_' + ('ok' if o[0] == 1 else 'parse_error'))
            elif fn == 9:
                if oracle_only:
                    continue
                if int(m['same']) != o:
                    self.viol(out, 'correspondence', 'Model.DeprecateText.validate_identifier and deprecate disagree', c, int(m['same']), o)
                self.count('ident_%d' % o)
            elif fn == 10:
                msg = self.oracle_depr(c, o)
                if msg:
                    self.viol(out, 'oracle', msg, c, observed=o[:5] if isinstance(o, list) else o)
                if oracle_only:
                    continue
                mm = m['same']
                mo = [1, m_text(mm[1]), m_text(mm[2])] if mm[0] == 1 else [0]
                if mo != (o[:3] if o[0] == 1 else o):
                    self.viol(out, 'correspondence', 'Model.DeprecateText and extensions.deprecate disagree on the reST text', c, mo, o[:3])
                if mm[0] == 1:
                    self.count('depr_breaks_%d' % mm[3])
                cm = m.get('code')
                if cm is not None:
                    co = [1, m_text(cm[1])] if cm[0] == 1 else [cm[0]]
                    self.count('code_leg_deprecate')
                    if co != (o[:2] if o[0] == 1 else o):
                        self.viol(out, 'correspondence', 'the interpreted translation of deprecatedToUsefulText (Gen/ReparseCode.v) and extensions.deprecate disagree', c, co, o[:2])
            elif fn == 13:
                msg = oracle_reparse(c, o)
                if msg:
                    self.viol(out, 'oracle', msg, c, observed=o)
                if oracle_only:
                    continue
                mm = m['h2s']
                if mm[0] == 1:
                    ms = m_stan(mm[1])
                    mo = [1, [1, ms[1], ms[2], canon_kids(ms[3])]]
                else:
                    mo = [0]
                if mo != o:
                    self.viol(out, 'correspondence', 'model and real html2stan(encode(t)) disagree', c, mo, o)
                self.count('reparse_' + ('ok' if o[0] == 1 else 'parse_error'))
            elif fn == 14:
                msg = oracle_reparse(c, o)
                if msg:
                    self.viol(out, 'oracle', msg, c, observed=o)
                self.count('node2stan_%s' % o[0])
            elif fn == 16:
                msg = oracle_signature(c, o)
                if msg:
                    self.viol(out, 'oracle', msg, c, observed=o)
                self.count('signature_%s_%s' % (c[1][2], 'ok' if o[0][0] == 1 else 'dropped'))
            elif fn == 15:
                msg = oracle_label(c, o)
                if msg:
                    self.viol(out, 'oracle', msg, c, observed=o)
                self.count('node2stan_list_%s' % o[0])
                if oracle_only:
                    continue
                mm = m.get('h2s')
                if mm is None:
                    continue
                if mm[0] == 1:
                    ms = m_stan(mm[1])
                    mo = [1, [1, ms[1], ms[2], canon_kids(ms[3])]]
                else:
                    mo = [0]
                if mo != o and o[0] != 3:
                    self.viol(out, 'correspondence', 'model (encode per text, html2stan of the whole) and real node2stan(list of nodes) disagree', c, mo, o)
        if not oracle_only:
            out += self.validate_xml_spec()
            if self.tier == 'thorough':
                # second evaluation path: the same model evaluated by the kernel's VM inside coqc (cross-checks extraction)
                idx = list(range(0, len(minputs), max(1, len(minputs) // 300)))[:300]
                sample = [minputs[k] for k in idx]
                vm = lib.run_model_vm('Model.StanRun', sample)
                bad = [k for k, a, b in zip(idx, vm, [mres[k] for k in idx]) if dec(a) != dec(b)]
                self.stats['vm_compute_crosscheck'] = len(sample)
                if bad:
                    out.append(Violation('correspondence', 'extracted OCaml model and vm_compute disagree on input %s' % minputs[bad[0]][:200],
                                         case=None, found_input=False))
        for c in cases[5:8] + cases[-3:]:
            self.sample(c)
        return out


    def validate_xml_spec(self) -> List[Violation]:
        """Spec.Xml.read against expat: the string is wrapped in one root element for both (expat wants a document)."""
        out: List[Violation] = []
        pend, self._xml_pending = self._xml_pending, []
        strings = [p[0] for p in pend]
        wrapped = ['<c10root>' + s + '</c10root>' for s in strings]
        mres = self.model('stan', [enc([3, eol(w)]) for w in wrapped])
        agree = 0
        for s, w, r in zip(strings, wrapped, mres):
            e = parse(w) if not any(0xD800 <= ord(ch) < 0xE000 for ch in w) else ['err', 'surrogate']
            mm = dec(r)
            got = None
            if mm[0] == 1:
                f = norm_forest(m_forest(mm[1]))
                if len(f) == 1 and f[0][0] == 1:
                    got = f
            want = None
            if e[0] == 'ok' and not e[2] and not has_feature(e[1]):
                want = e[1]
                # white-space character references in attribute values are not normalised by XML; the comparison maps
                # literal white space to a space on both sides
                want = norm_forest(want)
            if got != want:
                if len(out) < 5:
                    out.append(Violation('specvalidation', 'Spec.Xml.read disagrees with expat (defect of the check, not of pydoctor)',
                                         case=[3, s], expected=want, observed=got, found_input=False))
            else:
                agree += 1
                self.count('xml_' + ('accepted' if want is not None else 'rejected'))
        self.stats['xml_spec_agreements'] = agree
        return out

    def oracle_depr(self, case: Any, o: Any) -> Optional[str]:
        """The deprecation notice rendered by the REAL reST pipeline from a decorator argument: well-formed, and apart from
        the <span> elements docutils puts around the words of a literal it holds exactly the elements of a harmless
        replacement; attributes are class attributes only; no entity reference."""
        if o[0] != 1:
            return None
        name, package, version, repl = case[1]
        forest = o[5]
        if forest[0] != 'ok':
            return 'deprecation notice is not well-formed: %s' % forest[1]
        els, ats, _ = forest_names(forest[1][0][3])
        if 'fallback' in els:
            return None       # to_stan failed and the caller falls back: nothing of the notice is emitted
        if repl and self.is_dotted_identifier(repl[0]):
            return None       # a reference: handed to the linker on purpose
        want = ['div', 'tt', 'tt'] if repl else ['div', 'tt']
        got = sorted(e for e in els if e != 'span')
        if forest[2]:
            return 'deprecation notice holds entity references %s' % forest[2]
        if collections.Counter(got) - collections.Counter(want):
            return 'decorator argument %r became markup: elements %s (a harmless replacement gives %s + spans)' % (
                repl[0] if repl else None, sorted(els), want)
        bad = sorted(set(a for a in ats if a not in ('div@class', 'span@class', 'tt@class')))
        if bad:
            return 'decorator argument %r became markup: attributes %s' % (repl[0] if repl else None, bad)
        return None

    @staticmethod
    def is_dotted_identifier(s: str) -> bool:
        return all(p.isidentifier() for p in s.split('.'))

    # ------------------------------------------------------------------ whole runs
    def payloads(self, fmt: str, strict: bool) -> Dict[str, Any]:
        pl: Dict[str, Any] = {}
        for site in SITES:
            p = self.adv(4, STRICT if strict else None)
            if strict:
                # short values: the colouriser wraps long lines (a layout element that follows the length, not the content)
                while len(p) > 24:
                    p = self.adv(3, STRICT)
                if not p:
                    p = self.rng.choice(STRICT)
            if site.startswith('doc') or site == 'attr_doc' or site in MARKUP_SITES:
                p = ''.join(ch for ch in p if ch not in DOC_MARKUP).strip()
                p = re.sub(r'\s+', ' ', p)
                if p.startswith('>>>') or not p:
                    p = 'w' + p
                if site == 'doc3':
                    # the type field: its text is a type expression (quotes, commas, white space ... are its markup)
                    p = BENIGN if strict else (re.sub(r'\s+', '', p) or 'w')
            elif site == 'modname':
                p = ''.join(ch for ch in p if ch not in NAME_BAD and ord(ch) >= 32 and not (0xD800 <= ord(ch) < 0xE000))[:10].strip()
                p = p.encode('utf-8', 'ignore').decode('utf-8')
                if not p or p in ('__init__',):
                    p = 'm<b>'
                if strict:
                    p = 'x' + p    # the name index groups names by first letter: same letter as the harmless module
            if site == 'lab3':
                # the inline-literal site: docutils puts a token with a word-wrap point into <span class="pre">: always one such token
                p = 'x--' + (re.sub(r'\s+', '', p) or 'w')
            elif site == 'depr':
                p = 'x-x'      # this site is covered by the unit stream (fn 10) and by one dedicated project
            elif site == 'annot_str':
                p = ') ' + p   # a string annotation that is not an expression, like the harmless one
            pl[site] = ''.join(ch for ch in p if not (0xD800 <= ord(ch) < 0xE000))
        pl['extra'] = 'Formula x x here.'
        return pl

    def benign(self, fmt: str, with_depr: bool = True) -> Dict[str, Any]:
        pl = {s: BENIGN for s in SITES}
        pl['modname'] = 'x x'
        pl['depr'] = 'x-x'
        pl['lab3'] = 'x--x'
        pl['extra'] = 'Formula x x here.'
        if not with_depr:
            pl['depr'] = None
        return pl

    def project_jobs(self, n_per_format: int) -> List[Dict[str, Any]]:
        jobs = []
        for fmt in DOCFORMATS:
            jobs.append({'kind': 'benign', 'fmt': fmt, 'payloads': self.benign(fmt)})
            for _ in range(n_per_format):
                jobs.append({'kind': 'strict', 'fmt': fmt, 'payloads': self.payloads(fmt, True)})
                jobs.append({'kind': 'wild', 'fmt': fmt, 'payloads': self.payloads(fmt, False)})
        # the corpus: one fixed nasty project per docformat
        for fmt in DOCFORMATS:
            pl = {s: '<script>alert(1)</script>&lt;]]>-->"\'\x01' for s in SITES}
            pl['modname'] = '<b>&amp;"\''
            pl['depr'] = 'x-x'
            pl['extra'] = 'Formula x x here.'
            for s in SITES:
                if s.startswith('doc') or s == 'attr_doc' or s in MARKUP_SITES:
                    pl[s] = '<script>alert(1)</script>&lt;]]>-->"\'&nbsp;\x01'
            jobs.append({'kind': 'wild', 'fmt': fmt, 'payloads': pl})
        # well-formed markup as the label of a cross-reference / hyperlink, and behind a comment / CDATA delimiter
        for fmt in DOCFORMATS:
            pl = self.benign(fmt)
            pl.update(lab0='<img src="x" onerror="zzattr()"/>', lab1='the <b>old</b> one', lab2='<zzq onzz="1"/>',
                      lab3='x--<zzq>x</zzq>', com='old --> <script>zzq()</script>', sub='<b>x</b> --> <zzq/>',
                      foot=']]> <zzq onzz="1"/>', tgt='<zzq/>', bytes='<img src="x" onerror="zzattr()"/><script>zzq()</script>',
                      default='<zzq onzz="1"/>', default2='<b>x</b>', const='<zzq/>')
            jobs.insert(0, {'kind': 'strict', 'fmt': fmt, 'payloads': pl})
        # classes of docstring MARKUP that reach the page as live script (known findings on the unchanged tree)
        for fmt, cls, text in [
                ('restructuredtext', 'math-text', 'Formula :math:`\\text{<zzq onzz="1">x</zzq>}` here.'),
                ('restructuredtext', 'math-text', 'Formula:\n\n.. math::\n\n   \\text{<b onclick="zzattr()">bold</b>} + 1\n'),
                ('epytext', 'math-text', 'Formula M{\\text{<zzq onzz="1">x</zzq>}} here.'),
                ('restructuredtext', 'script-url', 'Word javascript:zzattr() here.'),
                ('restructuredtext', 'script-url', 'See `label <javascript:zzattr()>`_ here.'),
                ('epytext', 'script-url', 'See U{label <javascript:zzattr()>} here.')]:
            pl = self.benign(fmt)
            pl['extra'] = text
            jobs.append({'kind': 'strict', 'fmt': fmt, 'payloads': pl, 'site': 'extra', 'class': cls})
        # the decorator-argument site, end to end: texts that would leave their reST literal if the clean-up of
        # extensions.deprecate were weaker (line separators, blank line + explicit markup, back-quotes, edge white space)
        for depr in ['a\r\r   .. raw:: html\r\r      <script>alert(1)</script>\r\r   x',
                     'x\n\n.. raw:: html\n\n   <script>alert(1)</script>',
                     'x\n\n.. raw:: html\n\n   <zzq onzz="1"></zzq>\n\ny',
                     'x\n\n   .. raw:: html\n\n      <zzq onzz="1"></zzq>\n\n   y',
                     ' javascript:alert(1)//', 'a`` `t <javascript:alert(1)>`__ ``b']:
            pl = self.benign('restructuredtext')
            pl['depr'] = depr
            jobs.append({'kind': 'strict', 'fmt': 'restructuredtext', 'payloads': pl, 'site': 'depr'})
        return jobs

    def check_projects(self, n_per_format: Optional[int] = None) -> List[Violation]:
        out: List[Violation] = []
        if n_per_format is None:
            n_per_format = 4 if self.tier == 'quick' else 150
        jobs = self.project_jobs(n_per_format)
        specs = [project(j['fmt'], j['payloads']) for j in jobs]
        res = lib.run_impl_worker('c10_project.py', specs, jobs=min(16, max(1, len(specs) // 4)), timeout=3000)
        base = {j['fmt']: r for j, r in zip(jobs, res) if j['kind'] == 'benign'}
        self.evaluations += len(jobs)
        self.stats['projects'] = len(jobs)
        self.stats['pages_parsed'] = sum(len(r['pages']) for r in res)
        self.stats['illegal_chars_set_aside'] = sum(p['illegal'] for r in res for p in r['pages'].values())
        for j, spec, r in zip(jobs, specs, res):
            msg = oracle_project(spec, r, base[j['fmt']], j['kind'] == 'strict', j.get('site') == 'depr')
            self.count('project_' + j['fmt'])
            self.count('project_' + j['kind'])
            if j['kind'] != 'benign':
                self.nontrivial.add(json.dumps(j['payloads'], sort_keys=True))
            if msg:
                self.viol(out, 'oracle', msg, {'project': spec, 'payloads': j['payloads'], 'docformat': j['fmt'], 'strict': j['kind'] == 'strict',
                           'depr_site': j.get('site') == 'depr', 'class': j.get('class')},
                          observed={k: v for k, v in r.items() if k != 'pages'})
        if specs:
            self.sample({'project_files': list(specs[1]['files'].keys()), 'payloads': jobs[1]['payloads']})
        return out

    # ------------------------------------------------------------------ search / known / replay
    def search(self, broken: List[Violation]) -> List[Violation]:
        """Oracle only, against the real code, on a fresh and larger stream."""
        self.rng.seed(self.seed + 1)
        save = self.tier
        found: List[Violation] = []
        try:
            self.tier = 'quick'
            for round_ in range(3):
                vs = [v for v in self.check_units(oracle_only=True) if v.kind == 'oracle']
                vs += [v for v in self.check_projects(3) if v.kind == 'oracle']
                known, _ = lib.load_known_findings(self.id)
                fresh = [v for v in vs if self.classify_known(v, known) is None]
                if fresh:
                    return fresh
                found = vs
        finally:
            self.tier = save
        return found

    _known_cache: Dict[str, bool] = {}
    _caps: Dict[Any, int] = {}

    def classify_known(self, v: Violation, known: List[dict]) -> Optional[dict]:
        for k in known:
            m = k.get('match', {})
            if m.get('kind') == 'docstring-markup-class':
                c = v.case
                if v.kind == 'oracle' and isinstance(c, dict) and c.get('class') == m['class'] and 'payloads' in c:
                    pl = c['payloads']
                    text = pl.get('extra') or ''
                    others = all(pl[s] == {'depr': 'x-x', 'lab3': 'x--x'}.get(s, BENIGN) for s in SITES)
                    if others and m['trigger'] in text:
                        # exactly this class: the same docstring with the trigger defused passes the oracle on the real code
                        key = json.dumps([c['docformat'], text])
                        if key not in self._known_cache:
                            pl2 = dict(pl)
                            pl2['extra'] = text.replace(m['trigger'], m['defused'])
                            r2, b2 = lib.run_impl_worker('c10_project.py', [project(c['docformat'], pl2),
                                                                            project(c['docformat'], self.benign(c['docformat']))])
                            # (the defused docstring still is markup -- a link, a formula --: only well-formedness,
                            # marker names and script handlers are asked of it)
                            self._known_cache[key] = oracle_project({}, r2, b2, False, new_names=False) is None
                        if self._known_cache[key]:
                            return k
                continue
            if m.get('kind') == 'reparse-fails-on-char':
                c = v.case
                if v.kind == 'oracle' and isinstance(c, list) and len(c) == 2 and c[0] in (13, 14):
                    t = c[1] if c[0] == 13 else c[1][0]
                    obs = v.observed
                    failed = isinstance(obs, list) and obs and obs[0] == 0
                    chars = [kk['match']['char'] for kk in known if kk.get('match', {}).get('kind') == 'reparse-fails-on-char']
                    if failed and m['char'] in t:
                        # exactly this class: the same text without the known characters passes the oracle on the real code
                        t2 = ''.join(ch for ch in t if ch not in chars)
                        c2 = [13, t2] if c[0] == 13 else [14, [t2, c[1][1]]]
                        key = json.dumps(c2)
                        if key not in self._known_cache:
                            o2 = lib.run_impl_worker('c10_units.py', [c2])[0]
                            self._known_cache[key] = oracle_reparse(c2, o2) is None
                        if self._known_cache[key]:
                            return k
                continue
            if m.get('kind') == 'deprecated-replacement-leaves-literal':
                repl = None
                c = v.case
                if isinstance(c, list) and len(c) == 2 and c[0] == 10 and c[1][3]:
                    repl = c[1][3][0]
                elif isinstance(c, dict) and 'payloads' in c:
                    # a whole run: every other site holds the harmless payload
                    pl = c['payloads']
                    if all(pl[s] == {'lab3': 'x--x'}.get(s, BENIGN) for s in SITES if s != 'depr') and pl.get('depr'):
                        repl = pl['depr']
                if v.kind != 'oracle' or repl is None or self.is_dotted_identifier(repl):
                    continue
                trigger = any(ch in repl for ch in m['chars']) or repl != repl.strip() or not repl.strip()
                if not trigger:
                    continue
                if isinstance(c, dict):
                    return k
                # exactly this class: with the triggers removed (white space collapsed, back-quotes replaced) the same
                # argument passes the oracle on the real code
                t2 = ' '.join(repl.replace('`', "'").split())
                c2 = [10, [c[1][0], c[1][1], c[1][2], [t2]]]
                key = json.dumps(c2)
                if key not in self._known_cache:
                    o2 = lib.run_impl_worker('c10_units.py', [c2])[0]
                    self._known_cache[key] = self.oracle_depr(c2, o2) is None
                if self._known_cache[key]:
                    return k
        return None

    def replay(self, data: Any) -> int:
        case = data['input']
        if isinstance(case, dict) and 'project' in case:
            spec = case['project']
            bspec = project(case['docformat'], self.benign(case['docformat'], with_depr=case['payloads'].get('depr') is not None))
            r, b = lib.run_impl_worker('c10_project.py', [spec, bspec])
            msg = oracle_project(spec, r, b, bool(case.get('strict')), bool(case.get('depr_site')))
            print('project :', json.dumps(case['payloads'])[:1500])
            print('docformat:', case['docformat'])
            for name, page in sorted(r['pages'].items()):
                if not page['wf']:
                    print('page %s: NOT well-formed: %s near %r' % (name, page['err'], page['ctx']))
            print('property: every page parses as XML and holds exactly the elements/attributes of the harmless project')
            print('result  :', msg or 'holds on this input')
            return 1 if msg else 0
        # a unit case: the oracle on the real code, and the model/implementation comparison
        b, _ = lib.build_model(self.id + '_stan', 'XStan.v')
        oracle_only = b is None
        if b is not None:
            self.binaries['stan'] = b
        self._xml_pending = []
        self._caps = {}
        o = lib.run_impl_worker('c10_units.py', [case])[0]
        print('case    :', json.dumps(case)[:1500])
        print('observed:', json.dumps(o)[:1500])
        if b is not None and case[0] in (0, 3, 5, 6, 7, 8, 9, 10):
            print('model   :', lib.run_model(b, [enc(case)])[0][:800])
        vs = self.check_units(oracle_only=oracle_only, only=[case])
        for v in vs:
            print('%-8s: %s' % (v.kind, v.what[:600]))
        if not vs:
            print('property: holds on this input (oracle and model/implementation correspondence)')
        return 1 if vs else 0
