"""C02 -- the object model is a coherent tree with a consistent name registry.

Two correspondence streams (DESIGN.md 5.C02):
 (i)  operation sequences applied through the REAL API (harness/impl/c02_ops.py) and through Model/Registry.v;
      the canonical dumps are diffed, and the Coq invariant (extracted inv_check) is cross-checked against the
      Python oracle on every history;
 (ii) generated source projects analysed by the real builder (harness/impl/c02_project.py); the Python oracle
      states the property text directly on the observed System."""
from __future__ import annotations
import itertools, json, re
from typing import Any, Dict, List, Optional, Tuple
from urllib.parse import quote
import lib
from lib import PropertyCheck, Violation, enc, dec

# ------------------------------------------------------------------ names
SYM = {1: 'a', 2: 'b', 3: 'c', 4: 'd', 5: 'e', 100: 'index', 101: 'moduleIndex', 102: 'classIndex',
       103: 'nameIndex', 104: 'undoccedSummary', 105: 'all-documents'}
SUMMARY_NAMES = ['moduleIndex', 'classIndex', 'nameIndex', 'undoccedSummary', 'all-documents']
CLSN = ['Module', 'Package', 'Class', 'Function', 'Attribute']
METHOD_KINDS = (500, 600, 700)


def rname(n: Any) -> str:
    return SYM[n[0]] + ''.join(' %d' % i for i in n[1])


def rpath(p: Any) -> str:
    return '.'.join(rname(n) for n in p)


def ops_for_impl(ops: List[Any]) -> List[Any]:
    out = []
    for o in ops:
        if o[0] == 0:
            out.append([0, o[1], rname(o[2]), o[3]])
        elif o[0] == 1:
            out.append([1, o[1], rname(o[2]), o[3], o[4]])
        elif o[0] == 2:
            out.append([2, o[1], o[2], rname(o[3])])
        else:
            out.append(o)
    return out


def ops_for_model(ops: List[Any]) -> str:
    out = []
    for o in ops:
        if o[0] == 0:
            out.append([0, o[1], o[2], None if o[3] is None else [o[3]]])
        elif o[0] == 3:
            out.append([3, o[1], [None if b is None else [b] for b in o[2]]])
        else:
            out.append(o)
    return enc(out)


def opt(x: Any) -> Any:
    return x[0] if x else None


def canon_model(out: Any) -> Dict[str, Any]:
    failed, allobj, objects, roots, pages, inv, guarded, unproc, mros = out
    return {
        'failed': opt(failed),
        'allobjects': [[rpath(p), i] for p, i in allobj],
        'objects': [[rname(n), opt(par), CLSN[cl], kind, [[rname(k), c] for k, c in cont],
                     sorted([rname(k), rpath(p)] for k, p in al), [opt(b) for b in bases], list(subs), bool(sup)]
                    for n, par, cl, kind, cont, al, bases, subs, sup in objects],
        'roots': list(roots),
        'pages': [[i, None if not f else quote(rpath(f[0])) + '.html'] for i, f in pages],
        'unprocessed': list(unproc), 'inv': bool(inv), 'guarded': bool(guarded), 'mros': mros,
    }


def canon_impl(r: Any, ncreated: int) -> Dict[str, Any]:
    if r['failed'] is not None:
        return {'failed': r['failed']}
    obs = r['obs']
    objs = obs['objects']
    return {
        'failed': None,
        'allobjects': obs['allobjects'],
        'objects': [[o['name'], o['parent'], o['cls'], o['kind'], o['contents'], sorted(o['aliases']),
                     o['bases'] or [], o['subs'] or [], o['sup']] for o in objs[:ncreated]],
        'roots': obs['roots'],
        'pages': [[i, None if objs[i]['url'] is None else objs[i]['url'].split('#')[0]] for _, i in obs['allobjects']],
        'unprocessed': obs['unprocessed'],
    }


# ------------------------------------------------------------------ the property, stated on an observation
def oracle(obs: Any, postprocessed: bool = True) -> List[Dict[str, Any]]:
    """C02 stated directly on the observation of a REAL System (harness/impl/c02_common.observe).
    Returns the list of failures, each {"code", "obj" (index), "what", ...}.  Empty = the property holds.
    postprocessed=False: the history has not run post-processing, the derived relations D1-D3 do not exist yet."""
    objs = obs['objects']
    reg: Dict[str, int] = {}
    fails: List[Dict[str, Any]] = []
    for k, i in obs['allobjects']:
        reg[k] = i
    # the documented objects: registered ones and roots, closed under parent and contents
    U: List[int] = []
    seen = set()
    work = [i for _, i in obs['allobjects']] + list(obs['roots'])
    while work:
        i = work.pop(0)
        if i is None or i in seen:
            continue
        seen.add(i)
        U.append(i)
        o = objs[i]
        work.append(o['parent'])
        work.extend(c for _, c in o['contents'])

    def nm(i: int) -> str:
        return '%s %r' % (objs[i]['cls'], objs[i]['full'])

    # I1: registered under exactly its current qualified name
    for k, i in obs['allobjects']:
        if objs[i]['full'] != k:
            fails.append({'code': 'I1', 'obj': i, 'key': k,
                          'what': 'allobjects[%r] is %s: the key is not its current qualified name' % (k, nm(i))})
    # I2: every documented object is the value of its own full name
    for i in U:
        o = objs[i]
        if o['full'] is None:
            fails.append({'code': 'I4', 'obj': i, 'what': 'fullName() of object named %r does not terminate '
                          '(parent cycle)' % o['name']})
        elif reg.get(o['full']) != i:
            fails.append({'code': 'I2', 'obj': i, 'what': '%s is part of the tree but allobjects[%r] is %s'
                          % (nm(i), o['full'], 'missing' if o['full'] not in reg else 'another object')})
    roots = set(obs['roots'])
    for i in U:
        o = objs[i]
        q = o['parent']
        # I3: it is the entry of its name in its parent, unless it is an older definition superseded by a later one
        if q is not None:
            ent = dict((k, c) for k, c in objs[q]['contents']).get(o['name'])
            if ent != i and not (o['sup'] and re.search(r' \d+$', o['name'])):
                fails.append({'code': 'I3', 'obj': i, 'what': '%s is not the entry %r of its parent %s and is not a '
                              'superseded older definition' % (nm(i), o['name'], nm(q))})
        for k, c in o['contents']:
            if objs[c]['parent'] != i or objs[c]['name'] != k:
                fails.append({'code': 'I3c', 'obj': c, 'what': '%s.contents[%r] is %s whose parent/name differ'
                              % (nm(i), k, nm(c))})
        # I4: reachable from a root package or module
        cur, steps = i, 0
        while objs[cur]['parent'] is not None and steps <= len(objs):
            cur = objs[cur]['parent']
            steps += 1
        if steps > len(objs):
            fails.append({'code': 'I4', 'obj': i, 'what': '%s: the parent chain is cyclic' % nm(i)})
        elif cur not in roots:
            fails.append({'code': 'I4', 'obj': i, 'what': '%s: its top-most ancestor %s is not in rootobjects'
                          % (nm(i), nm(cur))})
        # I5: the kind fits the place
        if o['cls'] == 'Function' and q is not None and objs[q]['cls'] == 'Class' and o['kind'] not in METHOD_KINDS:
            fails.append({'code': 'I5', 'sub': 'method', 'obj': i,
                          'what': '%s is a function directly in a class but its kind is %s' % (nm(i), o['kind'])})
        if o['cls'] in ('Module', 'Package') and q is not None and objs[q]['cls'] != 'Package':
            fails.append({'code': 'I5', 'sub': 'module-place', 'obj': i,
                          'what': '%s sits in %s, which is not a package' % (nm(i), nm(q))})
        if o['cls'] in ('Function', 'Attribute') and o['contents']:
            fails.append({'code': 'I5', 'sub': 'leaf', 'obj': i, 'what': '%s has children %s'
                          % (nm(i), [k for k, _ in o['contents']])})
        if i in roots and obs['roots'].count(i) > 1:
            fails.append({'code': 'I5', 'sub': 'root', 'obj': i, 'what': 'root object %s is listed twice in rootobjects' % nm(i)})
        if i in roots and (o['cls'] not in ('Module', 'Package') or q is not None):
            fails.append({'code': 'I5', 'sub': 'root', 'obj': i, 'what': 'root object %s is not a top-level module'
                          % nm(i)})
    # D1: the linearisation starts with the class and contains each resolved base once
    classes = [i for i in U if objs[i]['cls'] == 'Class'] if postprocessed else []
    for i in classes:
        o = objs[i]
        if o['mro'] is not None:
            if not o['mro'] or o['mro'][0] != i:
                fails.append({'code': 'D1', 'obj': i, 'what': 'mro of %s does not start with the class' % nm(i)})
            for b in (o['bases'] or []):
                if b is not None and o['mro'].count(b) != 1:
                    fails.append({'code': 'D1', 'obj': i, 'what': 'mro of %s contains its base %s %d times'
                                  % (nm(i), nm(b), o['mro'].count(b))})
    # D0: 'base of' is what the class statement says, read in the scope of the class itself: the object standing for the
    # base expression at position k is a class that the expression denotes in the scope the class is defined in (when
    # the statement was visited, or once the whole project is analysed); it is resolved whenever the expression denotes
    # a class there -- whatever other class's linearisation happened to be computed first ("in any interleaving")
    for i in classes:
        o = objs[i]
        sc = o.get('base_scope')
        if sc is None or o['bases'] is None or len(sc) != len(o['bases']):
            continue
        for pos, ((expr, first, now), b) in enumerate(zip(sc, o['bases'])):
            allowed = [x for x in (first, now) if x is not None]
            if (b is None and allowed) or (b is not None and b not in allowed):
                fails.append({'code': 'D0', 'obj': i, 'pos': pos,
                              'what': 'base %r of %s is %s, but in the scope of the class (%s) that expression denotes %s'
                              % (expr, nm(i), 'unresolved' if b is None else nm(b),
                                 'no parent' if o['parent'] is None else nm(o['parent']),
                                 ' / '.join(nm(x) for x in allowed) if allowed else 'no class')})
    # D2: 'subclass of' is the exact inverse of 'base of'
    allcls = [i for i, o in enumerate(objs) if o['cls'] == 'Class' and (i in seen)] if postprocessed else []
    for b in allcls:
        for c in allcls:
            nb = (objs[c]['bases'] or []).count(b)
            ns = (objs[b]['subs'] or []).count(c)
            if nb != ns:
                fails.append({'code': 'D2', 'obj': b, 'what': '%s lists %s %d times as subclass, but is %d times its base'
                              % (nm(b), nm(c), ns, nb)})
    for b in allcls:
        for c in (objs[b]['subs'] or []):
            if c not in seen:
                fails.append({'code': 'D2', 'obj': b, 'what': '%s has an undocumented subclass %s' % (nm(b), nm(c))})
    # D3: 'implemented by' is the inverse of 'implements'
    for i in (U if postprocessed else []):
        o = objs[i]
        if o['isinterface'] and o['implementedby'] is not None:
            for x in o['implementedby']:
                if o['full'] not in (objs[x]['implements'] or []):
                    fails.append({'code': 'D3', 'obj': i, 'what': 'interface %s lists %s as implementer, which does not '
                                  'declare it' % (nm(i), nm(x))})
        for n in (o['implements'] or []):
            t = reg.get(n)
            if t is not None and objs[t]['isinterface'] and objs[t]['implementedby'] is not None \
                    and i not in objs[t]['implementedby']:
                fails.append({'code': 'D3', 'obj': i, 'what': '%s implements %s but is not listed by it' % (nm(i), nm(t))})
    # D4: two different pages never share a file name
    files: Dict[str, int] = {}
    summary = set(n + '.html' for n in SUMMARY_NAMES)
    if len(obs['root_names']) > 1:
        summary.add('index.html')
    for i in U:
        o = objs[i]
        if not o['own_page'] or o['url'] is None:
            continue
        f = o['url']
        if f in files and files[f] != i:
            fails.append({'code': 'D4', 'sub': 'objects', 'obj': i, 'other': files[f],
                          'what': '%s and %s are both written to %s' % (nm(files[f]), nm(i), f)})
        files.setdefault(f, i)
        if f in summary:
            fails.append({'code': 'D4', 'sub': 'summary', 'obj': i, 'file': f, 'full': o['full'],
                          'what': 'the page of %s and a summary page are both written to %s' % (nm(i), f)})
    return fails


I_CODES = ('I1', 'I2', 'I3', 'I3c', 'I4', 'I5')


# ------------------------------------------------------------------ known classes of genuine defects
def classify_failure(f: Dict[str, Any], obs: Any) -> Optional[str]:
    """Returns the id of the known finding this single oracle failure is an instance of (see known_findings/C02.json)."""
    objs = obs['objects']
    o = objs[f['obj']]
    code = f['code']

    def chain(i: int) -> List[int]:
        out, n = [], 0
        while i is not None and n <= len(objs):
            out.append(i)
            i = objs[i]['parent']
            n += 1
        return out
    if code == 'D4' and f.get('sub') == 'summary':
        if o['parent'] is None and o['full'] in (['index'] + SUMMARY_NAMES):
            return 'C02-summary-page-name'
        return None
    if code == 'I5' and f.get('sub') == 'module-place':
        for old, npar, nn, existed, mcls, npcls, _ in obs['moves']:
            if mcls in ('Module', 'Package') and npcls == 'Module' and o['full'] == '%s.%s' % (npar, nn):
                return 'C02-module-reexported-into-module'
        return None
    roots = obs['roots']
    reg = dict((k, i) for k, i in obs['allobjects'])
    if code == 'D4' and f.get('sub') == 'objects':
        # the page of a stale duplicate root and the page of the module that replaced it
        a, b = f['obj'], f['other']
        if objs[a]['full'] == objs[b]['full'] and a in roots and b in roots and \
                (reg.get(objs[a]['full']) == a) != (reg.get(objs[b]['full']) == b):
            return 'C02-stale-duplicate-root'
        # the page of an object displaced by a re-export onto its name and the page of the object that took the name
        collided = ['%s.%s' % (npar, nn) for old, npar, nn, existed, *_ in obs['moves'] if existed]
        for x in (a, b):
            for y in chain(x):
                if objs[y]['full'] in collided and reg.get(objs[y]['full']) != y:
                    return 'C02-reexport-onto-defined-name'
        return None
    # a duplicate top-level module that lost: still in rootobjects, not registered
    top = chain(f['obj'])[-1]
    if code in ('I2', 'I3', 'I4') and top in roots and objs[top]['parent'] is None and reg.get(objs[top]['full']) != top \
            and any(r != top and objs[r]['full'] == objs[top]['full'] and reg.get(objs[r]['full']) == r for r in roots):
        return 'C02-stale-duplicate-root'
    # a move (re-export) onto a name that the target module already defines, the displaced object having members
    coll = ['%s.%s' % (npar, nn) for old, npar, nn, existed, *_ in obs['moves'] if existed]
    if code in ('I1', 'I2', 'I3', 'I3c', 'I4'):
        for a in chain(f['obj']):
            full = objs[a]['full']
            if full in coll and reg.get(full) != a:
                return 'C02-reexport-onto-defined-name'
    # a stale key below a renamed / moved object: the walks follow `contents`, which skips superseded duplicates
    if code in ('I1', 'I2'):
        ch = chain(f['obj'])
        for pos, a in enumerate(ch):
            if not objs[a]['sup']:
                continue
            for r in ch[pos + 1:]:
                renamed = objs[r]['sup']
                moved = any(objs[r]['full'] == '%s.%s' % (npar, nn) for old, npar, nn, *_ in obs['moves'])
                if renamed or moved:
                    return 'C02-stale-key-below-superseded'
    return None


KNOWN_IDS = ['C02-summary-page-name', 'C02-module-reexported-into-module', 'C02-stale-duplicate-root',
             'C02-reexport-onto-defined-name', 'C02-stale-key-below-superseded']


# ------------------------------------------------------------------ generators: operation sequences
def nm_(b: int, *suf: int) -> List[Any]:
    return [b, list(suf)]


def enumerate_ops(maxlen: int, names: List[List[Any]], wide: bool, child_classes: Any = (2, 3, 4)) -> List[List[Any]]:
    """All operation sequences up to maxlen over the given names (first module is named names[0]: the names are
    symmetric).  The state needed to enumerate is only the list of the classes of the objects created so far.
    wide=False restricts parents to objects that can hold the child (modules hold anything, classes hold non-modules)."""
    out: List[List[Any]] = []

    def choices(created: List[int]) -> List[Any]:
        ch: List[Any] = []
        n = len(created)
        mods = [i for i, c in enumerate(created) if c in (0, 1)]
        holders = [i for i, c in enumerate(created) if c in (0, 1, 2)]
        for pkg in (0, 1):
            for nmx in names:
                for par in [None] + (list(range(n)) if wide else mods):
                    ch.append([0, pkg, nmx, par])
        for cls in child_classes:
            for nmx in names:
                for par in (range(n) if wide else holders):
                    ch.append([1, cls, nmx, par, 100 if cls == 4 else 0])
        for o in range(n):
            for np in (range(n) if wide else mods):
                for nmx in names:
                    ch.append([2, o, np, nmx])
        return ch

    def name_of(c: Any) -> Any:
        return c[2] if c[0] in (0, 1) else c[3]

    def rec(prefix: List[Any], created: List[int], used: int) -> None:
        if prefix:
            out.append(prefix)
        if len(prefix) >= maxlen:
            return
        if not prefix:
            for pkg in (0, 1):
                rec([[0, pkg, names[0], None]], [pkg], 1)
            return
        for c in choices(created):
            # names are opaque to the code: keep one representative per renaming (names appear in the order a, b, c)
            k = names.index(name_of(c))
            if k > used:
                continue
            cr = created + ([c[1]] if c[0] == 0 else [c[1]] if c[0] == 1 else [])
            rec(prefix + [c], cr, max(used, k + 1))
    rec([], [], 0)
    return out


class OpGen:
    """Random, mostly guarded histories that keep a shadow of the tree so that most operations are meaningful."""
    def __init__(self, rng: Any):
        self.rng = rng

    def history(self, length: int, wild: float) -> List[Any]:
        rng = self.rng
        names = [nm_(1), nm_(2), nm_(3), nm_(4)]
        created: List[int] = []       # class code per object
        parent: List[Optional[int]] = []
        ops: List[Any] = []

        def add(c: int, p: Optional[int]) -> None:
            created.append(c)
            parent.append(p)
        for _ in range(length):
            n = len(created)
            mods = [i for i, c in enumerate(created) if c in (0, 1)]
            pkgs = [i for i, c in enumerate(created) if c == 1]
            holders = [i for i, c in enumerate(created) if c in (0, 1, 2)]
            classes = [i for i, c in enumerate(created) if c == 2]
            r = rng.random()
            nmx = rng.choice(names)
            if rng.random() < 0.04:
                nmx = nm_(nmx[0], rng.randint(0, 1))
            if rng.random() < 0.03:
                nmx = nm_(rng.choice([100, 101, 102, 105]))
            if n == 0 or r < 0.14:
                pkg = int(rng.random() < 0.6)
                if rng.random() < wild and n:
                    par: Optional[int] = rng.randrange(n)
                else:
                    par = rng.choice([None] + pkgs + pkgs) if pkgs else None
                ops.append([0, pkg, nmx, par])
                add(pkg, par)
            elif r < 0.70:
                cls = rng.choice([2, 2, 3, 3, 4])
                par = rng.randrange(n) if rng.random() < wild else rng.choice(holders)
                ops.append([1, cls, nmx, par, rng.choice([0, 100, 200]) if cls == 4 else 0])
                add(cls, par)
            elif r < 0.86:
                o = rng.randrange(n)
                if rng.random() >= wild:
                    cands = [i for i in range(n) if parent[i] is not None and created[i] not in (0, 1)]
                    if cands:
                        o = rng.choice(cands)
                np = rng.randrange(n) if rng.random() < wild else rng.choice(mods)
                ops.append([2, o, np, nmx])
                parent[o] = np
            elif r < 0.95 and classes:
                c = rng.choice(classes)
                lower = [x for x in classes if x < c]      # acyclic hierarchies only (cycles are C05's subject)
                # distinct bases in descending creation order: a hierarchy Python accepts (C3 succeeds)
                bs = sorted(rng.sample(lower, min(len(lower), rng.randint(0, 3))), reverse=True)
                if rng.random() < 0.3:
                    bs.insert(rng.randint(0, len(bs)), None)
                ops.append([3, c, bs])
            else:
                ops.append([3, 0, []])
        if rng.random() < 0.7:
            ops.append([4])
        return ops


# ------------------------------------------------------------------ generators: source projects
class ProjGen:
    def __init__(self, rng: Any):
        self.rng = rng

    def body(self, depth: int, names: List[str], indent: str = '', in_class: bool = False) -> List[str]:
        rng = self.rng
        lines: List[str] = []
        for _ in range(rng.randint(1, 4)):
            n = rng.choice(names)
            k = rng.random()
            if k < 0.3:
                lines.append('%sdef %s(%s):' % (indent, n, 'self' if in_class else ''))
                if rng.random() < 0.3:
                    lines.append('%s    """doc\n%s    @ivar %s: in a function\n%s    """' % (indent, indent, rng.choice(names), indent))
                if rng.random() < 0.2:
                    lines.append('%s    def inner(): pass' % indent)
                if rng.random() < 0.15:
                    lines.append('%s    class Local: pass' % indent)
                lines.append('%s    pass' % indent)
            elif k < 0.55 and depth < 3:
                lines.append('%sclass %s:' % (indent, n.capitalize() if rng.random() < 0.5 else n))
                if rng.random() < 0.5:
                    f = rng.choice(['ivar', 'cvar', 'var', 'type'])
                    lines.append('%s    """doc\n%s    @%s %s: a field\n%s    @ivar %s: another\n%s    """'
                                 % (indent, indent, f, rng.choice(names), indent, rng.choice(names), indent))
                lines.extend(self.body(depth + 1, names, indent + '    ', True))
            elif k < 0.7:
                lines.append('%s%s = %d' % (indent, n, rng.randint(0, 9)))
                if rng.random() < 0.3:
                    lines.append('%s"""attribute doc"""' % indent)
            elif k < 0.8:
                lines.append('%sif %s:' % (indent, rng.choice(['True', 'x'])))
                lines.append('%s    def %s(%s): pass' % (indent, n, 'self' if in_class else ''))
                lines.append('%selse:' % indent)
                lines.append('%s    def %s(%s): pass' % (indent, n, 'self' if in_class else ''))
            elif k < 0.9 and in_class:
                d = rng.choice(['@staticmethod', '@classmethod', '@property'])
                lines.append('%s%s' % (indent, d))
                lines.append('%sdef %s(%s): pass' % (indent, n, '' if d == '@staticmethod' else 'self'))
            else:
                lines.append('%s%s: int = 1' % (indent, n))
        if in_class and rng.random() < 0.4:
            lines.append('%sdef __init__(self):' % indent)
            lines.append('%s    self.%s = 1' % (indent, rng.choice(names)))
            if rng.random() < 0.5:
                lines.append('%s    """inst doc"""' % indent)
        return lines

    def project(self) -> Dict[str, Any]:
        rng = self.rng
        names = ['f', 'g', 'K', 'x', 'h'][:rng.randint(2, 5)]
        files: Dict[str, str] = {}
        pkg = rng.choice(['pkg', 'pkg', 'p', 'index'])
        mods = rng.sample(['_impl', 'mod', 'a', 'b', 'core'], rng.randint(1, 4))
        srcs: Dict[str, List[str]] = {m: self.body(0, names) for m in mods}
        defined: Dict[str, List[str]] = {}
        for m in mods:
            defined[m] = [n for n in names + [x.capitalize() for x in names]
                          if re.search(r'^(def|class) %s\b|^%s\b' % (n, n), '\n'.join(srcs[m]), flags=re.M)]
        # classes with bases across modules, import cycles
        for m in mods:
            if rng.random() < 0.5 and len(mods) > 1:
                other = rng.choice([x for x in mods if x != m])
                cls = [n for n in defined[other] if re.search(r'^class %s\b' % n, '\n'.join(srcs[other]), flags=re.M)]
                imp = rng.choice(['from .%s import %s' % (other, cls[0]) if cls else 'from . import %s' % other,
                                  'from %s.%s import *' % (pkg, other), 'import %s.%s' % (pkg, other)])
                base = cls[0] if cls and 'import ' + cls[0] in imp or (cls and '*' in imp) else None
                pos = rng.choice(['top', 'bottom'])
                extra = [imp]
                if base:
                    extra.append('class Sub%s(%s):\n    def own(self): pass' % (m.strip('_').capitalize(), base))
                srcs[m] = (extra + srcs[m]) if pos == 'top' else (srcs[m] + extra)
        # zope interfaces
        if rng.random() < 0.3:
            m = rng.choice(mods)
            srcs[m] = ['from zope.interface import Interface, implementer, Attribute',
                       'class IThing(Interface):', '    at = Attribute("doc")', '    def meth(): pass',
                       '@implementer(IThing)', 'class Thing:', '    def meth(self): pass',
                       'class Other(Thing): pass'] + srcs[m]
            if rng.random() < 0.5 and len(mods) > 1:
                m2 = rng.choice([x for x in mods if x != m])
                srcs[m2] = ['from zope.interface import implementer', 'from .%s import IThing' % m,
                            '@implementer(IThing)', 'class Impl2: pass'] + srcs[m2]
        # the package __init__ with re-exports
        init: List[str] = []
        exports: List[str] = []
        local = self.body(0, names) if rng.random() < 0.6 else []
        before = rng.random() < 0.5
        if local and before:
            init.extend(local)
        for m in mods:
            if not defined[m] and rng.random() < 0.7:
                continue
            k = rng.random()
            if k < 0.35 and defined[m]:
                n = rng.choice(defined[m])
                init.append('from .%s import %s' % (m, n))
                exports.append(n)
            elif k < 0.5 and defined[m]:
                n = rng.choice(defined[m])
                a = rng.choice(names + ['alias'])
                init.append('from .%s import %s as %s' % (m, n, a))
                exports.append(a)
            elif k < 0.65:
                init.append('from .%s import *' % m)
                exports.extend(rng.sample(defined[m], min(len(defined[m]), rng.randint(0, 2))))
            elif k < 0.75:
                init.append('from . import %s' % m)
                if rng.random() < 0.5:
                    exports.append(m)
            elif k < 0.85 and defined[m]:
                n = rng.choice(defined[m])
                init.append('from %s.%s import %s' % (pkg, m, n))
                exports.append(n)
        if local and not before:
            init.extend(local)
        if exports or rng.random() < 0.3:
            if rng.random() < 0.15:
                exports.append(rng.choice(names))
            init.insert(rng.choice([0, len(init)]), '__all__ = %r' % (sorted(set(exports)),))
        files['%s/__init__.py' % pkg] = '\n'.join(init) + '\n'
        for m in mods:
            files['%s/%s.py' % (pkg, m)] = '\n'.join(srcs[m]) + '\n'
        # a module and a package of the same name
        if rng.random() < 0.2:
            m = rng.choice(mods)
            files['%s/%s/__init__.py' % (pkg, m)] = '\n'.join(self.body(0, names)) + '\n'
            if rng.random() < 0.5:
                files['%s/%s/deep.py' % (pkg, m)] = 'def deep(): pass\n'
        # a sub-package
        if rng.random() < 0.3:
            files['%s/sub/__init__.py' % pkg] = rng.choice(['', 'from ..%s import *\n' % mods[0],
                                                            "from .leaf import f\n__all__ = ['f']\n"])
            files['%s/sub/leaf.py' % pkg] = '\n'.join(self.body(0, names)) + '\ndef f(): pass\n'
        # a dotted file / directory name next to a nested module of the same qualified name
        if rng.random() < 0.1:
            files['%s/dd/__init__.py' % pkg] = ''
            files['%s/dd/e.py' % pkg] = 'def inner(): pass\n'
            if rng.random() < 0.5:
                files['%s/dd.e.py' % pkg] = 'x = 1\n'
            else:
                files['%s/dd.e/__init__.py' % pkg] = 'x = 1\n'
        add = [pkg]
        # more roots
        if rng.random() < 0.35:
            r = rng.choice(['other', 'index', 'moduleIndex', 'classIndex', 'nameIndex', 'undoccedSummary', 'top'])
            src = self.body(0, names)
            if rng.random() < 0.6:
                tgt = rng.choice(mods)
                if defined[tgt]:
                    n = rng.choice(defined[tgt])
                    src = ['from %s.%s import %s' % (pkg, tgt, n), '__all__ = [%r]' % n] + src
                else:
                    src = ['from %s import %s' % (pkg, tgt), '__all__ = [%r]' % tgt] + src
            files['%s.py' % r] = '\n'.join(src) + '\n'
            add.append('%s.py' % r)
            if rng.random() < 0.3:
                add.append('%s.py' % r) if rng.random() < 0.3 else None
        if rng.random() < 0.08:
            # the same top-level name twice: a module file and a package directory
            files['dupr/%s/__init__.py' % pkg] = 'def late(): pass\n'
            add.append('dupr/%s' % pkg)
        return {'files': sorted(files.items()), 'add': add, 'strings': [],
                'order': rng.choice(['given', 'given', 'sorted', 'reversed'])}


def hierarchy_family() -> List[Dict[str, Any]]:
    """Exhaustive small family: a class Mid whose base is named through an import cycle (so it may be unresolved when
    the class statement is visited), the base's module, and a module with a subclass Leaf of Mid in which the local
    name of Mid's base means something else (an unrelated class / a non-class / nothing / the same class); every order
    of analysis of the three modules, both import styles, import before or after the definition."""
    out: List[Dict[str, Any]] = []
    for order in itertools.permutations(['la', 'lb', 'lc']):
        for binding in ('class', 'none', 'value', 'same', 'nested'):
            for style in ('module', 'name'):
                for cyc in ('top', 'bottom', 'nocycle'):
                    leaf = {'module': 'import lc\n', 'name': 'from lc import Mid\n'}[style]
                    leaf += {'class': 'class Base:\n    "unrelated"\n', 'none': '', 'value': 'Base = 1\n',
                             'same': 'from lb import Base\n',
                             'nested': 'class Outer:\n    class Base:\n        pass\n'}[binding]
                    leaf += 'class Leaf(%s):\n    pass\n' % ('lc.Mid' if style == 'module' else 'Mid')
                    base = 'class Base:\n    "the real base"\n'
                    if cyc == 'top':
                        base = 'from lc import Mid\n' + base
                    elif cyc == 'bottom':
                        base = base + 'from lc import Mid\n'
                    mid = 'from lb import Base\nclass Mid(Base):\n    pass\n'
                    files = {'la': leaf, 'lb': base, 'lc': mid}
                    out.append({'files': [['%s.py' % m, files[m]] for m in sorted(files)],
                                'add': ['%s.py' % m for m in order], 'strings': [], 'order': 'given'})
    return out


class HierGen:
    """Random flat projects about the class hierarchy only: few modules, few class names shared between the modules
    (so one local name means different classes in different modules), imports between the modules in both styles and
    at both ends of a module (cycles leave bases unresolved when the class statement is visited), bases named by a
    local / imported name or through the module, random order of analysis."""
    def __init__(self, rng: Any):
        self.rng = rng

    def project(self) -> Dict[str, Any]:
        rng = self.rng
        mods = ['h%d' % i for i in range(rng.randint(2, 4))]
        pool = ['Base', 'Mid', 'Leaf', 'A'][:rng.randint(2, 4)]
        defs = {m: rng.sample(pool, rng.randint(1, len(pool))) for m in mods}
        # the hierarchy is acyclic (Python rejects the others; cycles are C05's subject): a base expression is used only
        # if everything it can denote -- when the class statement is visited or at the end -- comes earlier in `rank`
        pairs = [(m, n) for m in mods for n in defs[m]]
        rng.shuffle(pairs)
        rank = {p: k for k, p in enumerate(pairs)}
        files: Dict[str, str] = {}
        for m in mods:
            head: List[str] = []
            tail: List[str] = []
            body: List[str] = []
            env: Dict[str, Any] = {}          # expression -> (module, class) it denotes when a class statement is visited
            late: Dict[str, Any] = {}         # bound by an import at the end of the module
            others = [x for x in mods if x != m]
            imported: List[str] = []
            for x in rng.sample(others, rng.randint(1, len(others))):
                at_head = rng.random() < 0.7
                if rng.random() < 0.5:
                    free = [n for n in defs[x] if n not in defs[m] and n not in imported]
                    if not free:
                        continue
                    n = rng.choice(free)
                    imported.append(n)
                    (head if at_head else tail).append('from %s import %s' % (x, n))
                    (env if at_head else late)[n] = (x, n)
                else:
                    (head if at_head else tail).append('import %s' % x)
                    for n in defs[x]:
                        (env if at_head else late)['%s.%s' % (x, n)] = (x, n)
            final = dict(env)
            final.update({n: (m, n) for n in defs[m]})
            final.update(late)
            for n in defs[m]:
                cands = [e for e in sorted(set(env) | set(late))
                         if all(d is None or rank[d] < rank[(m, n)] for d in (env.get(e), final.get(e)))
                         and (env.get(e) or final.get(e))]
                bases = rng.sample(cands, min(len(cands), rng.choice([0, 1, 1, 1, 2])))
                # most derived first: an order of bases that C3 accepts
                bases.sort(key=lambda e: -max(rank[d] for d in (env.get(e), final.get(e)) if d is not None))
                body.append('class %s%s:\n    pass' % (n, '(%s)' % ', '.join(bases) if bases else ''))
                env[n] = (m, n)
            unbound = [n for n in pool if n not in final]
            if unbound and rng.random() < 0.2:
                body.insert(rng.randint(0, len(body)), '%s = 1' % rng.choice(unbound))
            files[m] = '\n'.join(head + body + tail) + '\n'
        add = list(mods)
        rng.shuffle(add)
        return {'files': [['%s.py' % m, files[m]] for m in mods], 'add': ['%s.py' % m for m in add], 'strings': [],
                'order': 'given'}


CORPUS_PROJECTS: List[Dict[str, Any]] = [
    # two modules of one qualified name under different parents: a dotted file / directory next to a nested module
    {'files': [['p/__init__.py', ''], ['p/a/__init__.py', ''], ['p/a/b.py', 'def f(): pass\n'], ['p/a.b.py', 'x = 1\n']],
     'add': ['p']},
    {'files': [['p/__init__.py', ''], ['p/a/__init__.py', ''], ['p/a/b.py', 'def f(): pass\n'],
               ['p/a.b/__init__.py', 'x = 1\n'], ['p/a.b/c.py', 'y = 1\n']], 'add': ['p']},
    # re-export onto a name that the package also defines (function; class with members, before and after)
    {'files': [['pkg/__init__.py', "from ._impl import f\n__all__=['f']\ndef f():\n    pass\n"],
               ['pkg/_impl.py', "def f(): pass\nclass K:\n    def m(self): pass\n"]], 'add': ['pkg']},
    {'files': [['pkg/__init__.py', "__all__=['K']\nclass K:\n    def a(self): pass\nfrom ._impl import K\n"],
               ['pkg/_impl.py', "class K:\n    def m(self): pass\n"]], 'add': ['pkg']},
    {'files': [['pkg/__init__.py', "__all__=['f']\ndef f(): pass\nfrom ._impl import f\n"],
               ['pkg/_impl.py', "def f(): pass\n"]], 'add': ['pkg']},
    # duplicate inside a duplicated / moved class
    {'files': [['m.py', "class K:\n    def f(self): pass\n    def f(self): pass\nclass K:\n    pass\n"]], 'add': ['m.py']},
    {'files': [['m.py', "class K:\n    def f(self): pass\n    def f(self): pass\n"],
               ['top.py', "from m import K\n__all__=['K']\n"]], 'add': ['m.py', 'top.py']},
    # duplicate modules
    {'files': [['pkg/__init__.py', ""], ['pkg/m.py', "def a(): pass\n"], ['pkg/m/__init__.py', "def b(): pass\n"],
               ['pkg/m/sub.py', "x = 1\n"]], 'add': ['pkg']},
    {'files': [['m.py', "def a(): pass\n"], ['d/m/__init__.py', "def b(): pass\n"]], 'add': ['m.py', 'd/m']},
    {'files': [['m.py', "def a(): pass\n"], ['d/m/__init__.py', "def b(): pass\n"]], 'add': ['d/m', 'm.py']},
    # module re-exported into a plain module
    {'files': [['pkg/__init__.py', ""], ['pkg/sub.py', "def f(): pass\n"],
               ['top.py', "from pkg import sub\n__all__=['sub']\n"]], 'add': ['pkg', 'top.py']},
    # names of summary pages
    {'files': [['index.py', ""], ['other.py', ""], ['moduleIndex.py', ""]], 'add': ['index.py', 'other.py', 'moduleIndex.py']},
    {'files': [['index.py', "class K: pass\n"]], 'add': ['index.py']},
    # fields, nested classes, cycles
    {'files': [['a.py', 'from b import C\nclass B:\n    """\n    @ivar x: doc\n    @type y: int\n    """\n    y = 1\n'
                '    class In:\n        class Deep:\n            def m(self): pass\n'],
               ['b.py', "from a import B\nclass C(B):\n    pass\nclass D(C, B): pass\n"]], 'add': ['a.py', 'b.py']},
    {'files': [['z.py', 'from zope.interface import Interface, implementer\nclass IFoo(Interface):\n    def m(): pass\n'
                '@implementer(IFoo)\nclass Foo:\n    def m(self): pass\n']], 'add': ['z.py']},
]

CORPUS_OPS: List[List[Any]] = [
    # nested duplicate then outer duplicate (stale key)
    [[0, 0, nm_(1), None], [1, 2, nm_(2), 0, 0], [1, 3, nm_(3), 1, 0], [1, 3, nm_(3), 1, 0], [1, 2, nm_(2), 0, 0]],
    # reparent collision with members
    [[0, 1, nm_(1), None], [0, 0, nm_(2), 0], [1, 2, nm_(3), 0, 0], [1, 3, nm_(4), 2, 0], [1, 2, nm_(3), 1, 0],
     [1, 3, nm_(1), 4, 0], [2, 4, 0, nm_(3)]],
    # duplicate roots
    [[0, 0, nm_(1), None], [0, 1, nm_(1), None]],
    [[0, 1, nm_(1), None], [0, 0, nm_(1), None]],
    [[0, 1, nm_(1), None], [0, 0, nm_(2), 0], [1, 3, nm_(3), 1, 0], [0, 1, nm_(2), 0], [0, 0, nm_(2), 0]],
    # summary names
    [[0, 0, nm_(100), None], [0, 0, nm_(2), None], [0, 0, nm_(101), None]],
    [[0, 0, nm_(100), None], [1, 2, nm_(1), 0, 0]],
    # explicit "a 0" before a duplicate of a
    [[0, 0, nm_(1), None], [1, 3, nm_(2, 0), 0, 0], [1, 3, nm_(2), 0, 0], [1, 3, nm_(2), 0, 0], [1, 3, nm_(2), 0, 0]],
    # subclasses
    [[0, 0, nm_(1), None], [1, 2, nm_(2), 0, 0], [1, 2, nm_(3), 0, 0], [1, 2, nm_(4), 0, 0], [3, 2, [1, None]],
     [3, 3, [2, 1]], [4]],
    # reparent into the own subtree (RecursionError), of a root (AssertionError), of a superseded object (KeyError)
    [[0, 0, nm_(1), None], [1, 2, nm_(2), 0, 0], [1, 2, nm_(3), 1, 0], [2, 1, 2, nm_(1)]],
    [[0, 0, nm_(1), None], [0, 0, nm_(2), None], [2, 0, 1, nm_(1)]],
    [[0, 0, nm_(1), None], [1, 3, nm_(2), 0, 0], [1, 3, nm_(2), 0, 0], [2, 1, 0, nm_(3)]],
    # module moved into a module
    [[0, 1, nm_(1), None], [0, 0, nm_(2), 0], [0, 0, nm_(3), None], [2, 1, 2, nm_(2)]],
    # a replaced module is moved back and replaced again: unprocessed_modules.remove raises ValueError
    [[0, 0, nm_(1), None], [0, 0, nm_(1), 0], [0, 0, nm_(1), 0], [2, 1, 0, nm_(1)], [0, 0, nm_(1), 0]],
    [[0, 0, nm_(1), None], [0, 0, nm_(1), 0], [0, 0, nm_(1), 0], [2, 1, 0, nm_(2)], [0, 1, nm_(2), 0]],
]


def enc_mro_item(x: Any) -> Any:
    """An item of the real Class.mro(True) in the numbering of Registry.wire_cid / wire_ext."""
    if isinstance(x, int):
        return 2 * x + 2
    g = re.match(r'zz_unresolved_(\d+)_(\d+)$', str(x))
    return 2 * (1024 * int(g.group(1)) + int(g.group(2))) + 1 if g else 'name:%s' % x


def group_failures(fails: List[Dict[str, Any]], obs: Any) -> Dict[str, List[Dict[str, Any]]]:
    by: Dict[str, List[Dict[str, Any]]] = {}
    for f in fails:
        by.setdefault(classify_failure(f, obs) or 'unknown', []).append(f)
    return by


def eval_ops_chunk(args: Any) -> Any:
    """(histories, model binary) -> (violations as tuples, counters, number of non-trivial histories)."""
    from pathlib import Path
    cases, binary = args
    impl = lib.run_impl_worker('c02_ops.py', [ops_for_impl(c) for c in cases], jobs=1)
    mod = lib.run_model(Path(binary), [ops_for_model(c) for c in cases])
    stats: Dict[str, int] = {}
    viols: List[Any] = []
    nt_count = 0

    def count(k: str, n: int = 1) -> None:
        stats[k] = stats.get(k, 0) + n
    for c, r, m in zip(cases, impl, mod):
        cm = canon_model(dec(m))
        ncreated = len(cm['objects'])
        ci = canon_impl(r, ncreated)
        count('ops_len_%02d' % len(c) if len(c) < 6 else 'ops_len_6plus')
        inv = cm.pop('inv')
        guarded = cm.pop('guarded')
        mros = cm.pop('mros')
        if cm['failed'] is not None or ci['failed'] is not None:
            count('ops_raise')
            if guarded:
                count('ops_guarded_raise')     # a guarded operation raised (not excluded by the theorems; C01's subject)
            if cm['failed'] != ci['failed']:
                viols.append(('correspondence', 'Model.Registry and pydoctor disagree on which operation raises',
                              {'ops': c}, {'failed': cm['failed']}, {'failed': ci['failed'], 'exc': r.get('exc')}))
            continue
        count('ops_guarded' if guarded else 'ops_unguarded')
        obs = r['obs']
        if any(o['sup'] for o in obs['objects']) or obs['moves'] or \
                len(obs['allobjects']) < sum(1 for o in c if o[0] in (0, 1)):
            nt_count += 1
        if cm != ci:
            diff = [k for k in cm if cm[k] != ci.get(k)]
            viols.append(('correspondence', 'Model.Registry and pydoctor disagree on the state after a history '
                          '(fields: %s)' % diff, {'ops': c}, {k: cm[k] for k in diff}, {k: ci[k] for k in diff}))
            count('ops_diff')
        post = (c.count([4]) == 1 and c[-1] == [4])
        if post:
            # the hierarchy read off the registry (Registry.hier_of) fed to Model/Mro.v vs. the real compute_mro
            registered = set(i for _, i in obs['allobjects'])      # _init_mro runs for objectsOfType(Class) only
            for i, m in enumerate(mros):
                if not m or i not in registered:
                    continue
                if m[0] != 0:
                    count('ops_mro_rejected')
                    continue
                real = obs['objects'][i]['mro']
                enc_real = None if real is None else [enc_mro_item(x) for x in real]
                count('ops_mro_compared')
                if enc_real != list(m[1:]):
                    viols.append(('correspondence', 'Model/Mro.v on Registry.hier_of and the real compute_mro disagree on the '
                                  'linearisation of object %d' % i, {'ops': c}, {'mro': list(m[1:])}, {'mro': enc_real}))
                    break
        fails = oracle(obs, postprocessed=post)
        ifails = [f for f in fails if f['code'] in I_CODES]
        count('ops_inv_true' if inv else 'ops_inv_false')
        if inv != (not ifails):
            viols.append(('correspondence', 'the Coq invariant (inv_check) and the Python oracle disagree on a history: '
                          'inv_check=%s oracle=%s' % (inv, [f['what'] for f in ifails][:3]), {'ops': c},
                          {'inv': inv}, {'oracle': [f['what'] for f in ifails][:5]}))
        # operations outside the guards (e.g. a module put into a function by the harness) are API misuse, not
        # pydoctor's behaviour: there the oracle only cross-validates inv_check.  On guarded histories
        # (C02_inv_history_exec applies) the property must hold on the real System.
        if guarded:
            for k, fs in group_failures(fails, obs).items():
                count('oracle_' + k)
                viols.append(('oracle', fs[0]['what'], {'ops': c}, None,
                              {'class': k, 'failures': [dict(code=f['code'], what=f['what']) for f in fs[:6]]}))
    return viols[:60], stats, nt_count


class Check(PropertyCheck):
    id = 'C02'
    props_module = 'Props.C02'
    models = {'registry': 'XRegistry.v', 'implements': 'XImplements.v'}
    needs_gen = True
    gen_modules = ['gen_c02_code']
    rule = ('(i) exhaustive: quick = every sequence of <= 3 operations {AddModule(pkg?, name, parent), AddChild(Class|Function|'
            'Attribute, name, parent), Reparent(o, newparent, newname)} over 3 names with ANY object as parent, and every '
            'sequence of <= 4 operations with Class/Function children and parents ranging over the objects that can hold the '
            'child (modules: any module; children: module/package/class; move targets: modules); thorough = <= 4 with any parent over 3 names and <= 5 over '
            '2 names with class children only; one representative per renaming of the names; all applied through the real '
            'API and through Model/Registry.v and diffed state for state; plus random '
            'histories of <= 40 operations (incl. SetBases, PostProcess, unguarded parents, "a 0"-style and summary-page '
            'names); non-trivial = the history takes the duplicate branch of addObject/_addUnprocessedModule or performs a '
            'successful reparent; (ii) generated source projects through the real builder; non-trivial = at least one '
            'handleDuplicate or reparent happened; plus the exhaustive family hierarchy_family() (a class whose base is named '
            'through an import cycle, a subclass in a module where that local name means an unrelated class / a value / nothing / '
            'the same class, every order of analysis, both import styles) and random acyclic multi-module hierarchies with '
            'class names shared between modules (HierGen), judged by the oracle incl. D0: every base is what the base '
            'expression denotes in the scope of the class itself; distinct by construction (i) / by source text (ii)')
    trusted_base = [
        'Coq 8.16.1 kernel (coqc; vm_compute for the _refuted witnesses and Examples; no native_compute)',
        'no axioms (Print Assumptions: Closed under the global context for every theorem)',
        'extraction: ExtrOcamlBasic only; OCaml 4.13.1; coq/ocaml/driver.ml',
        'correspondence harness harness/c02.py + harness/impl/c02_ops.py, c02_project.py, c02_common.py',
        'translator harness/gen/gen_c02_code.py (bodies of System.addObject / handleDuplicate / _remove, Documentable.reparent / '
        '_handle_reparenting_pre / _post -> Gen/RegistryCode.v, fail-closed) and the interpreter Model/RegistryIR.v; primitive '
        '(assumed, not translated): Python dict/list operations on allobjects / contents / rootobjects, fullName(), '
        "`s + ' ' + str(i)`, isinstance against Module / CanContainImportsDocumentable, report() touches nothing",
        'names are structured (base, duplicate indices); the rendering base ++ " i" ... and "."-joined paths are injective '
        'only for bases without blank and dot (Python identifiers); quote() is injective',
        'modelled not verified: that astbuilder issues only guarded registry operations (validated on generated projects '
        'by the oracle); Module.state (C01); name resolution that produces baseobjects and the find_object targets of '
        'implements_directly (C04/C07) -- both are inputs of the models',
    ]
    manifest = {
        'text': ('Theorems over Model/Registry.v for every history (unbounded): the invariant Inv (I1 registry keys are exactly the '
                 'current qualified names and fullName terminates; I2 the registered set is closed under parent/contents/'
                 "rootobjects; I3 every object is its parent's entry unless superseded; I4 the walk up ends in a root; I5 kinds "
                 'fit) holds initially (C02_inv_init), is preserved by addObject incl. handleDuplicate (C02_inv_add), by '
                 '_addUnprocessedModule incl. both duplicate-module rules (C02_inv_add_module, C02_inv_dup_module), by '
                 'Documentable.reparent (C02_inv_reparent) under their guards; a guarded operation does not raise (C02_step_total) '
                 'so every guarded history completes in a state satisfying Inv (C02_inv_history; executable form '
                 'C02_inv_history_exec with C02_guard_b_sound); the executable checker decides Inv (C02_inv_check_iff); the '
                 'fuelled walks do not run out of fuel (C02_fuel_*); subclasses is the exact inverse of baseobjects '
                 '(C02_subclasses_inverse); every linearisation starts with the class and holds each resolved base once '
                 '(C02_mro_shape, corollary of C05); implementedby is the exact inverse of implements (C02_implements_inverse); '
                 'page file names are injective and disjoint from the summary pages except for the recorded names '
                 '(C02_url_injective_partial). _refuted witnesses (vm_compute), also as single breaking steps from an Inv state, for '
                 'the recorded defects. Tie to the source, two ways: (a) harness/gen/gen_c02_code.py translates the bodies of '
                 'addObject / handleDuplicate / _remove / reparent / _handle_reparenting_pre/_post into Gen/RegistryCode.v on every '
                 'run and C02_code_*_is_model prove that interpreting THAT code is the model, for all states and arguments; '
                 '(b) exhaustive + random operation histories through the real API vs the extracted '
                 'model, state for state, incl. the MRO of every class and the zope back-references; inv_check cross-validated '
                 'against the Python oracle; generated source projects through the real builder checked by the oracle.'),
        'note': ('Trusted: Coq kernel, ExtrOcamlBasic extraction + OCaml driver, the Python harness, injectivity of the name '
                 'rendering / quote(). Not proved, sampled: that the AST builder only issues guarded operations; name resolution '
                 'feeding baseobjects / find_object (C04, C07).'),
        'technique': 'Coq proof (state-machine invariant, totality) + exhaustive/random model-vs-implementation correspondence + oracle',
    }
    assumptions = ['name bases contain neither blank nor dot', 'modules are added before processing (never re-added after)']

    # ---------------------------------------------------------------- (i) operation sequences
    def op_cases(self) -> List[List[Any]]:
        names = [nm_(1), nm_(2), nm_(3)]
        maxlen = 4 if self.tier == 'quick' else 5
        cases = list(CORPUS_OPS)
        if maxlen == 4:
            ex = enumerate_ops(3, names, wide=True) + enumerate_ops(4, names, wide=False, child_classes=(2, 3))
        else:
            ex = enumerate_ops(4, names, wide=True) + enumerate_ops(5, names[:2], wide=False, child_classes=(2,))
        seen = set(json.dumps(c) for c in cases)
        for c in ex:
            k = json.dumps(c)
            if k not in seen:
                seen.add(k)
                cases.append(c)
        self.stats['ops_exhaustive_maxlen'] = maxlen
        self.stats['ops_exhaustive'] = len(cases) - len(CORPUS_OPS)
        self.exhaustive = True
        g = OpGen(self.rng)
        nrand = 2000 if self.tier == 'quick' else 100000
        for i in range(nrand):
            c = g.history(self.rng.randint(3, 40), wild=0.0 if i % 3 else 0.12)
            k = json.dumps(c)
            if k not in seen:
                seen.add(k)
                cases.append(c)
        self.stats['ops_random'] = nrand
        return cases

    def run_ops(self, cases: List[List[Any]]) -> List[Violation]:
        """Chunks of histories are evaluated in parallel processes (each runs the impl worker, the extracted model,
        the canonical diff and the oracle on its chunk) so that memory stays bounded in the thorough tier."""
        from concurrent.futures import ProcessPoolExecutor
        size = 3000
        chunks = [cases[i:i + size] for i in range(0, len(cases), size)]
        binary = str(self.binaries['registry'])
        out: List[Violation] = []
        with ProcessPoolExecutor(max_workers=12) as ex:
            for viols, stats, nt in ex.map(eval_ops_chunk, [(c, binary) for c in chunks]):
                for k, v in stats.items():
                    self.count(k, v)
                self.stats['distinct_nontrivial_ops'] = self.stats.get('distinct_nontrivial_ops', 0) + nt
                for kind, what, case, exp, obs in viols:
                    if kind == 'correspondence':
                        if sum(1 for v in out if v.kind == 'correspondence') < 10:
                            out.append(Violation(kind, what, case=case, expected=exp, observed=obs))
                    else:
                        k = obs['class']
                        lim = self._kept.setdefault(k, 0)
                        if lim < (40 if k == 'unknown' else 4):
                            self._kept[k] = lim + 1
                            out.append(Violation(kind, what, case=case, expected=exp, observed=obs))
        return out

    def group(self, fails: List[Dict[str, Any]], obs: Any, case: Any) -> List[Violation]:
        """One Violation per class of failure of one case (classes: the known-finding ids, or 'unknown')."""
        by = group_failures(fails, obs)
        out = []
        for k, fs in by.items():
            self.count('oracle_' + k)
            lim = self._kept.setdefault(k, 0)
            if lim >= (40 if k == 'unknown' else 4):
                continue
            self._kept[k] = lim + 1
            out.append(Violation('oracle', fs[0]['what'], case=case,
                                 observed={'class': k, 'failures': [dict(code=f['code'], what=f['what']) for f in fs[:6]]}))
        return out

    # ---------------------------------------------------------------- (ii) projects
    def project_cases(self) -> List[Dict[str, Any]]:
        cases = [dict(c) for c in CORPUS_PROJECTS]
        g = ProjGen(self.rng)
        n = 200 if self.tier == 'quick' else 5000
        seen = set()
        while len(cases) < n + len(CORPUS_PROJECTS):
            p = g.project()
            k = json.dumps(p, sort_keys=True)
            if k in seen:
                continue
            seen.add(k)
            cases.append(p)
        fam = hierarchy_family()
        self.stats['projects_hierarchy_family'] = len(fam)
        cases.extend(fam)
        h = HierGen(self.rng)
        nh = 300 if self.tier == 'quick' else 6000
        while nh > 0:
            p = h.project()
            k = json.dumps(p, sort_keys=True)
            if k not in seen:
                seen.add(k)
                cases.append(p)
            nh -= 1
        self.stats['projects'] = len(cases)
        return cases

    def run_projects(self, cases: List[Dict[str, Any]]) -> List[Violation]:
        out: List[Violation] = []
        res = lib.run_impl_worker('c02_project.py', cases, jobs=16)
        for c, r in zip(cases, res):
            if r['failed'] is not None:
                # an aborting analysis is C01's subject; here it only means there is no System to look at
                self.count('projects_aborted')
                self.notes.append('project analysis raised: ' + str(r['failed'])[:200]) if len(self.notes) < 5 else None
                continue
            obs = r['obs']
            self.count('projects_objects', len(obs['objects']))
            self.count('projects_moves', len(obs['moves']))
            self.count('projects_superseded', sum(1 for o in obs['objects'] if o['sup']))
            if obs['moves'] or any(o['sup'] for o in obs['objects']):
                self.count('distinct_nontrivial_projects')
            if any(o['implementedby'] for o in obs['objects']):
                self.count('projects_with_interfaces')
            if any(first is None and now is not None for o in obs['objects'] for _, first, now in (o.get('base_scope') or [])):
                self.count('projects_base_resolved_late')
            out.extend(self.group(oracle(obs), obs, c))
        return out

    # ---------------------------------------------------------------- (iii) interface back-references
    def zope_cases(self) -> List[Dict[str, Any]]:
        """Exhaustive: <= 3 classes, each an interface or not, each with <= 2 names that resolve to any class or to
        nothing, every order of the classes; plus random larger ones."""
        cases: List[Dict[str, Any]] = []
        for n in (1, 2, 3):
            tgt = [None] + list(range(n))
            tlists = [[]] + [[a] for a in tgt] + [[a, b] for a in tgt for b in tgt]
            if n == 3:
                tlists = [[]] + [[a] for a in tgt] + [[a, a] for a in tgt[1:]] + [[0, 1], [1, 0], [2, None]]
            for flags in itertools.product((0, 1), repeat=n):
                for ts in itertools.product(tlists, repeat=n):
                    for order in itertools.permutations(range(n)):
                        cases.append({'objs': [[f, list(t)] for f, t in zip(flags, ts)], 'order': list(order)})
        nrand = 300 if self.tier == 'quick' else 20000
        for _ in range(nrand):
            n = self.rng.randint(4, 9)
            objs = [[int(self.rng.random() < 0.5),
                     [self.rng.choice([None] + list(range(n))) for _ in range(self.rng.randint(0, 4))]] for _ in range(n)]
            order = list(range(n))
            self.rng.shuffle(order)
            cases.append({'objs': objs, 'order': order})
        if self.tier == 'quick':
            cases = cases[::3] + cases[-nrand:]
        self.stats['zope_cases'] = len(cases)
        return cases

    def run_zope(self, cases: List[Dict[str, Any]]) -> List[Violation]:
        out: List[Violation] = []
        impl = lib.run_impl_worker('c02_zope.py', cases, jobs=8)
        mod = self.model('implements', [enc([len(c['objs']), [[f, [None if t is None else [t] for t in ts]] for f, ts in c['objs']],
                                              c['order']]) for c in cases])
        nt = 0
        for c, r, m in zip(cases, impl, mod):
            mm = [list(x) for x in dec(m)]
            if any(r):
                nt += 1
            if mm != r and len(out) < 10:
                out.append(Violation('correspondence', 'Model.Implements and zopeinterface.postProcess disagree on '
                                     'implementedby_directly', case={'zope': c}, expected=mm, observed=r))
            # D3 on the real result: x is listed by i exactly when x names the interface i; listed once
            for i, lst in enumerate(r):
                want = [x for x in c['order'] if c['objs'][i][0] and i in c['objs'][x][1]]
                if sorted(lst) != sorted(want) and len([v for v in out if v.kind == 'oracle']) < 10:
                    out.append(Violation('oracle', 'interface C%d is implemented by %s according to the declarations but lists %s'
                                         % (i, want, lst), case={'zope': c}, observed={'class': 'unknown', 'failures': []}))
        self.stats['distinct_nontrivial_zope'] = nt
        return out

    def correspondence(self) -> List[Violation]:
        self._kept: Dict[str, int] = {}
        ops = self.op_cases()
        out = self.run_ops(ops)
        projs = self.project_cases()
        out.extend(self.run_projects(projs))
        zc = self.zope_cases()
        out.extend(self.run_zope(zc))
        self.evaluations = len(ops) + len(projs) + len(zc)
        self.stats['distinct_nontrivial'] = self.stats.get('distinct_nontrivial_ops', 0) + \
            self.stats.get('distinct_nontrivial_projects', 0) + self.stats.get('distinct_nontrivial_zope', 0)
        for c in ops[len(CORPUS_OPS) + 5000:len(CORPUS_OPS) + 5002] + ops[-2:]:
            self.sample({'ops': c})
        self.sample(projs[-1])
        return out

    def search(self, broken: List[Violation]) -> List[Violation]:
        """A proof or the correspondence broke: run the oracle on the diverging histories and on a larger stream."""
        self._kept = {}
        found: List[Violation] = []
        cases = [b.case['ops'] for b in broken if isinstance(b.case, dict) and 'ops' in b.case]
        g = OpGen(self.rng)
        cases += [g.history(self.rng.randint(3, 30), wild=0.0) for _ in range(4000)]
        # only guarded histories are pydoctor's behaviour (eval_ops_chunk applies the oracle to those only); when the
        # model itself is broken fall back to histories without unguarded parents
        try:
            viols, _, _ = eval_ops_chunk((cases, str(self.binaries['registry'])))
        except Exception:  # noqa
            viols = []
        for kind, what, case, exp, obs in viols:
            if kind == 'oracle' and obs['class'] == 'unknown':
                found.append(Violation(kind, what, case=case, expected=exp, observed=obs))
        if not found:
            gp = ProjGen(self.rng)
            projs = [gp.project() for _ in range(600)]
            for c, r in zip(projs, lib.run_impl_worker('c02_project.py', projs, jobs=16)):
                if r['failed'] is None:
                    for v in self.group(oracle(r['obs']), r['obs'], c):
                        if v.observed['class'] == 'unknown':
                            found.append(v)
        return found[:5]

    def classify_known(self, v: Violation, known: List[dict]) -> Optional[dict]:
        if v.kind != 'oracle' or not isinstance(v.observed, dict):
            return None
        k = v.observed.get('class')
        for e in known:
            if e.get('match', {}).get('class') == k:
                return e
        return None

    def replay(self, data: Any) -> int:
        case = data['input']
        self._kept = {}
        if isinstance(case, dict) and 'ops' in case:
            ops = case['ops']
            r = lib.run_impl_worker('c02_ops.py', [ops_for_impl(ops)])[0]
            self.binaries['registry'] = lib.build_model('C02_registry', 'XRegistry.v')[0]
            cm = canon_model(dec(self.model('registry', [ops_for_model(ops)])[0]))
            ci = canon_impl(r, len(cm['objects']))
            print('operations :', json.dumps(ops_for_impl(ops)))
            print('model      :', json.dumps({k: v for k, v in cm.items()}))
            print('pydoctor   :', json.dumps(ci), r.get('exc') or '')
            inv = cm.pop('inv', None)
            guarded = cm.pop('guarded', None)
            cm.pop('mros', None)
            print('guarded    :', guarded, ' inv_check:', inv)
            rc = 0
            if cm.get('failed') != ci.get('failed') or (cm['failed'] is None and cm != ci):
                print('correspondence: model and implementation DISAGREE')
                rc = 1
            if r['failed'] is None:
                fails = oracle(r['obs'])
                for f in fails:
                    print('property   : VIOLATED [%s, class %s] %s' % (f['code'], classify_failure(f, r['obs']) or 'unknown',
                                                                       f['what']))
                if guarded and any(classify_failure(f, r['obs']) is None for f in fails):
                    rc = 1
                if not fails:
                    print('property   : holds on this history')
            return rc
        if isinstance(case, dict) and 'zope' in case:
            z = case['zope']
            r = lib.run_impl_worker('c02_zope.py', [z])[0]
            print('classes (isinterface, names resolve to):', z['objs'], ' order:', z['order'])
            print('implementedby_directly (real):', r)
            rc = 0
            for i, lst in enumerate(r):
                want = [x for x in z['order'] if z['objs'][i][0] and i in z['objs'][x][1]]
                if sorted(lst) != sorted(want):
                    print('property   : VIOLATED interface C%d must be implemented by exactly %s' % (i, want))
                    rc = 1
            if not rc:
                print('property   : holds on this input')
            return rc
        r = lib.run_impl_worker('c02_project.py', [case])[0]
        print('project    :', json.dumps(case, indent=1))
        if r['failed'] is not None:
            print('analysis raised:', r['failed'])
            return 1
        obs = r['obs']
        print('allobjects :', json.dumps([[k, obs['objects'][i]['full']] for k, i in obs['allobjects']]))
        print('rootobjects:', [obs['objects'][i]['full'] for i in obs['roots']], ' moves:', obs['moves'])
        fails = oracle(obs)
        rc = 0
        for f in fails:
            cl = classify_failure(f, obs)
            print('property   : VIOLATED [%s, class %s] %s' % (f['code'], cl or 'unknown', f['what']))
            if cl is None:
                rc = 1
        if not fails:
            print('property   : holds on this project')
        return rc
