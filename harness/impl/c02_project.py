"""C02 worker (ii): generated SOURCE projects analysed by the REAL builder.
case = {"files": [[relpath, text], ...], "add": [relpath of a root file or package directory, ...],
        "strings": [[modname, text, is_package, parent_name|None], ...]   (added with addModuleString after `add`),
        "order": "given" | "sorted" | "reversed"   (order of system.unprocessed_modules before processing)}
The files are written to a scratch directory (mkdtemp), removed afterwards.
out = {"failed": None|"exc text", "obs": observe(...)}"""
import io, json, sys, contextlib, tempfile, shutil
from pathlib import Path
from pydoctor import model
from pydoctor.options import Options
import c02_common as common

_OPTS = None


def options():
    global _OPTS
    if _OPTS is None:
        _OPTS = Options.defaults()
        _OPTS.verbosity = -10
    return _OPTS


def run_case(case):
    sys.setrecursionlimit(4000)
    d = Path(tempfile.mkdtemp(prefix='verif_c02_'))
    try:
        for rel, text in case.get('files', []):
            p = d / rel
            p.parent.mkdir(parents=True, exist_ok=True)
            p.write_text(text, encoding='utf-8')
        system = model.System(options())
        with common.Watch() as w:
            try:
                builder = system.systemBuilder(system)
                for rel in case.get('add', []):
                    builder.addModule(d / rel)
                for modname, text, is_pkg, parent in case.get('strings', []):
                    builder.addModuleString(text, modname, is_package=bool(is_pkg), parent_name=parent)
                order = case.get('order', 'given')
                if order == 'sorted':
                    system.unprocessed_modules.sort(key=lambda m: m.fullName())
                elif order == 'reversed':
                    system.unprocessed_modules.reverse()
                builder.buildModules()
            except (Exception, RecursionError) as e:  # noqa
                import traceback
                return {'failed': '%s: %s | %s' % (type(e).__name__, str(e)[:300],
                                                  traceback.format_exc().splitlines()[-3:]), 'obs': None}
            obs = common.observe(system, None, w.sup, w.moves)
        return {'failed': None, 'obs': obs}
    finally:
        shutil.rmtree(d, ignore_errors=True)


if __name__ == '__main__':
    cases = json.load(sys.stdin)
    out = []
    buf = io.StringIO()
    with contextlib.redirect_stdout(buf), contextlib.redirect_stderr(io.StringIO()):
        for c in cases:
            out.append(run_case(c))
    json.dump(out, sys.stdout)
