"""C06/C07 worker: builds the REAL pydoctor System for a small multi-module project given as source strings, imposes a
processing order by permuting system.unprocessed_modules before buildModules(), and dumps what the properties observe.

stdin : JSON list of jobs   job = {"mods": [[short_name, source, is_package, parent_fullname|None], ...]  (parents first),
                                  "orders": [[module full names], ...],
                                  "queries": [[scope_fullname, identifier], ...],
                                  "docstring_links": bool}
stdout: JSON list (one per job) of lists (one per order) of
        {"objects": {key: [type, kind, docstring, fullName(), bases|None, baseobjects|None, mro|None]},
         "scopes":  {key: [contents keys, [[alias, target]...], all|None]},
         "answers": [[expandName, resolveName, link_to, xref, [find_status, find_object]] | None ...],
         "doclinks": {key: [[link text, href]...]},
         "states":  [[module, state]...], "order_seen": [...]}
        or {"exc": "..."} when an exception escaped.
Also supports {"package_dir": path, "nschedules": n, "seed": s} jobs: a real package directory analysed under n sampled
reachable schedules; returns the dumps (objects only)."""
import io, json, sys, contextlib, random, re
from pathlib import Path
from pydoctor import model


def obj_dump(system):
    objects = {}
    scopes = {}
    for k, o in system.allobjects.items():
        e = [type(o).__name__, o.kind.name if o.kind is not None else None, o.docstring, o.fullName(), None, None, None]
        if isinstance(o, model.Class):
            e[4] = list(o.bases)
            e[5] = [b.fullName() if b is not None else None for b in o.baseobjects]
            e[6] = [m.fullName() if isinstance(m, model.Class) else m for m in o.mro(True)]
        objects[k] = e
        if isinstance(o, model.CanContainImportsDocumentable):
            al = getattr(o, 'all', None)
            scopes[k] = [list(o.contents.keys()), [[a, t] for a, t in o._localNameToFullName_map.items()],
                         list(al) if al is not None else None]
    return objects, scopes


def name_of(o):
    return o.fullName() if o is not None else None


def answers(system, queries):
    from pydoctor.stanutils import flatten
    out = []
    for scope, ident in queries:
        o = system.allobjects.get(scope)
        if o is None:
            out.append(None)
            continue
        exp = o.expandName(ident)
        res = name_of(o.resolveName(ident))
        # link_to: what annotations / signatures use
        tag = o.docstring_linker.link_to(ident, 'LBL')
        html = flatten(tag)
        m = re.search(r'href="([^"]*)"', html)
        lt = None
        if m:
            # map the href back to the object it points to
            lt = href_target(system, m.group(1), o)
        try:
            with contextlib.redirect_stdout(io.StringIO()):
                x = o.docstring_linker._resolve_identifier_xref(ident, 0)
            xr = x.fullName() if isinstance(x, model.Documentable) else 'URL:' + str(x)
        except LookupError:
            xr = None
        try:
            f = system.find_object(ident)
            fo = [1, f.fullName()] if f is not None else [0, None]
        except LookupError:
            fo = [2, None]
        except IndexError:
            fo = [3, None]
        out.append([exp, res, lt, xr, fo])
    return out


def href_target(system, href, ctx):
    from urllib.parse import unquote
    if href.startswith('#'):
        href = ctx.page_object.url + href
    for o in system.allobjects.values():
        if o.url == href:
            return o.fullName()
    return 'HREF:' + unquote(href)


def doclinks(system):
    """hrefs the real docstring pipeline produces for every docstring that contains L{...}."""
    from pydoctor import epydoc2stan
    from pydoctor.stanutils import flatten
    out = {}
    for k, o in list(system.allobjects.items()):
        if o.docstring and 'L{' in o.docstring:
            with contextlib.redirect_stdout(io.StringIO()):
                html = flatten(epydoc2stan.format_docstring(o))
            links = []
            for m in re.finditer(r'<code>(.*?)</code>', html, flags=re.S):
                inner = m.group(1)
                h = re.search(r'href="([^"]*)"', inner)
                text = re.sub(r'<[^>]*>', '', inner)
                links.append([text, href_target(system, h.group(1), o) if h else None])
            out[k] = links
    return out


def run_order(job, order):
    system = model.System()
    system.options.verbosity = -10
    builder = system.systemBuilder(system)
    for short, src, is_pkg, parent in job['mods']:
        builder.addModuleString(src, short, is_package=bool(is_pkg), parent_name=parent)
    by = {m.fullName(): m for m in system.unprocessed_modules}
    system.unprocessed_modules[:] = [by[n] for n in order]
    seen = []
    orig = system.processModule

    def pm(mod):
        seen.append(mod.fullName())
        return orig(mod)
    system.processModule = pm
    # when a star import finished copying names / when an object was moved (for the classification of the known
    # star-import variant of the stale name: did the star import run before the move?)
    events = []
    from pydoctor import astbuilder
    orig_all = astbuilder.ModuleVistor._importAll
    orig_rep = model.Documentable.reparent

    def import_all(self, modname):
        try:
            return orig_all(self, modname)
        finally:
            events.append(['star-done', self.builder.current.fullName(), modname])

    def reparent(self, new_parent, new_name):
        events.append(['move', '%s.%s' % (new_parent.fullName(), new_name)])
        return orig_rep(self, new_parent, new_name)
    astbuilder.ModuleVistor._importAll = import_all
    model.Documentable.reparent = reparent
    try:
        try:
            builder.buildModules()
        finally:
            astbuilder.ModuleVistor._importAll = orig_all
            model.Documentable.reparent = orig_rep
        objects, scopes = obj_dump(system)
        res = {'objects': objects, 'scopes': scopes, 'answers': answers(system, job.get('queries', [])),
               'order_seen': seen, 'events': events}
        if job.get('docstring_links'):
            res['doclinks'] = doclinks(system)
        return res
    except BaseException as e:  # noqa
        import traceback
        return {'exc': '%s: %s' % (type(e).__name__, e), 'tb': traceback.format_exc()[-1500:]}


def reachable_orders(system, n, rng):
    """n sampled orders the real tool can realise: a package's own module first, then its children in any order
    (each child with its whole sub-tree), roots in any order."""
    roots = list(system.rootobjects)

    def pre(mod, rng):
        out = [mod]
        kids = [c for c in mod.contents.values() if isinstance(c, model.Module)]
        rng.shuffle(kids)
        for k in kids:
            out.extend(pre(k, rng))
        return out
    orders = []
    for i in range(n):
        rs = list(roots)
        if i:
            rng.shuffle(rs)
        o = []
        for r in rs:
            if i == 0:
                class Keep:            # first order: as discovered (what a user sees)
                    @staticmethod
                    def shuffle(x):
                        pass
                o.extend(pre(r, Keep))
            else:
                o.extend(pre(r, rng))
        orders.append(o)
    return orders


def run_package(job):
    rng = random.Random(job.get('seed', 0))
    dumps = []
    orders_used = []
    for i in range(job['nschedules']):
        system = model.System()
        system.options.verbosity = -10
        builder = system.systemBuilder(system)
        for p in job['package_dirs']:
            builder.addModule(Path(p))
        cand = reachable_orders(system, i + 1, random.Random(job.get('seed', 0) * 1000 + i))[-1]
        assert sorted(m.fullName() for m in cand) == sorted(m.fullName() for m in system.unprocessed_modules)
        system.unprocessed_modules[:] = cand
        try:
            with contextlib.redirect_stdout(io.StringIO()):
                builder.buildModules()
            objects, _ = obj_dump(system)
            dumps.append({'objects': objects})
        except BaseException as e:  # noqa
            dumps.append({'exc': '%s: %s' % (type(e).__name__, e)})
        orders_used.append([m.fullName() for m in cand])
    return {'dumps': dumps, 'orders': orders_used}


if __name__ == '__main__':
    jobs = json.load(sys.stdin)
    out = []
    buf = io.StringIO()
    with contextlib.redirect_stdout(buf):
        for job in jobs:
            if 'package_dirs' in job:
                out.append(run_package(job))
            else:
                out.append([run_order(job, o) for o in job['orders']])
    json.dump(out, sys.stdout)
