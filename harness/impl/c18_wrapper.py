"""C18: runs pydoctor's CLI with every directory listing shuffled.
    python c18_wrapper.py <shuffle_seed> <pydoctor args...>
pathlib.Path.iterdir, os.listdir and os.scandir return their entries in a seeded pseudo-random order (seed < 0: untouched);
this is what a file system is allowed to do. Nothing else is changed; driver.main is then called as the console script does."""
import os, pathlib, random, sys

seed = int(sys.argv[1])
args = sys.argv[2:]

if seed >= 0:
    def shuf(lst, salt):
        lst = sorted(lst, key=lambda x: x if isinstance(x, str) else (x.path if isinstance(x, os.DirEntry) else str(x)))
        random.Random('%d:%s' % (seed, salt)).shuffle(lst)
        return lst

    def salt_of(path):
        # the last two components only: the scratch prefix changes from run to run, the shuffle must not
        if isinstance(path, int):          # os.scandir(fd)
            return 'fd'
        if isinstance(path, bytes):
            path = os.fsdecode(path)
        return '/'.join(pathlib.PurePath(os.fspath(path)).parts[-2:])

    _iterdir = pathlib.Path.iterdir
    def iterdir(self):
        return iter(shuf(list(_iterdir(self)), salt_of(self)))
    pathlib.Path.iterdir = iterdir

    _listdir = os.listdir
    def listdir(path='.'):
        return shuf(_listdir(path), salt_of(path))
    os.listdir = listdir

    _scandir = os.scandir
    class _ScanDir:
        def __init__(self, path):
            with _scandir(path) as it:
                self._entries = shuf(list(it), salt_of(path))
        def __iter__(self):
            return iter(self._entries)
        def __next__(self):
            raise StopIteration
        def __enter__(self):
            return self
        def __exit__(self, *a):
            return False
        def close(self):
            pass
    def scandir(path='.'):
        return _ScanDir(path)
    os.scandir = scandir

from pydoctor.driver import main
sys.exit(main(args))
