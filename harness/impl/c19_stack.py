"""Real AST builder on generated modules: after processModuleAST the scope stack must be empty,
`current` back to what it was and `currentMod` reset.  Observed by wrapping processModuleAST from outside.
stdin: {"n": N, "seed": S} or {"sources": [...]};  stdout: {"modules":…, "skipnode_hits":…, "failures":[…]}"""
import json, random, sys
from pydoctor import model, astbuilder

hits = {'n': 0}
_Orig = astbuilder.ModuleVistor.SkipNode
class CountingSkipNode(_Orig):
    def __init__(self, *a):
        hits['n'] += 1
        super().__init__(*a)
astbuilder.ModuleVistor.SkipNode = CountingSkipNode
# walkabout catches self.SkipNode, which now is the subclass; exceptions raised are instances of it: fine.

observed = []
_orig_process = astbuilder.ASTBuilder.processModuleAST
def wrapped(self, mod_ast, mod):
    before = (self.current, list(self._stack), self.currentMod)
    try:
        _orig_process(self, mod_ast, mod)
    finally:
        observed.append((mod.fullName(), before, (self.current, list(self._stack), self.currentMod)))
astbuilder.ASTBuilder.processModuleAST = wrapped


def gen_module(rng: random.Random) -> str:
    lines = ['import typing', 'from typing import overload']
    def body(indent: int, depth: int, ctx: str) -> None:
        pad = '    ' * indent
        n = rng.randint(1, 4)
        for _ in range(n):
            k = rng.choice(['def', 'class', 'prop', 'overload', 'main', 'assign', 'if', 'try', 'doc', 'async',
                            'late_overload', 'setter', 'with', 'for'])
            name = 'n%d' % rng.randint(0, 5)
            if depth <= 0 and k in ('def', 'class', 'if', 'try', 'main', 'with', 'for', 'async'):
                k = 'assign'
            if k == 'def' or k == 'async':
                lines.append('%s%sdef %s(a, b=1):' % (pad, 'async ' if k == 'async' else '', name))
                body(indent + 1, depth - 1, 'func')
            elif k == 'class':
                lines.append('%sclass %s:' % (pad, name.upper()))
                body(indent + 1, depth - 1, 'class')
            elif k == 'prop':
                lines.append('%s@property' % pad)
                lines.append('%sdef %s(self):' % (pad, name))
                lines.append('%s    def inner(): pass' % pad)
                lines.append('%s    return 1' % pad)
            elif k == 'setter':
                lines.append('%s@%s.setter' % (pad, name))
                lines.append('%sdef %s(self, v):' % (pad, name))
                lines.append('%s    class K: pass' % pad)
            elif k == 'overload':
                lines.append('%s@overload' % pad)
                lines.append('%sdef %s(x: int) -> int: ...' % (pad, name))
                lines.append('%sdef %s(x): return x' % (pad, name))
            elif k == 'late_overload':
                lines.append('%s@overload' % pad)
                lines.append('%sdef %s(x: int) -> int: ...' % (pad, name))
                lines.append('%sdef %s(x): return x' % (pad, name))
                lines.append('%s@overload' % pad)
                lines.append('%sdef %s(x: str) -> str:' % (pad, name))
                lines.append('%s    class Z: pass' % pad)
            elif k == 'main':
                lines.append("%sif __name__ == '__main__':" % pad)
                body(indent + 1, depth - 1, ctx)
            elif k == 'if':
                lines.append('%sif typing.TYPE_CHECKING:' % pad)
                body(indent + 1, depth - 1, ctx)
                lines.append('%selse:' % pad)
                body(indent + 1, depth - 1, ctx)
            elif k == 'try':
                lines.append('%stry:' % pad)
                body(indent + 1, depth - 1, ctx)
                lines.append('%sexcept Exception:' % pad)
                body(indent + 1, depth - 1, ctx)
                lines.append('%sfinally:' % pad)
                body(indent + 1, depth - 1, ctx)
            elif k == 'with':
                lines.append('%swith open("x") as f:' % pad)
                body(indent + 1, depth - 1, ctx)
            elif k == 'for':
                lines.append('%sfor i in range(3):' % pad)
                body(indent + 1, depth - 1, ctx)
            elif k == 'doc':
                lines.append('%s%s = 1' % (pad, name))
                lines.append('%s"""doc of %s"""' % (pad, name))
            else:
                lines.append('%s%s: int = %d' % (pad, name, rng.randint(0, 9)))
    body(0, 4, 'module')
    return '\n'.join(lines) + '\n'


# boundary modules: bodies of length 0, 1, 2; docstring-only suites at every level; every SkipNode site alone
CORPUS = [
    '', '\n', '"""only a docstring"""\n', '"""doc"""\nx = 1\n', 'pass\n', 'x = 1\n', '...\n',
    'class C:\n    """only doc"""\n', 'class C: pass\n', 'def f():\n    """only doc"""\n', 'def f(): pass\n',
    'async def f():\n    """only doc"""\n',
    "if __name__ == '__main__':\n    def f(): pass\n    class C: pass\n",
    'def f():\n    def g():\n        def h(): pass\n    class K:\n        def m(self): pass\n',
    'class C:\n    @property\n    def p(self):\n        """doc"""\n        def inner(): pass\n        return 1\n    @p.setter\n    def p(self, v):\n        class Z: pass\n',
    'from typing import overload\n@overload\ndef f(x: int) -> int: ...\n@overload\ndef f(x: str) -> str: ...\ndef f(x): return x\n@overload\ndef f(x: bytes) -> bytes:\n    class Late: pass\n',
    'class A:\n    class B:\n        class C:\n            """deep"""\n',
    '"""doc"""\nclass C:\n    """doc"""\n    def m(self):\n        """doc"""\n',
    'import os\n', 'from os import path\n', '__all__ = []\n', '__docformat__ = "epytext"\n',
]

def main() -> None:
    req = json.load(sys.stdin)
    layouts = None
    if 'sources' in req:
        sources = req['sources']
        layouts = req.get('layouts')
    else:
        rng = random.Random(req['seed'])
        sources = list(CORPUS) + [gen_module(rng) for _ in range(req['n'])]
    failures = []
    for i, src in enumerate(sources):
        observed.clear()
        try:
            compile(src, 'm', 'exec')
        except SyntaxError as e:
            continue
        system = model.System()
        system.options.verbosity = -10
        b = system.systemBuilder(system)
        # three layouts in turn: a root package, a sub-module of a package (its parent is a Package: leaving it must reset
        # currentMod to None, not to the parent), a plain root module
        lay = layouts[i] if layouts else i % 3
        if lay == 1:
            b.addModuleString('"""package"""\n', 'pk%d' % i, is_package=True)
            b.addModuleString(src, 'm%d' % i, parent_name='pk%d' % i, is_package=(i % 2 == 0))
        else:
            b.addModuleString(src, 'm%d' % i, is_package=(lay == 0))
        try:
            b.buildModules()
        except Exception as e:  # builder crashed: stack discipline was violated by an assert or else
            failures.append({'source': src, 'layout': lay, 'what': 'builder raised %s: %s' % (type(e).__name__, e)})
            continue
        for name, before, after in observed:
            if after[1] != [] or after[0] is not before[0] or after[2] is not None:
                failures.append({'source': src, 'layout': lay, 'what': 'after %s: current=%r stack=%r currentMod=%r'
                                 % (name, after[0], after[1], after[2])})
    json.dump({'modules': len(sources), 'skipnode_hits': hits['n'], 'failures': failures}, sys.stdout)

main()
