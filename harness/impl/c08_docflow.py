"""C08 worker: runs the REAL pydoctor docstring pipeline (epydoc2stan.parse_docstring / reportErrors /
ensure_parsed_docstring / format_docstring / format_summary / format_toc / extract_fields, markup.processtypes,
ParsedDocstring.get_summary / get_toc / to_stan, epytext.parse) on cases given on stdin.

stdin : JSON list of cases, each {"k": "inject" | "real" | "epytail", ...}
stdout: JSON list of observations (same order).

 inject : fault injection.  Stub parsers are substituted by monkeypatching `epydoc2stan.get_parser_by_name`
          (the real lookup still runs first, so an unknown docformat still raises ImportError inside pydoctor);
          stub ParsedDocstring subclasses raise chosen exceptions from to_stan / to_node; `pydoctor.node2stan.node2stan`
          is wrapped so that documents carrying the marker BOOM fail to render (summary / toc renderer failure).
          Everything else is the real code.  Observation: per operation the classified result + what was reported,
          then the final parse_errors and caches.
 real   : the real parsers on one docstring x docformat x processtypes x object kind, through the real AST builder.
          Every call is made in a child process watched by a supervisor: no progress within the limit = hang.
 epytail: epytext.parse with `_tokenize` replaced by a stub that appends the given errors: who is raised?

No pydoctor source is modified; everything is patched from here."""
import json, os, re, select, signal, subprocess, sys, time

LIMIT = float(os.environ.get('C08_CALL_LIMIT', '20'))


# ------------------------------------------------------------------------------------------------ child side
def child_main():
    import io, contextlib, traceback
    from pydoctor import model, epydoc2stan, node2stan as n2s_mod
    from pydoctor.epydoc import markup
    from pydoctor.epydoc.markup import ParsedDocstring, ParseError, Field, epytext, plaintext
    from pydoctor.epydoc.docutils import new_document, set_node_attributes
    from pydoctor.stanutils import flatten
    from docutils import nodes
    from twisted.web.template import Tag, tags

    class Custom(Exception):
        pass

    EXC = {'ValueError': ValueError, 'KeyError': KeyError, 'RecursionError': RecursionError, 'Custom': Custom,
           'NotImplementedError': NotImplementedError, 'AssertionError': AssertionError, 'TypeError': TypeError,
           'AttributeError': AttributeError, 'IndexError': IndexError, 'UnicodeError': UnicodeError,
           'StopIteration': StopIteration, 'ParseError': None}

    def mkexc(name):
        if name == 'ParseError':
            return ParseError('injected', 0)
        return EXC[name]('injected')

    real_node2stan = n2s_mod.node2stan

    def patched_node2stan(node, linker, *a, **k):
        try:
            t = node.astext() if hasattr(node, 'astext') else ''.join(n.astext() for n in node)
        except Exception:  # noqa
            t = ''
        if 'BOOM' in t:
            raise ValueError('injected renderer failure')
        return real_node2stan(node, linker, *a, **k)
    n2s_mod.node2stan = patched_node2stan

    real_get_parser = epydoc2stan.get_parser_by_name

    SRC = ('class C:\n'
           '    x = 1\n'
           '    def meth(self, a):\n'
           '        pass\n'
           '    @property\n'
           '    def prop(self):\n'
           '        pass\n'
           'def f(a, b=1):\n'
           '    pass\n'
           'class Other:\n'
           '    pass\n'
           'class D(C):\n'
           '    x = 2\n'
           '    def meth(self, a):\n'
           '        pass\n'
           '    @property\n'
           '    def prop(self):\n'
           '        pass\n')

    class StubParsed(ParsedDocstring):
        """An opaque parsed docstring whose behaviour is given by spec (see harness/c08.py: pdoc specs)."""
        def __init__(self, spec):
            fields = []
            for i, f in enumerate(spec.get('fields', [])):
                fields.append(Field(f['tag'], f.get('arg'), StubParsed(f['body']), i + 1))
            super().__init__(fields)
            self.spec = spec
            self.calls = {'to_stan': 0, 'to_node': 0}

        @property
        def has_body(self):
            return True

        def to_stan(self, linker):
            self.calls['to_stan'] += 1
            b = self.spec['to_stan']
            if b != 'ok':
                raise mkexc(b)
            return tags.span('ZQ%dZQ' % self.spec['id'])

        def to_node(self):
            self.calls['to_node'] += 1
            b = self.spec['to_node']
            if b != 'ok':
                raise mkexc(b)
            doc = new_document('stub')
            kids = []
            if self.spec.get('typetext') is not None:
                # the body of a type field: its text is what processtypes() tokenizes
                kids.append(set_node_attributes(nodes.paragraph('', ''), document=doc, lineno=1, children=[
                    set_node_attributes(nodes.Text(self.spec['typetext']), document=doc)]))
                return set_node_attributes(doc, children=kids)
            if self.spec.get('para', True):
                t = 'ZQ%dZQ summary' % (self.spec['id'] + 100) + (' BOOM' if self.spec.get('boom_sum') else '')
                kids.append(set_node_attributes(nodes.paragraph('', ''), document=doc, lineno=1, children=[
                    set_node_attributes(nodes.Text(t), document=doc)]))
            ti = self.spec.get('title', 0)
            if ti:
                t = 'ZQ%dZQ title' % (self.spec['id'] + 200) + (' BOOM' if ti == 2 else '')
                title = set_node_attributes(nodes.title('', ''), document=doc, lineno=2, children=[
                    set_node_attributes(nodes.Text(t), document=doc)])
                kids.append(set_node_attributes(nodes.section('', ids=['s%d' % self.spec['id']]), document=doc,
                                                lineno=2, children=[title]))
            return set_node_attributes(doc, children=kids)

    def classify(stan):
        """a stan tree -> small canonical value"""
        if stan is None:
            return ['none']
        if isinstance(stan, Tag):
            cls = stan.attributes.get('class')
            if stan.tagName == 'p' and cls == 'pre':
                return ['pre', ''.join(c if isinstance(c, str) else '<?>' for c in stan.children)]
            if stan.tagName == 'p' and cls == 'undocumented':
                txt = flatten_text(stan)
                return ['broken'] if txt == 'Broken description' else ['undoc_p', txt]
            if stan.tagName == 'span' and cls == 'undocumented':
                txt = flatten_text(stan)
                if txt == 'Broken summary':
                    return ['broken_summary']
                if txt == 'No summary':
                    return ['no_summary']
                return ['undoc_span']
        txt = flatten_text(stan)
        m = re.search(r'ZQ(\d+)ZQ', txt)
        if m:
            return ['opaque', int(m.group(1))]
        return ['other', txt[:200]]

    def flatten_text(stan):
        try:
            s = flatten(stan)
        except Exception as e:  # noqa
            return '<<flatten failed: %s>>' % type(e).__name__
        s = re.sub(r'<[^>]*>', '', s)
        import html
        return html.unescape(s)

    def stan_text(t):
        """visible text of a stan tree, by walking it (flatten() cannot encode lone surrogates)"""
        acc = []
        def walk(x):
            if isinstance(x, str):
                acc.append(x)
            elif isinstance(x, bytes):
                acc.append(x.decode('utf-8', 'replace'))
            elif isinstance(x, Tag):
                for k in x.children:
                    walk(k)
            elif isinstance(x, (list, tuple)):
                for k in x:
                    walk(k)
            elif x is None:
                pass
            elif hasattr(x, '__iter__'):
                for k in list(x):
                    walk(k)
            else:
                acc.append('<%s>' % type(x).__name__)
        walk(t)
        return ''.join(acc)

    def classify_docstring(div):
        """format_docstring returns div(body, fieldtable)."""
        kids = list(div.children)
        body = kids[0] if kids else None
        if isinstance(body, list):           # unwrap_docstring_stan may hand back the bare children list
            body = Tag('')(*body)
        res = {'body': classify(body)}
        # fields: every stub marker / BROKEN in the field table, in document order
        fl = []
        def walk(t):
            if isinstance(t, Tag):
                c = classify(t) if t.tagName in ('p', 'span', 'code') else None
                if t.tagName == 'p' and c == ['broken']:
                    fl.append(c); return
                if t.tagName == 'span' and c and c[0] == 'opaque' and not any(isinstance(k, Tag) for k in t.children):
                    fl.append(c); return
                for k in t.children:
                    walk(k)
            elif isinstance(t, (list, tuple)):
                for k in t:
                    walk(k)
            elif isinstance(t, str):
                m = re.search(r'ZQ(\d+)ZQ', t)
                if m:
                    fl.append(['opaque', int(m.group(1))])
            elif hasattr(t, '__iter__'):
                for k in list(t):
                    walk(k)
        for k in kids[1:]:
            walk(k)
        res['fields'] = fl
        return res

    def pdoc_repr(p):
        if p is None:
            return None
        if isinstance(p, plaintext.ParsedPlaintextDocstring):
            return ['plain', p._text]
        if isinstance(p, StubParsed):
            return ['mark', p.spec['id']]
        if isinstance(p, epydoc2stan.ParsedStanOnly):
            return ['stanonly', classify(p._fromstan)]
        try:
            t = p.to_node().astext()
        except Exception:  # noqa
            return ['other', type(p).__name__]
        m = re.search(r'ZQ(\d+)ZQ', t)
        if m:
            return ['mark', int(m.group(1))]
        return ['rst', t]

    # ------------------------------------------------------------------ inject
    def run_inject(case):
        system = model.System()
        system.options.verbosity = -10
        system.options.docformat = 'plaintext'
        b = system.systemBuilder(system)
        b.addModuleString(SRC, 'm')
        b.buildModules()
        system.options.docformat = case['sysfmt']
        system.options.processtypes = bool(case['pt'])
        system.options.sidebartocdepth = case.get('tocdepth', 6)
        system.parse_errors.clear()
        mod = system.allobjects['m']
        mod.docformat = case.get('modfmt')
        objs = {}
        for key, o in case['objs'].items():
            ob = system.allobjects[o['name']]
            ob.docstring = o['doc']
            ob.docstring_lineno = 1 if o['doc'] is not None else 0
            ob.parsed_docstring = None
            ob.parsed_summary = None
            objs[key] = ob
        names = {ob.fullName(): key for key, ob in objs.items()}
        stubs = {}
        for key, spec in case.get('preset', {}).items():
            objs[key].parsed_docstring = StubParsed(spec)
        reports = []

        orig_report = model.Documentable.report

        def report(self, descr, section='parsing', lineno_offset=0, thresh=-1):
            reports.append([names.get(self.fullName(), self.fullName()), section, descr, lineno_offset])
            return orig_report(self, descr, section, lineno_offset, thresh)

        parser_calls = []

        def stub_get_parser(docformat, obj=None):
            real = real_get_parser(docformat, obj)       # ImportError for an unknown name, as in pydoctor
            if docformat == 'plaintext':
                return real

            def parser(doc, errs):
                parser_calls.append(doc)
                beh = case['parsers'].get(doc)
                if beh is None:
                    beh = {'kind': 'ok', 'errs': 0, 'pdoc': {'id': 99, 'to_stan': 'ok', 'to_node': 'ok'}}
                for i in range(beh.get('errs', 0)):
                    errs.append(ParseError('E%d' % (beh['pdoc']['id'] * 10 + i), i, is_fatal=False))
                kind = beh['kind']
                if kind == 'ok':
                    return StubParsed(beh['pdoc'])
                if kind == 'pe_app':
                    e = ParseError('E%d' % (beh['pdoc']['id'] * 10 + 9), 3, is_fatal=True)
                    errs.append(e)
                    raise e
                if kind == 'pe_noapp':
                    raise ParseError('not appended', 3, is_fatal=True)
                raise mkexc(kind)
            return parser

        def canon_report(r):
            who, section, descr, off = r
            m = re.match(r'bad (\w+): E(\d+)$', descr)
            if m:
                return [who, section, [0, int(m.group(2))]]
            m = re.match(r'bad (\w+): (\w+): ', descr)
            if m:
                return [who, section, [1] if off == 1 else [2]]
            if descr.startswith('bad '):
                return [who, section, [3, descr[:80]]]      # a processtypes warning (real TypeDocstring text)
            return [who, section, [4, descr[:80]]]

        out = {'ops': []}
        epydoc2stan.get_parser_by_name = stub_get_parser
        model.Documentable.report = report
        try:
            for op in case['ops']:
                name, key = op[0], op[1]
                ob = objs[key]
                n0 = len(reports)
                try:
                    with contextlib.redirect_stdout(io.StringIO()):
                        if name == 'format_docstring':
                            r = classify_docstring(epydoc2stan.format_docstring(ob))
                        elif name == 'format_summary':
                            r = {'stan': classify(epydoc2stan.format_summary(ob))}
                        elif name == 'format_toc':
                            r = {'stan': classify(epydoc2stan.format_toc(ob))}
                        elif name == 'extract_fields':
                            epydoc2stan.extract_fields(ob)
                            r = {}
                        elif name == 'parse_docstring':
                            pd = epydoc2stan.parse_docstring(ob, op[2], objs[op[3]] if len(op) > 3 else ob)
                            r = {'parsed': pdoc_repr(pd)}
                        elif name == 'ensure':
                            s = epydoc2stan.ensure_parsed_docstring(ob)
                            r = {'source': None if s is None else names.get(s.fullName(), s.fullName())}
                        else:
                            raise SystemExit('unknown op %r' % name)
                    r['raised'] = None
                except BaseException as e:  # noqa
                    r = {'raised': type(e).__name__}
                r['reports'] = [canon_report(x) for x in reports[n0:]]
                out['ops'].append(r)
        finally:
            epydoc2stan.get_parser_by_name = real_get_parser
            model.Documentable.report = orig_report
        out['parse_errors'] = sorted([sec, names.get(n, n)] for sec, s in system.parse_errors.items() for n in s)
        out['caches'] = {key: [pdoc_repr(ob.parsed_docstring), pdoc_repr(ob.parsed_summary)] for key, ob in objs.items()}
        out['parser_calls'] = len(parser_calls)
        return out

    # ------------------------------------------------------------------ real parsers
    KIND_SRC = {
        'module': ('%(doc)s\nclass Other:\n    """other doc"""\n', 'm'),
        'class': ('class T:\n    %(doc)s\nclass Other:\n    """other doc"""\n', 'm.T'),
        'function': ('def T(a, b=1):\n    %(doc)s\nclass Other:\n    """other doc"""\n', 'm.T'),
        'method': ('class K:\n    def T(self, a):\n        %(doc)s\nclass Other:\n    """other doc"""\n', 'm.K.T'),
        'attribute': ('class K:\n    T = 1\n    %(doc)s\nclass Other:\n    """other doc"""\n', 'm.K.T'),
        'property': ('class K:\n    @property\n    def T(self):\n        %(doc)s\nclass Other:\n    """other doc"""\n', 'm.K.T'),
        # the docstring is displayed on an object that INHERITS it
        'inherited': ('class K:\n    def T(self, a):\n        %(doc)s\nclass D(K):\n    def T(self, a):\n        pass\n'
                      'class Other:\n    """other doc"""\n', 'm.D.T'),
        'inherited_attr': ('class K:\n    T = 1\n    %(doc)s\nclass D(K):\n    T = 2\n'
                           'class Other:\n    """other doc"""\n', 'm.D.T'),
    }
    CLEAN_SRC = 'class Other:\n    """other doc"""\n'

    def build(src, fmt, pt):
        system = model.System()
        system.options.verbosity = -10
        system.options.docformat = fmt
        system.options.processtypes = bool(pt)
        b = system.systemBuilder(system)
        b.addModuleString(src, 'm')
        b.buildModules()
        return system

    REF_CACHE = {}

    def other_output(system):
        o = system.allobjects['m.Other']
        return [stan_text(epydoc2stan.format_docstring(o)), stan_text(epydoc2stan.format_summary(o)),
                'm.Other' in system.parse_errors['docstring']]

    def run_real(case):
        text, fmt, pt, kind = case['text'], case['fmt'], case['pt'], case['kind']
        tmpl, qn = KIND_SRC[kind]
        src = tmpl % {'doc': repr(text)}
        out = {'raised': None, 'stage': 'build'}
        reports = []
        orig_report = model.Documentable.report

        def report(self, descr, section='parsing', lineno_offset=0, thresh=-1):
            reports.append([self.fullName(), section, descr[:120]])
            return orig_report(self, descr, section, lineno_offset, thresh)
        model.Documentable.report = report
        events = []          # what the real parser did for each docstring it was given

        def wrap_get_parser(docformat, obj=None):
            real = real_get_parser(docformat, obj)

            def parser(doc, errs):
                n0 = len(errs)
                try:
                    res = real(doc, errs)
                except ParseError as e:
                    events.append([doc, 'ParseError', len(errs) - n0, 0])
                    raise
                except BaseException as e:  # noqa
                    events.append([doc, type(e).__name__, len(errs) - n0, 0])
                    raise
                events.append([doc, None, len(errs) - n0, len([e for e in errs[n0:] if e.is_fatal()])])
                return res
            return parser
        fb_calls = []
        real_fb = epydoc2stan.format_docstring_fallback

        def wrap_fb(errs, parsed_doc, ctx):
            fb_calls.append(ctx.fullName())
            return real_fb(errs, parsed_doc, ctx)
        # every to_stan failure (get_to_stan_error is called exactly then), and whether it happened while a FIELD was rendered
        stan_fail = []
        in_field = [0]
        real_gtse = epydoc2stan.get_to_stan_error
        real_field_format = epydoc2stan.Field.format

        def wrap_gtse(e):
            stan_fail.append([bool(in_field[0]), type(e).__name__])
            return real_gtse(e)

        def wrap_field_format(self):
            in_field[0] += 1
            try:
                return real_field_format(self)
            finally:
                in_field[0] -= 1
        # the --process-types step wraps the parser: a crash in there is a crash of the parsing pipeline as well
        outer_events = []
        real_processtypes = getattr(epydoc2stan, 'processtypes', None)     # (a refactoring may not import it any more)

        def wrap_processtypes(parse):
            inner = real_processtypes(parse)

            def outer(doc, errs):
                try:
                    return inner(doc, errs)
                except ParseError:
                    outer_events.append([doc, 'ParseError'])
                    raise
                except BaseException as e:  # noqa
                    outer_events.append([doc, type(e).__name__])
                    raise
            return outer
        if real_processtypes is not None:
            epydoc2stan.processtypes = wrap_processtypes
        epydoc2stan.get_to_stan_error = wrap_gtse
        epydoc2stan.Field.format = wrap_field_format
        epydoc2stan.get_parser_by_name = wrap_get_parser
        epydoc2stan.format_docstring_fallback = wrap_fb
        out['qn'] = qn
        # internal failures of the renderers' to_node (NotImplementedError is the documented "not supported")
        node_fail = []
        from pydoctor.epydoc.markup import restructuredtext as rst_mod
        wrapped = []
        for cls in (epytext.ParsedEpytextDocstring, rst_mod.ParsedRstDocstring, plaintext.ParsedPlaintextDocstring):
            orig_tn = cls.to_node

            def mk(orig_tn, cls):
                def to_node(self):
                    try:
                        return orig_tn(self)
                    except NotImplementedError:
                        raise
                    except Exception as e:  # noqa
                        node_fail.append('%s.to_node: %s: %s' % (cls.__name__, type(e).__name__, str(e)[:80]))
                        raise
                return to_node
            cls.to_node = mk(orig_tn, cls)
            wrapped.append((cls, orig_tn))
        order = case.get('order', 'sdt')
        try:
            with contextlib.redirect_stdout(io.StringIO()):
                system = build(src, fmt, pt)
                ob = system.allobjects[qn]
                gdoc, gsrc = model.get_docstring(ob)
                src_ob = gsrc if gsrc is not None else ob
                src_qn = src_ob.fullName()
                out['src_qn'] = src_qn
                out['docstring'] = ob.docstring if src_ob is ob else src_ob.docstring
                res = {}
                first_d = True
                for step in order:
                    if step == 's':
                        out['stage'] = 'format_summary'
                        res['s'] = epydoc2stan.format_summary(ob)
                    elif step == 'd':
                        out['stage'] = 'format_docstring'
                        n_sf = len(stan_fail)
                        res['d'] = epydoc2stan.format_docstring(ob)
                        out['field_to_stan_failed'] = len([x for x in stan_fail[n_sf:] if x[0]])
                        out['field_to_stan_errors'] = sorted(set(x[1] for x in stan_fail[n_sf:] if x[0]))
                    else:
                        out['stage'] = 'format_toc'
                        res['t'] = epydoc2stan.format_toc(ob)
                s1, d, t = res['s'], res['d'], res['t']
                out['stage'] = 'format_docstring2'
                n1 = len(reports)
                d2 = epydoc2stan.format_docstring(ob)
                s2 = epydoc2stan.format_summary(ob)
                out['second_call_reports'] = len([r for r in reports[n1:] if r[1] == 'docstring' and r[2].startswith('bad docstring')])
                out['stage'] = 'flatten'
                out['flatten_error'] = None
                for what, st in (('body', d), ('summary', s1), ('toc', t)):
                    if st is None:
                        continue
                    try:
                        flatten(st)
                    except Exception as e:  # noqa
                        out['flatten_error'] = '%s: %s' % (what, str(e).strip().splitlines()[-1][:160])
                        break
                out['stage'] = 'observe'
                out['body'] = stan_text(d)
                out['body_html'] = stan_text(d)[:400]
                out['summary'] = stan_text(s1)[:300]
                out['summary2'] = stan_text(s2)[:300]
                out['toc'] = None if t is None else stan_text(t)[:200]
                cd = classify_docstring(d)
                out['body_kind'] = cd['body'][0]
                out['pre_text'] = cd['body'][1] if cd['body'][0] == 'pre' else None
                out['broken_fields'] = len([x for x in cd['fields'] if x == ['broken']])
                mine = [e for e in events if e[0] == text_of_target(src_ob, case)]
                out['parser_raised'] = next((e[1] for e in mine if e[1]), None) or \
                    next((e[1] for e in outer_events if e[0] == text_of_target(src_ob, case)), None)
                out['recovered_errs'] = max([e[2] for e in mine if not e[1]] or [0])
                out['fatal_left'] = max([e[3] for e in mine if not e[1]] or [0])
                out['fallback_called'] = bool(fb_calls)
                out['fallback_ctx'] = sorted(set(fb_calls))
                out['to_node_failed'] = node_fail[0] if node_fail else None
                out['in_parse_errors'] = src_qn in system.parse_errors['docstring']
                out['parse_errors'] = sorted(n for n in system.parse_errors['docstring'])
                out['reports_obj'] = len([r for r in reports if r[0] == src_qn and r[2].startswith('bad docstring')])
                out['reports'] = reports[:6]
                out['report_texts'] = [r[2][:100] for r in reports if r[0] == src_qn][:40]
                pd = ob.parsed_docstring
                out['parsed_kind'] = type(pd).__name__ if pd is not None else None
                out['stage'] = 'other'
                out['other'] = other_output(system)
                if (fmt, pt) not in REF_CACHE:
                    REF_CACHE[(fmt, pt)] = other_output(build(CLEAN_SRC, fmt, pt))
                out['other_ref'] = REF_CACHE[(fmt, pt)]
                out['stage'] = 'done'
        except BaseException as e:  # noqa  (SystemExit / KeyboardInterrupt escaping a format_* call abort the run just the same)
            tb = traceback.extract_tb(e.__traceback__)
            out['raised'] = '%s: %s' % (type(e).__name__, str(e)[:200])
            out['where'] = ['%s:%d:%s' % (os.path.basename(f.filename), f.lineno, f.name) for f in tb[-4:]]
            out['to_node_failed'] = node_fail[0] if node_fail else None
        finally:
            model.Documentable.report = orig_report
            epydoc2stan.get_parser_by_name = real_get_parser
            epydoc2stan.format_docstring_fallback = real_fb
            epydoc2stan.get_to_stan_error = real_gtse
            epydoc2stan.Field.format = real_field_format
            if real_processtypes is not None:
                epydoc2stan.processtypes = real_processtypes
            for cls, orig_tn in wrapped:
                cls.to_node = orig_tn
        return out

    def text_of_target(ob, case):
        # the docstring text the parser was given for the target object: what the builder stored at parse time.
        # (_handlePropertyDef may replace obj.docstring by '' afterwards.)
        return case.get('_parsed_text', ob.docstring)

    # ------------------------------------------------------------------ epytext tail
    def run_epytail(case):
        flags = case['errors']            # list of 0/1 (fatal?)
        injected = [ParseError('T%d' % i, i, is_fatal=bool(f)) for i, f in enumerate(flags)]
        pre = [ParseError('P%d' % i, i, is_fatal=bool(f)) for i, f in enumerate(case.get('pre', []))]
        real_tok = epytext._tokenize

        def tok(text, errors):
            errors.extend(injected)
            return []
        epytext._tokenize = tok
        errs = list(pre)
        try:
            try:
                r = epytext.parse('x', errs)
                res = ['returned', type(r).__name__]
            except ParseError as e:
                allerrs = pre + injected
                idx = [i for i, x in enumerate(allerrs) if x is e]
                res = ['raised', idx[0] if idx else -1, any(x is e for x in errs)]
            except Exception as e:  # noqa
                res = ['other', type(e).__name__]
        finally:
            epytext._tokenize = real_tok
        # and through epytext.parse_docstring + the real barrier
        return {'parse': res, 'errs_len': len(errs)}

    # ------------------------------------------------------------------ ParsedEpytextDocstring.to_node caching
    def run_epynode(case):
        errs = []
        try:
            pd = epytext.parse_docstring(case['text'], errs)
        except Exception as e:  # noqa
            return {'parse_failed': type(e).__name__}
        calls = []
        docs = []
        for i in range(case.get('ncalls', 3)):
            try:
                doc = pd.to_node()
                if not any(doc is x for x in docs):
                    docs.append(doc)
                calls.append(['returned', [j for j, x in enumerate(docs) if x is doc][0], len(doc.children)])
            except Exception as e:  # noqa
                calls.append(['raised', type(e).__name__])
        return {'calls': calls, 'has_tree': pd._tree is not None}

    sys.stdout.write('READY\n'); sys.stdout.flush()
    for line in sys.stdin:
        line = line.strip()
        if not line:
            continue
        case = json.loads(line)
        try:
            if case['k'] == 'inject':
                r = run_inject(case)
            elif case['k'] == 'real':
                r = run_real(case)
            elif case['k'] == 'epytail':
                r = run_epytail(case)
            elif case['k'] == 'epynode':
                r = run_epynode(case)
            else:
                r = {'worker_error': 'unknown case kind'}
        except BaseException as e:  # noqa
            r = {'worker_error': '%s: %s' % (type(e).__name__, e), 'tb': traceback.format_exc()[-1500:]}
        sys.stdout.write(json.dumps(r) + '\n'); sys.stdout.flush()


# ------------------------------------------------------------------------------------------------ supervisor
class Child:
    def __init__(self):
        self.p = subprocess.Popen([sys.executable, '-X', 'utf8', os.path.abspath(__file__), '--child'],
                                  stdin=subprocess.PIPE, stdout=subprocess.PIPE, stderr=subprocess.DEVNULL,
                                  text=True, bufsize=1)
        line = self.readline(120)
        if line is None or line.strip() != 'READY':
            raise SystemExit('child did not start: %r' % (line,))

    def readline(self, limit):
        end = time.time() + limit
        while True:
            left = end - time.time()
            if left <= 0:
                return None
            r, _, _ = select.select([self.p.stdout], [], [], left)
            if r:
                line = self.p.stdout.readline()
                if line == '':
                    return ''
                return line
    def kill(self):
        try:
            self.p.kill()
            self.p.wait(5)
        except Exception:  # noqa
            pass


def supervisor():
    cases = json.load(sys.stdin)
    out = []
    ch = None
    for c in cases:
        if ch is None:
            ch = Child()
        t0 = time.time()
        try:
            ch.p.stdin.write(json.dumps(c) + '\n'); ch.p.stdin.flush()
            line = ch.readline(LIMIT)
        except BrokenPipeError:
            line = ''
        if line is None:
            ch.kill(); ch = None
            out.append({'hang': True, 'limit_s': LIMIT})
        elif line == '':
            rc = ch.p.poll()
            ch.kill(); ch = None
            out.append({'crashed': True, 'rc': rc})
        else:
            r = json.loads(line)
            r['wall_s'] = round(time.time() - t0, 3)
            out.append(r)
    if ch is not None:
        try:
            ch.p.stdin.close()
        except Exception:  # noqa
            pass
        ch.kill()
    json.dump(out, sys.stdout)


if __name__ == '__main__':
    if '--child' in sys.argv:
        child_main()
    else:
        supervisor()
