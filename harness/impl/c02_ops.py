"""C02 worker (i): operation sequences applied through the REAL pydoctor API on a fresh model.System.
case = list of ops
   [0, pkg, name, parent|None]        system.Module/Package(system, name, parent); system._addUnprocessedModule(mod)
   [1, cls, name, parent, kind]       cls 2 Class / 3 Function: ASTBuilder._push ; 4 Attribute: ASTBuilder.addAttribute
   [2, o, newparent, newname]         objs[o].reparent(objs[newparent], newname)
   [3, c, [base|None ...]]            sets the (initial) base objects of class c
   [4]                                model.defaultPostProcess(system)
objects are numbered in creation order.  out = {"failed": k|None, "exc": str|None, "obs": observe(...)}"""
import io, json, sys, contextlib
from pydoctor import model, astbuilder
import c02_common as common


def run_case(ops):
    sys.setrecursionlimit(4000)
    system = model.System(options())
    builder = astbuilder.ASTBuilder(system)
    objs = []
    failed = None
    exc = None
    with common.Watch() as w:
        for k, op in enumerate(ops):
            try:
                if op[0] == 0:
                    _, pkg, name, parent = op
                    factory = system.Package if pkg else system.Module
                    mod = factory(system, name, None if parent is None else objs[parent])
                    mod._py_string = ''
                    objs.append(mod)
                    system._addUnprocessedModule(mod)
                elif op[0] == 1:
                    _, cls, name, parent, kind = op
                    par = objs[parent]
                    builder.currentMod = module_of(par)
                    if cls == 4:
                        # the constructor runs first so that the object is numbered even if addObject raises
                        real = system.Attribute
                        made = []

                        def factory(*a, **kw):
                            o = real(*a, **kw)
                            made.append(o)
                            objs.append(o)
                            return o
                        builder.system = _Proxy(system, Attribute=factory)
                        try:
                            builder.addAttribute(name, model.DocumentableKind(kind) if kind else None, par)
                        finally:
                            builder.system = system
                    else:
                        factory = system.Class if cls == 2 else system.Function
                        made = []

                        def counting(*a, **kw):
                            o = factory(*a, **kw)
                            made.append(o)
                            objs.append(o)
                            return o
                        builder.current = par
                        builder._stack = []
                        try:
                            builder._push(counting, name, 0)
                            builder._pop(factory)
                        finally:
                            builder.current = None
                            builder._stack = []
                elif op[0] == 2:
                    _, o, np, nn = op
                    objs[o].reparent(objs[np], nn)
                elif op[0] == 3:
                    _, c, bases = op
                    cl = objs[c]
                    cl.rawbases = [('zz_unresolved_%d_%d' % (c, i) if b is None else objs[b].name, None)
                                   for i, b in enumerate(bases)]
                    cl._initialbases = [n for n, _ in cl.rawbases]
                    cl._initialbaseobjects = [None if b is None else objs[b] for b in bases]
                else:
                    model.defaultPostProcess(system)
            except (Exception, RecursionError) as e:  # noqa
                failed = k
                exc = '%s: %s' % (type(e).__name__, str(e)[:200])
                break
        obs = common.observe(system, objs, w.sup, w.moves) if failed is None else None
    return {'failed': failed, 'exc': exc, 'obs': obs}


_OPTS = None


def options():
    global _OPTS
    if _OPTS is None:
        from pydoctor.options import Options
        _OPTS = Options.defaults()
        _OPTS.verbosity = -10
        # System.__init__ lists the extension directory on every construction; the list is a documented class
        # attribute ("Override this value to cherry-pick extensions"): compute it once
        from pydoctor import extensions
        model.System.extensions = list(extensions.get_extensions())
    return _OPTS


def module_of(o):
    seen = 0
    while o is not None and not isinstance(o, model.Module) and seen < 5000:
        o = o.parent
        seen += 1
    return o


class _Proxy:
    """system stand-in handed to ASTBuilder.addAttribute so that the created object can be numbered."""
    def __init__(self, system, **over):
        self.__dict__['_s'] = system
        self.__dict__['_o'] = over

    def __getattr__(self, n):
        if n in self._o:
            return self._o[n]
        return getattr(self._s, n)


if __name__ == '__main__':
    cases = json.load(sys.stdin)
    out = []
    buf = io.StringIO()
    with contextlib.redirect_stdout(buf):
        for c in cases:
            out.append(run_case(c))
    json.dump(out, sys.stdout)
