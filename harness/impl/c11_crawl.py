"""C11 / C12 worker: writes a generated project to a scratch directory, runs the REAL pydoctor CLI entry point
(pydoctor.driver.main) on it with --html-output (and --make-intersphinx), records the registry the run rendered from
(captured by wrapping driver.make) and crawls every file that was written (c11_crawler.crawl).

stdin : JSON list of cases  {"files": {relpath: text}, "roots": [relpath, ...], "args": [...], "id": ...}
        a case with {"realtree": path, "args": [...]} documents an existing source tree (thorough tier)
stdout: JSON list of  {"registry": {...}, "crawl": {...}, "exit": int}  or  {"error": text}
Scratch directories are created with mkdtemp and removed afterwards."""
from __future__ import annotations
import io, json, os, shutil, sys, tempfile, traceback, contextlib
from pathlib import Path

sys.path.insert(0, str(Path(__file__).resolve().parent))
import c11_crawler  # noqa: E402


def registry_of(system, rec=None) -> dict:
    from pydoctor import model
    from pydoctor.templatewriter import summary
    order = []
    seen = {}

    def add(o) -> None:
        if id(o) in seen:
            return
        seen[id(o)] = len(order)
        order.append(o)
        for c in o.contents.values():
            add(c)
    for r in system.rootobjects:
        add(r)
    pending = [o for o in system.allobjects.values() if id(o) not in seen]
    # objects only reachable through allobjects (superseded duplicates, ...): parents first
    guard = 0
    while pending and guard < 10000:
        guard += 1
        rest = []
        for o in pending:
            if id(o) in seen:
                continue
            if o.parent is None or id(o.parent) in seen:
                add(o)
            else:
                rest.append(o)
        if len(rest) == len(pending):
            for o in rest:      # parent outside the registry: record the parent chain first
                chain = []
                p = o
                while p is not None and id(p) not in seen:
                    chain.append(p)
                    p = p.parent
                for q in reversed(chain):
                    if id(q) not in seen:
                        seen[id(q)] = len(order)
                        order.append(q)
            rest = []
        pending = rest
    # classes referenced by mro / subclasses / baseobjects but not registered: add them too
    more = True
    while more:
        more = False
        for o in list(order):
            if isinstance(o, model.Class):
                for c in list(o.mro()) + list(o.subclasses) + [b for b in o.baseobjects if b is not None]:
                    if id(c) not in seen:
                        chain = []
                        p = c
                        while p is not None and id(p) not in seen:
                            chain.append(p)
                            p = p.parent
                        for q in reversed(chain):
                            seen[id(q)] = len(order)
                            order.append(q)
                        more = True
    objs = []
    for o in order:
        if isinstance(o, model.Package):
            k = 'P'
        elif isinstance(o, model.Module):
            k = 'M'
        elif isinstance(o, model.Class):
            k = 'C'
        elif isinstance(o, model.Function):
            k = 'F'
        elif isinstance(o, model.Attribute):
            k = 'A'
        else:
            k = '?'
        d = {'name': o.name, 'full': o.fullName(), 'parent': seen[id(o.parent)] if o.parent is not None else None,
             'contents': [seen[id(c)] for c in o.contents.values()], 'cls': k,
             'own': o.documentation_location is model.DocLocation.OWN_PAGE,
             'priv': o.privacyClass.name, 'rawpriv': o.system.privacyClass(o).name, 'kindnone': o.kind is None,
             'doc': bool(summary.hasdocstring(o)), 'url': o.url, 'visible': bool(o.isVisible),
             'module': seen.get(id(o.parentMod)) if getattr(o, 'parentMod', None) is not None else None}
        # docstring cross references as the real linker resolved them (the model's oracle input)
        try:
            from pydoctor import epydoc2stan as _e2s
            src = _e2s.ensure_parsed_docstring(o)
        except Exception:
            src = None
        d['docsource'] = seen.get(id(src)) if src is not None else None
        # the page object the object's docstring linker HOLDS (recorded when the linker was created)
        lk = getattr(o, '_linker', None)
        po = getattr(lk, '_page_object', None) if lk is not None else None
        d['linker_page'] = seen.get(id(po)) if po is not None else None
        for key, kind in (('xrefs', 'doc'), ('sumxrefs', 'sum'), ('annxrefs', 'ann')):
            lst = []
            for t in (rec or {}).get(kind, {}).get(id(o), []):
                if id(t) in seen and seen[id(t)] not in lst:
                    lst.append(seen[id(t)])
            d[key] = lst
        if isinstance(o, model.Class):
            d['mro'] = [seen[id(c)] for c in o.mro()]
            d['subclasses'] = [seen[id(c)] for c in o.subclasses]
            d['bases'] = [[n, (seen[id(b)] if b is not None else None)] for n, b in zip(o.bases, o.baseobjects)]
            d['nbases'] = len(o.bases)
            d['rawbases'] = len(o.rawbases)
        objs.append(d)
    return {'objs': objs, 'roots': [seen[id(r)] for r in system.rootobjects],
            'all': [[k, seen[id(v)]] for k, v in system.allobjects.items()],
            'root_names': list(system.root_names),
            'sidebar_depth': system.options.sidebarexpanddepth, 'nosidebar': bool(system.options.nosidebar),
            'projectname': system.projectname}


def run_case(case: dict) -> dict:
    from pydoctor import driver
    d = Path(tempfile.mkdtemp(prefix='verif_c11_'))
    captured = []
    orig_make = driver.make

    def make(system):  # type: ignore
        captured.append(system)
        return orig_make(system)
    from pydoctor import epydoc2stan, linker
    rec = {'doc': {}, 'sum': {}, 'ann': {}}
    stack = []
    keep_alive = []
    orig = (epydoc2stan.format_docstring, epydoc2stan.format_summary, epydoc2stan.format_constant_value, linker.taglink)

    def wrap(fn, kind):
        def w(obj, *a, **k):
            stack.append((kind, obj))
            try:
                return fn(obj, *a, **k)
            finally:
                stack.pop()
        return w

    def tl(o, page_url, label=None):
        if stack:
            kind, obj = stack[-1]
            if kind == 'ann':
                # a type taken from an annotation: rendered in the field table only if the parameter is documented
                below = [x for x in stack if x[0] != 'ann']
                if below:
                    keep_alive.append(below[-1][1])
                    rec['ann'].setdefault(id(below[-1][1]), []).append(o)
            else:
                keep_alive.append(obj)
                rec[kind].setdefault(id(obj), []).append(o)
        return orig[3](o, page_url, label)
    orig_ann = (linker._AnnotationLinker.link_to, linker._AnnotationLinker.link_xref)

    def wrap_ann(fn):
        def w(self, *a, **k):
            stack.append(('ann', None))
            try:
                return fn(self, *a, **k)
            finally:
                stack.pop()
        return w
    try:
        if 'realtree' in case:
            roots = [case['realtree']]
        else:
            src = d / 'src'
            for rel, text in case['files'].items():
                p = src / rel
                p.parent.mkdir(parents=True, exist_ok=True)
                p.write_text(text, encoding='utf-8')
            roots = [str(src / r) for r in case['roots']]
        out = d / 'out'
        args = ['--project-name=proj', '--html-output=%s' % out, '--make-html', '--make-intersphinx', '-q', '-q'] \
            + list(case.get('args', [])) + roots
        driver.make = make
        epydoc2stan.format_docstring = wrap(orig[0], 'doc')
        epydoc2stan.format_summary = wrap(orig[1], 'sum')
        epydoc2stan.format_constant_value = wrap(orig[2], 'doc')
        linker.taglink = tl
        linker._AnnotationLinker.link_to = wrap_ann(orig_ann[0])
        linker._AnnotationLinker.link_xref = wrap_ann(orig_ann[1])
        buf = io.StringIO()
        try:
            with contextlib.redirect_stdout(buf), contextlib.redirect_stderr(buf):
                rc = driver.main(args)
        except SystemExit as e:
            return {'error': 'SystemExit %s: %s' % (e.code, buf.getvalue()[-1500:])}
        except BaseException:
            return {'error': 'exception escaped driver.main:\n' + traceback.format_exc()[-3000:]}
        finally:
            driver.make = orig_make
            (epydoc2stan.format_docstring, epydoc2stan.format_summary, epydoc2stan.format_constant_value, linker.taglink) = orig
            linker._AnnotationLinker.link_to, linker._AnnotationLinker.link_xref = orig_ann
        if not captured:
            return {'error': 'driver.make was not reached: ' + buf.getvalue()[-800:]}
        reg = registry_of(captured[0], rec)
        cr = c11_crawler.crawl(out)
        return {'registry': reg, 'crawl': cr, 'exit': rc}
    finally:
        shutil.rmtree(d, ignore_errors=True)


def main() -> None:
    cases = json.load(sys.stdin)
    out = []
    for c in cases:
        try:
            out.append(run_case(c))
        except BaseException:
            out.append({'error': 'worker failure:\n' + traceback.format_exc()[-3000:]})
    json.dump(out, sys.stdout)


if __name__ == '__main__':
    main()
