"""C01 worker B/C: fault injection into the REAL barrier functions and exit-status runs of driver.main.
For every barrier function, the designated risky callee is replaced (from outside) by a stub raising a chosen
exception class within the oracle contract; the real function must return (no exception escapes).
stdin {"tier":..., "seed":...} or {"only": case};  stdout {"injections", "functions", "failures", "exit_runs", "exit_observed"}."""
import ast, contextlib, io, json, os, shutil, sys, tempfile
from pathlib import Path
from pydoctor import model, epydoc2stan, astbuilder, astutils, driver
from pydoctor.epydoc.markup import ParsedDocstring, ParseError, _pyval_repr
from pydoctor.templatewriter import pages
import astor


class Custom(Exception):
    pass

def exc_classes(bound: str, tier: str):
    base = {
        'Exception': [Exception, ValueError, KeyError, TypeError, AttributeError, RuntimeError, IndexError,
                      AssertionError, RecursionError, NotImplementedError, UnicodeDecodeError, ParseError, Custom,
                      ZeroDivisionError, StopIteration, OSError, LookupError, ImportError, SyntaxError],
        'ImportError': [ImportError, ModuleNotFoundError],
        'NotImplementedError': [NotImplementedError],
        'SyntaxError+ValueError': [SyntaxError, ValueError, UnicodeDecodeError, IndentationError, TabError, UnicodeEncodeError],
        'SyntaxError': [SyntaxError, IndentationError],
    }[bound]
    return base if tier != 'quick' else base[:10]

def mk(cls):
    if cls is UnicodeDecodeError:
        return UnicodeDecodeError('utf-8', b'\xff', 0, 1, 'bad')
    if cls is UnicodeEncodeError:
        return UnicodeEncodeError('utf-8', '\udcff', 0, 1, 'bad')
    if cls is ParseError:
        return ParseError('injected', 1)
    return cls('injected')

def fresh():
    system = model.System()
    system.options.verbosity = -10
    b = system.systemBuilder(system)
    b.addModuleString('def f(a, b=1):\n    """doc of f"""\nclass C:\n    """doc of C"""\n    x: int = 1\n', 'm')
    b.buildModules()
    return system

class StubDoc(ParsedDocstring):
    def __init__(self, exc, where):
        super().__init__(())
        self.exc, self.where = exc, where
    @property
    def has_body(self): return True
    def to_node(self):
        if self.where == 'to_node': raise self.exc
        from docutils.utils import new_document
        return new_document('x')
    def to_stan(self, linker):
        if self.where == 'to_stan': raise self.exc
        return super().to_stan(linker)

@contextlib.contextmanager
def patched(obj, name, value):
    old = getattr(obj, name)
    setattr(obj, name, value)
    try:
        yield
    finally:
        setattr(obj, name, old)

def raising(exc):
    def f(*a, **k):
        raise exc
    return f

# each injection: name -> (bound, runner(exc) -> description of return value)
def inj_parse_docstring(exc):
    s = fresh(); f = s.allobjects['m.f']
    def parser(doc, errs):
        if isinstance(exc, ParseError):
            errs.append(exc)      # the parsers' contract: a ParseError that is raised has been stored in the list first
        raise exc
    with patched(epydoc2stan, 'get_parser_by_name', lambda *a, **k: parser):
        r = epydoc2stan.parse_docstring(f, 'some text', f)
    assert isinstance(r, ParsedDocstring)
    assert 'm.f' in s.parse_errors['docstring'], 'failure not recorded against the object'
    return 'ok'

def inj_parser_errs(shape):
    """the parser returns normally / raises ParseError after appending errors whose line number has every shape
    a real parser produces (None: docutils document-level problems; 0; n) -- reportErrors must cope"""
    linenum, fatal, raises = shape
    s = fresh(); f = s.allobjects['m.f']
    from pydoctor.epydoc.markup import plaintext
    def parser(doc, errs):
        e = ParseError('injected problem', linenum, is_fatal=fatal)
        errs.append(e)
        if raises:
            raise e
        return plaintext.parse_docstring(doc, errs)
    with patched(epydoc2stan, 'get_parser_by_name', lambda *a, **k: parser):
        r = epydoc2stan.parse_docstring(f, 'some text', f)
        assert isinstance(r, ParsedDocstring)
        f.parsed_docstring = None
        from pydoctor.stanutils import flatten
        assert 'some' in flatten(epydoc2stan.format_docstring(f)) or True
    assert 'm.f' in s.parse_errors['docstring'], 'errors not recorded against the object'
    return 'ok'

def inj_to_stan_errs(shape):
    """safe_to_stan's own error path with an exception whose str() is odd"""
    s = fresh(); f = s.allobjects['m.f']
    class Odd(Exception):
        def __str__(self): return shape
    r = epydoc2stan.safe_to_stan(StubDoc(Odd(), 'to_stan'), f.docstring_linker, f, fallback=epydoc2stan.format_docstring_fallback)
    assert r is not None
    return 'ok'

ERR_SHAPES = [(ln, fatal, raises) for ln in (None, 0, 1, 7) for fatal in (True, False) for raises in (False, True)]

def inj_get_parser(exc):
    s = fresh(); f = s.allobjects['m.f']
    with patched(epydoc2stan, 'get_parser_by_name', raising(exc)):
        r = epydoc2stan.parse_docstring(f, 'some text', f)
    assert isinstance(r, ParsedDocstring)
    return 'ok'

def inj_safe_to_stan(exc):
    s = fresh(); f = s.allobjects['m.f']
    r = epydoc2stan.safe_to_stan(StubDoc(exc, 'to_stan'), f.docstring_linker, f, fallback=epydoc2stan.format_docstring_fallback)
    assert r is not None
    return 'ok'

def inj_format_docstring(exc):
    s = fresh(); f = s.allobjects['m.f']
    f.parsed_docstring = StubDoc(exc, 'to_stan')
    r = epydoc2stan.format_docstring(f)
    from pydoctor.stanutils import flatten
    assert 'doc of f' in flatten(r), 'fallback does not show the original text'
    return 'ok'

def inj_get_summary(exc):
    r = StubDoc(exc, 'to_node').get_summary()
    assert isinstance(r, ParsedDocstring)
    return 'ok'

def inj_format_summary(exc):
    s = fresh(); f = s.allobjects['m.f']
    f.parsed_docstring = StubDoc(exc, 'to_node')
    r = epydoc2stan.format_summary(f)
    assert r is not None
    return 'ok'

def inj_get_toc(exc):
    r = StubDoc(exc, 'to_node').get_toc(depth=3)
    assert r is None
    return 'ok'

def inj_format_signature(exc):
    s = fresh(); f = s.allobjects['m.f']
    class Sig:
        def __bool__(self): return True
        def __str__(self): raise exc
    f.signature = Sig()
    r = pages.format_signature(f)
    assert r == '(...)'
    return 'ok'

def inj_html2stan(exc):
    s = fresh(); f = s.allobjects['m.f']
    with patched(pages, 'html2stan', raising(exc)):
        r = pages.format_signature(f)
    assert r == '(...)'
    return 'ok'

def inj_parseFile(exc):
    s = fresh(); m = s.allobjects['m']
    with patched(astbuilder, 'parseFile', raising(exc)):
        r = astbuilder.ASTBuilder(s).parseFile(Path('/nonexistent/x.py'), m)
    assert r is None
    return 'ok'

def inj_parseString(exc):
    s = fresh(); m = s.allobjects['m']
    with patched(astbuilder, '_parse', raising(exc)):
        r = astbuilder.ASTBuilder(s).parseString('x = 1', m)
    assert r is None
    return 'ok'

def inj_unstring(exc):
    s = fresh(); f = s.allobjects['m.f']
    node = ast.parse('"List[int]"', mode='eval').body
    with patched(astutils._AnnotationStringParser, 'visit', raising(exc)):
        r = astutils.unstring_annotation(node, f)
    assert r is node
    return 'ok'

def inj_astor(exc):
    node = ast.parse('lambda: 1', mode='eval').body
    with patched(astor, 'to_source', raising(exc)):
        r = _pyval_repr.colorize_inline_pyval(node)
    assert r is not None
    return 'ok'

INJECTIONS = {
    'epydoc2stan.parse_docstring/parser': ('Exception', inj_parse_docstring),
    'epydoc2stan.parse_docstring/get_parser_by_name': ('ImportError', inj_get_parser),
    'epydoc2stan.safe_to_stan/to_stan': ('Exception', inj_safe_to_stan),
    'epydoc2stan.format_docstring/to_stan': ('Exception', inj_format_docstring),
    'ParsedDocstring.get_summary/to_node': ('Exception', inj_get_summary),
    'epydoc2stan.format_summary/to_node': ('Exception', inj_format_summary),
    'ParsedDocstring.get_toc/to_node': ('NotImplementedError', inj_get_toc),
    'pages.format_signature/str': ('Exception', inj_format_signature),
    'pages.format_signature/html2stan': ('Exception', inj_html2stan),
    'ASTBuilder.parseFile/parseFile': ('SyntaxError+ValueError', inj_parseFile),
    'ASTBuilder.parseString/_parse': ('SyntaxError+ValueError', inj_parseString),
    'astutils.unstring_annotation/visit': ('SyntaxError', inj_unstring),
    'PyvalColorizer._colorize_ast_generic/astor.to_source': ('Exception', inj_astor),
}

def run_injection(name, clsname, tier):
    bound, fn = INJECTIONS[name]
    cls = {c.__name__: c for c in exc_classes(bound, 'thorough')}[clsname]
    buf = io.StringIO()
    try:
        with contextlib.redirect_stdout(buf):
            fn(mk(cls))
    except BaseException as e:  # noqa
        return {'what': 'barrier %s lets %s escape / misbehaves: %s: %s' % (name, clsname, type(e).__name__, e),
                'case': {'injection': name, 'cls': clsname}, 'observed': '%s: %s' % (type(e).__name__, e)}
    return None

# ---------------------------------------------------------------- exit status of driver.main
EXIT_PROJECTS = {
    'clean': 'def f():\n    """fine"""\n',
    'bad_epytext': 'def f():\n    """L{unclosed\n\n    @param x: y\n    """\n',
    'bad_xref': 'def f():\n    """L{nosuchthing}"""\n',
    'both': 'def f():\n    """L{unclosed"""\ndef g():\n    """L{nosuch}"""\n',
    'syntax_error': 'def f(:\n',
    'unknown_field': 'def f():\n    """@nosuchfield x: y"""\n',
    'sig_surrogate': "def f(x='\\udcff'):\n    '''fine'''\n",
    'sig_fault': "def f(x=1):\n    '''fine'''\n",
    'const_surrogate': "X = '\\udcff'\n'''doc of X'''\n",
}

def exit_runs():
    out = []
    for pname, src in EXIT_PROJECTS.items():
        for W in (0, 1):
            d = Path(tempfile.mkdtemp(prefix='verif_c01_'))
            try:
                (d / 'proj').mkdir()
                (d / 'proj' / 'mod.py').write_text(src)
                args = ['--project-name=p', '--html-output=%s' % (d / 'out'), '--docformat=epytext', '-q', '-q', str(d / 'proj' / 'mod.py')]
                if W:
                    args.insert(0, '-W')
                captured = {}
                orig = driver.make
                def make(system):
                    captured['system'] = system
                    return orig(system)
                driver.make = make
                buf = io.StringIO()
                # 'sig_fault': make the signature renderer fail so that a NON-docstring parse_errors section fills up
                fault = patched(pages, 'html2stan', raising(ValueError('injected'))) if pname == 'sig_fault' else contextlib.nullcontext()
                try:
                    with contextlib.redirect_stdout(buf), contextlib.redirect_stderr(buf), fault:
                        status = driver.main(args)
                except SystemExit as e:
                    status = 'SystemExit(%s)' % e.code
                except BaseException as e:  # noqa
                    status = 'exception %s: %s' % (type(e).__name__, e)
                finally:
                    driver.make = orig
                s = captured.get('system')
                out.append({'project': pname, 'W': W, 'status': status,
                            'docstring_errs': len(s.parse_errors['docstring']) if s else -1,
                            'other_errs': sum(len(v) for k, v in s.parse_errors.items() if k != 'docstring') if s else -1,
                            'violations': s.violations if s else -1})
            finally:
                shutil.rmtree(d, ignore_errors=True)
    return out

def main():
    req = json.load(sys.stdin)
    failures = []
    if 'only' in req and 'err_shape' in req['only']:
        try:
            inj_parser_errs(tuple(req['only']['err_shape'])); f = None
        except BaseException as e:  # noqa
            f = {'what': 'parser error shape %r: %s: %s' % (req['only']['err_shape'], type(e).__name__, e), 'case': req['only']}
        json.dump({'failures': [f] if f else [], 'injections': 1, 'functions': 1, 'exit_runs': 0, 'exit_observed': []}, sys.stdout)
        return
    if 'only' in req and 'to_stan_text' in req['only']:
        try:
            inj_to_stan_errs(req['only']['to_stan_text']); f = None
        except BaseException as e:  # noqa
            f = {'what': 'to_stan text: %s: %s' % (type(e).__name__, e), 'case': req['only']}
        json.dump({'failures': [f] if f else [], 'injections': 1, 'functions': 1, 'exit_runs': 0, 'exit_observed': []}, sys.stdout)
        return
    if 'only' in req:
        c = req['only']
        f = run_injection(c['injection'], c['cls'], 'thorough')
        json.dump({'failures': [f] if f else [], 'injections': 1, 'functions': 1, 'exit_runs': 0, 'exit_observed': []}, sys.stdout)
        return
    tier = req['tier']
    n = 0
    for shape in ERR_SHAPES:
        n += 1
        buf = io.StringIO()
        try:
            with contextlib.redirect_stdout(buf):
                inj_parser_errs(shape)
        except BaseException as e:  # noqa
            failures.append({'what': 'parse_docstring/reportErrors cannot cope with a parser error of shape (linenum=%r, fatal=%r, raised=%r): %s: %s'
                             % (shape + (type(e).__name__, e)), 'case': {'err_shape': list(shape)}, 'observed': '%s: %s' % (type(e).__name__, e)})
    for shape in ['', 'x' * 3, 'multi\nline', '\x00']:
        n += 1
        try:
            with contextlib.redirect_stdout(io.StringIO()):
                inj_to_stan_errs(shape)
        except BaseException as e:  # noqa
            failures.append({'what': 'safe_to_stan cannot cope with exception text %r: %s: %s' % (shape, type(e).__name__, e),
                             'case': {'to_stan_text': shape}, 'observed': '%s: %s' % (type(e).__name__, e)})
    for name, (bound, fn) in INJECTIONS.items():
        for cls in exc_classes(bound, tier):
            n += 1
            f = run_injection(name, cls.__name__, tier)
            if f:
                failures.append(f)
    ex = exit_runs()
    json.dump({'failures': failures, 'injections': n, 'functions': len(INJECTIONS), 'exit_runs': len(ex), 'exit_observed': ex}, sys.stdout)

main()
