"""Adapter 2 of C03: imports generated packages with CPython itself (this process never imports pydoctor's builder for
them; sys.path gets the scratch directory) and dumps what executing the code bound in every module / class namespace.

stdin : JSON list of cases {"pkg": name, "files": {relpath: source}, "modules": [fullname...], "names": [identifier...]}
        `names`: every identifier the program uses in a binding position (vars() is restricted to them)
stdout: JSON list of {"modules": {fullname: MOD | {"error": "..."}}}
  MOD   = {"doc": cleandoc(__doc__)|None, "ns": [ENTRY...]}
  ENTRY = {"n": name, "t": "F" function | "C" class | "D" data | "M" module | "X" other wrapped thing,
           "wrap": 0 none 1 staticmethod 2 classmethod 3 property, "async": bool, "doc": str|None,
           "exc": bool, "ns": [...], "nondata_inherited": [names a base class binds to a function/class/static/classmethod],
           "exc_roots": [builtin exception classes that are direct bases of the class or of a project-defined ancestor],
           "ty": [type name, sorted element type names, sorted dict value type names], "foreign": bool (defined in another module)}
Package names are unique per case so many cases share one process."""
import builtins
import importlib
import inspect
import json
import shutil
import sys
import tempfile
import types
from pathlib import Path


def clean(d):
    return None if d is None else (inspect.cleandoc(d) if isinstance(d, str) else repr(d))


def ty_of(v):
    elems, vals = [], []
    if isinstance(v, (list, tuple, set, frozenset)):
        elems = sorted({type(x).__name__ for x in v})
    elif isinstance(v, dict):
        elems = sorted({type(x).__name__ for x in v.keys()})
        vals = sorted({type(x).__name__ for x in v.values()})
    return [type(v).__name__, elems, vals]


def entry(n, raw, names, modname, in_class):
    e = {'n': n, 'wrap': 0, 'async': False, 'doc': None, 'exc': False}
    f = raw
    if in_class:
        if isinstance(raw, staticmethod):
            e['wrap'], f = 1, raw.__func__
        elif isinstance(raw, classmethod):
            e['wrap'], f = 2, raw.__func__
        elif isinstance(raw, property):
            e['wrap'], f = 3, raw.fget
        while e['wrap'] in (1, 2) and isinstance(f, (staticmethod, classmethod)):
            f = f.__func__          # staticmethod(staticmethod(f)): the outer wrapper is what the class namespace holds
    if isinstance(f, types.FunctionType):
        e['t'] = 'F'
        e['async'] = inspect.iscoroutinefunction(f)
        e['doc'] = clean(raw.__doc__ if e['wrap'] == 3 else f.__doc__)
        e['foreign'] = f.__module__ != modname
    elif e['wrap']:
        e['t'] = 'X'
    elif isinstance(raw, type):
        e['t'] = 'C'
        e['exc'] = issubclass(raw, BaseException)
        e['doc'] = clean(vars(raw).get('__doc__'))
        e['foreign'] = raw.__module__ != modname
        e['ns'] = ns_of(vars(raw), names, modname, True)
        nd = set()
        for b in raw.__mro__[1:]:
            if b.__module__ == 'builtins':
                continue
            for k, v in vars(b).items():
                if isinstance(v, (types.FunctionType, staticmethod, classmethod, type)):
                    nd.add(k)
        e['nondata_inherited'] = sorted(nd)
        # own and inherited members in lookup order: [name, 0 function/class | 1 data], for classes importing modules derive from
        ms, seen = [], set()
        for b in raw.__mro__:
            if b.__module__ == 'builtins':
                continue
            for k, v in vars(b).items():
                if k in names and k not in seen:
                    seen.add(k)
                    ms.append([k, 0 if isinstance(v, (types.FunctionType, staticmethod, classmethod, type)) else 1])
        e['members'] = ms
        roots = set()
        for c in raw.__mro__:
            if c.__module__ != 'builtins':
                for b in c.__bases__:
                    if b.__module__ == 'builtins' and issubclass(b, BaseException):
                        roots.add(b.__name__)
        e['exc_roots'] = sorted(roots)
    elif isinstance(raw, types.ModuleType):
        e['t'] = 'M'
    else:
        e['t'] = 'D'
        e['ty'] = ty_of(raw)
    return e


def ns_of(d, names, modname, in_class):
    return [entry(n, v, names, modname, in_class) for n, v in d.items() if n in names]


def run_case(case):
    d = Path(tempfile.mkdtemp(prefix='verif_c03b_'))
    out = {}
    try:
        for rel, src in case['files'].items():
            p = d / rel
            p.parent.mkdir(parents=True, exist_ok=True)
            p.write_text(src, encoding='utf-8')
        sys.path.insert(0, str(d))
        importlib.invalidate_caches()
        names = set(case['names'])
        for m in case['modules']:
            try:
                mod = importlib.import_module(m)
                out[m] = {'doc': clean(mod.__doc__), 'ns': ns_of(vars(mod), names, m, False)}
            except BaseException as e:  # noqa
                out[m] = {'error': '%s: %s' % (type(e).__name__, e)}
        return {'modules': out}
    finally:
        if sys.path and sys.path[0] == str(d):
            sys.path.pop(0)
        for k in [k for k in sys.modules if k == case['pkg'] or k.startswith(case['pkg'] + '.')]:
            del sys.modules[k]
        shutil.rmtree(d, ignore_errors=True)


if __name__ == '__main__':
    sys.dont_write_bytecode = True
    cases = json.load(sys.stdin)
    real_stdout = sys.stdout
    sys.stdout = sys.stderr
    res = [run_case(c) for c in cases]
    json.dump(res, real_stdout)
