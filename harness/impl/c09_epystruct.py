"""Runs the REAL epytext.parse on a docstring and records the token stream _tokenize produced and the DOM tree parse built.

stdin : JSON list of epytext docstrings
stdout: JSON list of {"tokens": [[tag, indent|null, level, bullet, [comps], last, startline], ...],
                      "tree": nested tree ([0, kind] leaf | [1, tag, kids...]), "errors": [[code, startline], ...]  (structuring errors),
                      "fatal": bool, "exc": null|str}"""
import json, sys, traceback
from pydoctor.epydoc.markup import epytext as E

TK = {'para': 0, 'heading': 1, 'literalblock': 2, 'doctestblock': 3, 'bullet': 4}
TAGS = {'epytext': 0, 'section': 1, 'ulist': 2, 'olist': 3, 'fieldlist': 4, 'li': 5, 'field': 6}
LEAF = {'para': 0, 'heading': 1, 'literalblock': 2, 'doctestblock': 3}
ERR = {'Improper paragraph indentation.': 1, 'Improper heading indentation.': 2, 'Headings must occur at the top level.': 3,
       'Wrong underline character for heading.': 4, 'Lists must be indented.': 5, 'Fields must be at the top level.': 6,
       'Fields must be the final elements in an epytext string.': 7}


def ser(el):
    if el.tag in LEAF:
        return [0, LEAF[el.tag]]
    kids = [ser(c) for c in el.children if not isinstance(c, str) and c.tag not in ('tag', 'arg')]
    return [1, TAGS.get(el.tag, -1)] + kids


def run_case(text):
    obs = {'tokens': [], 'tree': None, 'errors': [], 'fatal': False, 'exc': None}
    real_tok, real_el = E._tokenize, E.Element
    docs = []

    def tokenize(t, errors):
        toks = real_tok(t, errors)
        for tk in toks:
            bullet, comps, last = 0, [], 0
            if tk.tag == 'bullet':
                c = tk.contents[-1]
                bullet = {'-': 0, '.': 1, ':': 2}.get(c, 3)
                if bullet == 1:
                    comps = tk.contents.split('.')[:-1]
                    try:
                        last = int(comps[-1])
                    except Exception:
                        last = -1
            obs['tokens'].append([TK[tk.tag], tk.indent, tk.level or 0, bullet, comps, last, tk.startline])
        return toks

    class Rec(real_el):
        def __init__(self, tag, *children, **attribs):
            super().__init__(tag, *children, **attribs)
            if tag == 'epytext':
                docs.append(self)
    errors = []
    try:
        E._tokenize, E.Element = tokenize, Rec
        try:
            E.parse(text, errors)
        except E.ParseError:
            obs['fatal'] = True
    except Exception as e:  # noqa
        obs['exc'] = '%s: %s\n%s' % (type(e).__name__, e, traceback.format_exc()[-600:])
    finally:
        E._tokenize, E.Element = real_tok, real_el
    if docs:
        obs['tree'] = ser(docs[0])
    obs['errors'] = [[ERR.get(e._descr, -1), e._linenum] for e in errors if isinstance(e, E.StructuringError)]
    return obs


if __name__ == '__main__':
    cases = json.load(sys.stdin)
    json.dump([run_case(c) for c in cases], sys.stdout)
