"""C02 shared worker code: canonical observation of a REAL pydoctor System (no judgement here: the
property is stated in harness/c02.py:oracle on this observation).

observe(system, created=None, sup=None, moves=None) ->
 {"objects": [ {"name", "full" (obj.fullName() or None), "parent" (index|None), "cls", "kind" (int, 0 = None),
                "contents": [[key, index]], "aliases": [[name, fullname]], "own_page": bool, "url": str|None,
                "bases": [index|None] | None, "subs": [index] | None, "mro": [index|str] | None,
                "base_scope": [[base expression, index|None of the class it was resolved to when the class statement was
                                visited, index|None of the class that parent.resolveName(expression) is now]] | None,
                "implements": [str] | None (implements_directly), "implementedby": [index] | None, "isinterface": bool,
                "sup": bool (renamed by System.handleDuplicate)} ],
  "allobjects": [[key, index]]  (dict order), "roots": [index], "root_names": [str], "unprocessed": [index],
  "moves": [[old_fullname, new_parent_fullname, new_name, target_existed(bool), moved_cls, new_parent_cls]]}
Objects are indexed: first the `created` list (op stream: creation order), then every other object reachable from
allobjects values / rootobjects through .parent and .contents, in discovery order."""
import sys
from pydoctor import model

CLS = [('Package', model.Package), ('Module', model.Module), ('Class', model.Class),
       ('Function', model.Function), ('Attribute', model.Attribute)]


def cls_name(o):
    for n, c in CLS:
        if isinstance(o, c):
            return n
    return type(o).__name__


def safe(f, default=None):
    try:
        return f()
    except RecursionError:
        return default
    except Exception:  # noqa
        return default


def base_scope(o):
    """What each base expression of the class statement denotes IN THE SCOPE OF THE CLASS ITSELF (its parent):
    [(expression, class it was resolved to at visit time | None, class it resolves to now | None)]."""
    out = []
    raw = safe(lambda: list(o.rawbases), []) or []
    ini = safe(lambda: list(o._initialbaseobjects), []) or []
    for pos, rb in enumerate(raw):
        expr = rb[0] if isinstance(rb, (tuple, list)) else rb
        first = ini[pos] if pos < len(ini) and isinstance(ini[pos], model.Class) else None
        now = safe(lambda: o.parent.resolveName(expr)) if o.parent is not None else None
        out.append((str(expr), first, now if isinstance(now, model.Class) else None))
    return out


def observe(system, created=None, sup=None, moves=None):
    sys.setrecursionlimit(max(sys.getrecursionlimit(), 3000))
    objs = list(created or [])
    index = {id(o): i for i, o in enumerate(objs)}
    work = []

    def see(o):
        if o is None or not isinstance(o, model.Documentable):
            return None
        if id(o) not in index:
            index[id(o)] = len(objs)
            objs.append(o)
            work.append(o)
        return index[id(o)]
    for o in list(objs):
        work.append(o)
    for o in list(system.allobjects.values()):
        see(o)
    for o in list(system.rootobjects):
        see(o)
    while work:
        o = work.pop(0)
        see(o.parent)
        for c in list(o.contents.values()):
            see(c)
        if isinstance(o, model.Class):
            for b in safe(lambda: list(o.baseobjects), []) or []:
                see(b)
            for b in list(o.subclasses):
                see(b)
            for _, ini, now in base_scope(o):
                see(ini)
                see(now)
    supids = set(sup or [])
    out = []
    for o in objs:
        d = {'name': o.name, 'full': safe(o.fullName), 'parent': see(o.parent), 'cls': cls_name(o),
             'kind': o.kind.value if o.kind is not None else 0,
             'contents': [[k, see(v)] for k, v in o.contents.items()],
             'aliases': [[k, v] for k, v in getattr(o, '_localNameToFullName_map', {}).items()],
             'own_page': o.documentation_location is model.DocLocation.OWN_PAGE,
             'url': safe(lambda: o.url), 'sup': id(o) in supids,
             'bases': None, 'subs': None, 'mro': None, 'base_scope': None, 'implements': None, 'implementedby': None,
             'isinterface': bool(getattr(o, 'isinterface', False))}
        if isinstance(o, model.Class):
            d['bases'] = [see(b) if b is not None else None for b in (safe(lambda: list(o.baseobjects), []) or [])]
            d['subs'] = [see(b) for b in o.subclasses]
            d['base_scope'] = [[e, see(a), see(b)] for e, a, b in base_scope(o)]
            m = safe(lambda: list(o.mro(True)), None)
            d['mro'] = None if m is None else [x if isinstance(x, str) else see(x) for x in m]
        if hasattr(o, 'implements_directly'):
            d['implements'] = [str(x) for x in o.implements_directly]
        if d['isinterface'] and hasattr(o, 'implementedby_directly'):
            d['implementedby'] = [see(x) for x in o.implementedby_directly]
        out.append(d)
    return {'objects': out,
            'allobjects': [[k, see(v)] for k, v in system.allobjects.items()],
            'roots': [see(r) for r in system.rootobjects],
            'root_names': sorted(safe(lambda: list(system.root_names), []) or []),
            'unprocessed': [see(m) for m in system.unprocessed_modules],
            'moves': list(moves or [])}


class Watch:
    """Observes System.handleDuplicate (which objects were renamed as superseded) and Documentable.reparent
    (which moves happened, and whether the target name was already taken) from outside, by wrapping the methods
    on the class for the lifetime of the object."""
    def __init__(self):
        self.sup = []
        self.moves = []

    def __enter__(self):
        w = self
        self._hd = model.System.handleDuplicate
        self._rp = model.Documentable.reparent

        def hd(system, obj):
            prev = system.allobjects.get(obj.fullName())
            if prev is not None:
                w.sup.append(id(prev))
                w.keep.append(prev)
            return w._hd(system, obj)

        def rp(ob, new_parent, new_name):
            w.moves.append([safe(ob.fullName), safe(new_parent.fullName), new_name,
                            new_name in new_parent.contents, cls_name(ob), cls_name(new_parent),
                            bool(ob.contents)])
            return w._rp(ob, new_parent, new_name)
        self.keep = []
        model.System.handleDuplicate = hd
        model.Documentable.reparent = rp
        return self

    def __exit__(self, *a):
        model.System.handleDuplicate = self._hd
        model.Documentable.reparent = self._rp
