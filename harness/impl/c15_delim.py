"""C15 worker: the REAL _OperatorDelimiter constructor on an operator node in a given parent situation.
stdin: JSON list of [[kind, idx], sit]  (kind 0 unary 1 binary 2 boolean; sit as in Model/DelimRun.v)
stdout: JSON list of discard (bool) or {"error": ..}"""
import ast, json, sys
U = [ast.USub, ast.UAdd, ast.Not, ast.Invert]
B = [ast.Sub, ast.Add, ast.Mult, ast.Div, ast.FloorDiv, ast.Mod, ast.Pow, ast.LShift, ast.RShift, ast.BitOr, ast.BitXor, ast.BitAnd,
     ast.MatMult]
O = [ast.And, ast.Or]
n = lambda s: ast.Name(id=s, ctx=ast.Load())


def mk(kind, idx):
    if kind == 0:
        return ast.UnaryOp(op=U[idx](), operand=n('a'))
    if kind == 1:
        return ast.BinOp(left=n('a'), op=B[idx](), right=n('b'))
    return ast.BoolOp(op=O[idx](), values=[n('a'), n('b')])


def run(case):
    from pydoctor.epydoc.markup import _pyval_repr as R
    from pydoctor.astutils import Parentage
    (kind, idx), sit = case
    node = mk(kind, idx)
    col = R.PyvalColorizer(linelen=None, maxlines=0, linebreakok=False)
    st = R._ColorizerState()
    t = sit[0]
    root = None
    if t == 0:
        root = node
    elif t == 1:
        root = ast.Module(body=[ast.Assign(targets=[ast.Name(id='x', ctx=ast.Store())], value=node)], type_ignores=[])
    elif t == 2:
        root = ast.UnaryOp(op=U[sit[1]](), operand=node)
    elif t == 3:
        root = ast.BinOp(left=n('l'), op=B[sit[1]](), right=node) if sit[2] else ast.BinOp(left=node, op=B[sit[1]](), right=n('r'))
    elif t == 4:
        root = ast.BoolOp(op=O[sit[1]](), values=[n('l'), node])
    elif t == 5:
        c = sit[1]
        if c == 0:
            root = ast.List(elts=[node], ctx=ast.Load())
        elif c == 1:
            root = ast.Call(func=n('f'), args=[], keywords=[ast.keyword(arg='k', value=node)])
        else:
            root = ast.ListComp(elt=n('e'), generators=[ast.comprehension(target=ast.Name(id='t', ctx=ast.Store()), iter=node,
                                                                         ifs=[], is_async=0)])
        if len(sit) == 3:
            col.explicit_precedence[node] = sit[2]
    ast.fix_missing_locations(root)
    Parentage().visit(root)
    return bool(R._OperatorDelimiter(col, st, node).discard)


if __name__ == '__main__':
    out = []
    for c in json.load(sys.stdin):
        try:
            out.append(run(c))
        except Exception as e:  # noqa
            out.append({'error': '%s: %s' % (type(e).__name__, e)})
    json.dump(out, sys.stdout)
