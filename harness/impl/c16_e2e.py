"""C16 end-to-end worker: writes generated modules to a scratch directory (mkdtemp, removed afterwards) and
runs the REAL `pydoctor.driver.main` on each, in-process, with and without --warnings-as-errors.

stdin : JSON list of {"sources": [src0, src1, ...], "fmt": docformat, "target": full name, "quiet": bool}
        or {"projects": [{relpath: source, ...}, ...], "fmt", "quiet"}  (a package `pkg/...`; paths are printed as @ROOT@/pkg/...)
stdout: JSON list (same order) of lists (one per source) of observations
   {"status": int, "statusW": int,                       exit status without / with --warnings-as-errors
    "stdout": [...], "stdoutW": [...],                   stdout lines; the module's path replaced by "@MOD@"
    "violations": int, "violationsW": int,               System.violations at the end of make()  (before main's summary)
    "final_violations": int,
    "parse_error_sections": {section: [names]},
    "ds": docstring_lineno of target, "doc": cleaned docstring, "ln": linenumber of target,
    "reports": [[fullName, section, lineno_offset, descr, thresh], ...]}    every Documentable.report call (run without -W)
Observed from outside: driver.get_system and model.Documentable.report are wrapped, nothing in /repo is edited."""
import contextlib, io, json, os, shutil, sys, tempfile

from pydoctor import driver, model


def run_once(path, outdir, fmt, quiet, wae, strip='\0'):
    holder = {}
    reports = []
    real_gs = driver.get_system
    real_make = driver.make
    real_report = model.Documentable.report

    def gs(options):
        s = real_gs(options)
        holder['s'] = s
        return s

    def mk(system):
        r = real_make(system)
        holder['violations_after_make'] = system.violations
        return r

    def report(self, descr, section='parsing', lineno_offset=0, thresh=-1):
        sp = self.source_path
        reports.append([self.fullName(), section, lineno_offset, descr, thresh,
                        None if sp is None else str(sp).replace(strip, '@ROOT@'), int(self.docstring_lineno or 0),
                        int(self.linenumber or 0), self.module is self, self.module.fullName()])
        return real_report(self, descr, section=section, lineno_offset=lineno_offset, thresh=thresh)

    from pydoctor import node2stan
    real_gl = node2stan.get_lineno
    own_lines = []

    def gl(node):
        own_lines.append(bool(getattr(node, 'line', None)))
        return real_gl(node)
    node2stan.get_lineno = gl
    holder['xref_own_line'] = own_lines
    driver.get_system, driver.make, model.Documentable.report = gs, mk, report
    buf = io.StringIO()
    try:
        args = ['--docformat', fmt, '--html-output', outdir, '--project-name', 'p']
        if quiet:
            args.append('-q')
        if wae:
            args.append('--warnings-as-errors')
        args.append(path)
        with contextlib.redirect_stdout(buf):
            try:
                code = driver.main(args)
            except SystemExit as e:
                code = 'SystemExit:%s' % (e.code,)
            except Exception as e:
                code = 'exception:%s:%s' % (type(e).__name__, str(e)[:200])
    finally:
        driver.get_system, driver.make, model.Documentable.report = real_gs, real_make, real_report
        node2stan.get_lineno = real_gl
    lines = [(l.replace(strip, '@ROOT@') if strip != '\0' else l.replace(path, '@MOD@')) for l in buf.getvalue().split('\n')]
    if lines and lines[-1] == '':
        lines.pop()
    return code, lines, holder, reports


def run_source(root, idx, src, fmt, target, quiet):
    d = os.path.join(root, 'c%d' % idx)
    os.makedirs(d)
    path = os.path.join(d, 'mod.py')
    with open(path, 'w', encoding='utf-8', newline='') as f:
        f.write(src)
    code, lines, holder, reports = run_once(path, os.path.join(d, 'out'), fmt, quiet, False)
    codeW, linesW, holderW, _ = run_once(path, os.path.join(d, 'outW'), fmt, quiet, True)
    obs = {'status': code, 'statusW': codeW, 'stdout': lines, 'stdoutW': linesW, 'reports': reports}
    s = holder.get('s')
    sW = holderW.get('s')
    obs['violations'] = holder.get('violations_after_make')
    obs['violationsW'] = holderW.get('violations_after_make')
    obs['final_violations'] = s.violations if s is not None else None
    obs['xref_own_line'] = holder.get('xref_own_line', [])
    if s is not None:
        obs['parse_error_sections'] = {k: sorted(v) for k, v in s.parse_errors.items() if v}
        o = s.allobjects.get(target)
        if o is not None:
            obs['ds'] = int(o.docstring_lineno)
            obs['doc'] = o.docstring
            obs['ln'] = int(o.linenumber)
            obs['desc'] = o.description.replace(path, '@MOD@')
    shutil.rmtree(d, ignore_errors=True)
    return obs


def run_project(root, idx, files, fmt, quiet):
    """files: {relative path: source}; the single top-level package/module directory `pkg` is the source path."""
    d = os.path.join(root, 'p%d' % idx)
    for rel, src in files.items():
        fp = os.path.join(d, rel)
        os.makedirs(os.path.dirname(fp), exist_ok=True)
        with open(fp, 'w', encoding='utf-8', newline='') as f:
            f.write(src)
    path = os.path.join(d, 'pkg')
    cwd = os.getcwd()
    os.chdir(d)
    try:
        code, lines, holder, reports = run_once(path, os.path.join(d, 'out'), fmt, quiet, False, strip=d)
        codeW, linesW, holderW, _ = run_once(path, os.path.join(d, 'outW'), fmt, quiet, True, strip=d)
    finally:
        os.chdir(cwd)
    obs = {'status': code, 'statusW': codeW, 'stdout': lines, 'stdoutW': linesW, 'reports': reports}
    s = holder.get('s')
    obs['violations'] = holder.get('violations_after_make')
    obs['final_violations'] = s.violations if s is not None else None
    if s is not None:
        obs['parse_error_sections'] = {k: sorted(v) for k, v in s.parse_errors.items() if v}
    shutil.rmtree(d, ignore_errors=True)
    return obs


if __name__ == '__main__':
    cases = json.load(sys.stdin)
    root = tempfile.mkdtemp(prefix='verif_c16_')
    out = []
    try:
        n = 0
        for c in cases:
            res = []
            for files in c.get('projects', []):
                n += 1
                res.append(run_project(root, n, files, c['fmt'], c.get('quiet', True)))
            for src in c.get('sources', []):
                n += 1
                res.append(run_source(root, n, src, c['fmt'], c['target'], c.get('quiet', True)))
            out.append(res)
    finally:
        shutil.rmtree(root, ignore_errors=True)
    json.dump(out, sys.stdout)
