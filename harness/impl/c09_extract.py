"""Runs the REAL pydoctor.epydoc2stan.extract_fields on a class or module whose docstring fields are synthetic
(epydoc2stan.parse_docstring is replaced for the duration of the call by one that returns the given fields, field i
carrying the body marker i).

stdin : JSON list of {"obj": 4 class | 5 module, "members": [[name, kind]], "fields": [[tag, arg|null], ...]}
        member kind: 0 variable, 1 function/method, 2 class
stdout: JSON list of {"before": [names of obj.contents before the call],
                      "attrs": [[name, doc|null, type|null, kind|null, created], ...], "reports": [[lineno, message]], "exc": null|str}"""
import json, sys, traceback
from pydoctor import model, epydoc2stan
from pydoctor.epydoc.markup import Field, ParsedDocstring


class Body(ParsedDocstring):
    def __init__(self, i):
        super().__init__(fields=[])
        self.i = i

    @property
    def has_body(self):
        return True

    def to_stan(self, linker):
        from twisted.web.template import tags
        return tags.span('B%d' % self.i)

    def to_node(self):
        raise NotImplementedError()


class Doc(ParsedDocstring):
    @property
    def has_body(self):
        return True

    def to_stan(self, linker):
        from twisted.web.template import tags
        return tags.span('doc')

    def to_node(self):
        raise NotImplementedError()


def member_src(name, kind, ind):
    if kind == 0:
        return '%s%s = 1\n' % (ind, name)
    if kind == 1:
        return '%sdef %s(*a): pass\n' % (ind, name)
    return '%sclass %s: pass\n' % (ind, name)


def run_case(case):
    obs = {'before': None, 'attrs': None, 'reports': [], 'exc': None}
    try:
        system = model.System()
        system.msg = lambda *a, **k: None
        if case['obj'] == 4:
            src = 'class C:\n    "doc"\n' + ''.join(member_src(n, k, '    ') for n, k in case['members'])
            target = 'm.C'
        else:
            src = '"doc"\n' + ''.join(member_src(n, k, '') for n, k in case['members'])
            target = 'm'
        b = system.systemBuilder(system)
        b.addModuleString(src, modname='m')
        b.buildModules()
        obj = system.allobjects[target]
        obs['before'] = list(obj.contents)
        kinds_before = {n: o.kind for n, o in obj.contents.items()}
        reports = obs['reports']
        obj.report = lambda descr, section='parsing', lineno_offset=0, thresh=-1: reports.append([lineno_offset, descr])
        fields = [Field(t, a, Body(i), i) for i, (t, a) in enumerate(case['fields'])]
        real = epydoc2stan.parse_docstring
        epydoc2stan.parse_docstring = lambda o, doc, source, markup=None, section='docstring': Doc(fields)
        try:
            epydoc2stan.extract_fields(obj)
        finally:
            epydoc2stan.parse_docstring = real
        attrs = []
        for n, o in obj.contents.items():
            pd, pt = o.parsed_docstring, getattr(o, 'parsed_type', None)
            doc = pd.i if isinstance(pd, Body) else None
            ty = pt.i if isinstance(pt, Body) else None
            kind = None
            if doc is not None:
                kind = {model.DocumentableKind.INSTANCE_VARIABLE: 0, model.DocumentableKind.CLASS_VARIABLE: 1,
                        model.DocumentableKind.VARIABLE: 2}.get(o.kind, -1)
            elif n in kinds_before and o.kind is not kinds_before[n]:
                kind = -2
            attrs.append([n, doc, ty, kind, n not in kinds_before])
        obs['attrs'] = attrs
    except Exception as e:  # noqa
        obs['exc'] = '%s: %s\n%s' % (type(e).__name__, e, traceback.format_exc()[-800:])
    return obs


if __name__ == '__main__':
    cases = json.load(sys.stdin)
    json.dump([run_case(c) for c in cases], sys.stdout)
