"""C14 worker: runs the REAL pydoctor on small modules and reports what it built and what it displays.

stdin : JSON list of jobs
   {"t": "def", "src": <module source>, "q": <qualified name inside module m, e.g. "f" or "C.m">}
   {"t": "unstring", "expr": <source text of one annotation expression>}
stdout: JSON list of observations
   def      -> {"err": str} | {"found": bool, "primary": sig|None, "overloads": [sig...], "sigtext": str|None,
                "ovtexts": [str...], "shown": [str...], "reports": [code|[99,text]...], "is_async": bool}
               sig = {"params": [[name, kind, [default_enc]?, [annot_enc]?]...], "ret": [enc]?, "renders": [[enc, text]...]}
   unstring -> {"reported": 0/1, "expr": enc} | {"err": str}
"""
import ast
import inspect
import json
import os
import sys

sys.path.insert(0, os.path.dirname(os.path.abspath(__file__)))
from c14_common import enc_expr, opt, strip_tags  # noqa: E402

from pydoctor import model, astbuilder, astutils  # noqa: E402
from pydoctor.templatewriter import pages  # noqa: E402
from pydoctor.stanutils import flatten  # noqa: E402
from twisted.web.template import Tag  # noqa: E402

# observe which expression every formatter object wraps (wrapping the constructor, from outside)
_orig_init = astbuilder._ValueFormatter.__init__


def _init(self, value, *a, **kw):
    self._verif_value = value
    _orig_init(self, value, *a, **kw)


astbuilder._ValueFormatter.__init__ = _init

_REPORTS = []
_orig_report = model.Documentable.report


def _report(self, descr, *a, **kw):
    _REPORTS.append(descr)
    return _orig_report(self, descr, *a, **kw)


model.Documentable.report = _report


def classify_report(descr: str):
    if descr.startswith('duplicate '):
        return None          # System.handleDuplicate: a redefinition; not this model's business
    if descr.startswith('syntax error in annotation'):
        return 1
    if 'has invalid parameters: ' in descr:
        msg = descr.split('has invalid parameters: ', 1)[1]
        if msg.startswith('wrong parameter order'):
            return 11
        if msg.startswith('non-default argument follows default'):
            return 12
        if msg.startswith('duplicate parameter name'):
            return 13
        return [99, descr]
    if 'overload appeared after primary function' in descr:
        return 3
    return [99, descr]


def obs_value(v, renders):
    """v is Parameter.empty or a formatter object."""
    if v is inspect.Parameter.empty:
        return []
    node = getattr(v, '_verif_value', None)
    if node is None:
        return [[5, 0, [3, 'not-a-formatter:' + type(v).__name__]]]
    e = enc_expr(node)
    renders.append([e, strip_tags(repr(v))])
    return [e]


def obs_sig(sig):
    if sig is None:
        return None
    renders = []
    params = []
    for p in sig.parameters.values():
        params.append([str(p.name), int(p.kind), obs_value(p.default, renders), obs_value(p.annotation, renders)])
    ret = obs_value(sig.return_annotation, renders)
    return {'params': params, 'ret': ret, 'renders': renders}


def text_of(x) -> str:
    return strip_tags(flatten(x))


class Quiet(model.System):
    def msg(self, *a, **kw):  # keep stdout clean; reports are observed through Documentable.report
        pass


def run_def(job):
    del _REPORTS[:]
    system = Quiet()
    b = system.systemBuilder(system)
    b.addModuleString(job['src'], 'm')
    b.buildModules()
    ob = system.allobjects.get('m.' + job['q'])
    if not isinstance(ob, model.Function):
        return {'found': False, 'reports': [c for c in map(classify_report, _REPORTS) if c is not None],
                'what': type(ob).__name__}
    ovtexts = [text_of(pages.format_signature(o)) for o in ob.overloads]
    shown = []
    for part in pages.format_overloads(ob):
        if isinstance(part, Tag) and part.tagName == 'div':
            shown.append(text_of(part.children))
    main = text_of(pages.format_function_def(ob.name, ob.is_async, ob))
    if main:
        shown.append(main)
    return {'found': True,
            'primary': obs_sig(ob.signature),
            'overloads': [obs_sig(o.signature) for o in ob.overloads],
            'sigtext': text_of(pages.format_signature(ob)),
            'ovtexts': ovtexts,
            'shown': shown,
            'is_async': bool(ob.is_async),
            'annotations': sorted(str(k) for k in (ob.annotations or {})),
            'annot_items': [[str(k), opt(None if v is None else enc_expr(v))] for k, v in (ob.annotations or {}).items()],
            'reports': [c for c in map(classify_report, _REPORTS) if c is not None]}


def run_unstring(job):
    del _REPORTS[:]
    system = Quiet()
    b = system.systemBuilder(system)
    b.addModuleString('', 'm')
    b.buildModules()
    mod = system.allobjects['m']
    node = ast.parse(job['expr'], mode='eval').body
    out = astutils.unstring_annotation(node, mod)
    return {'reported': 1 if _REPORTS else 0, 'expr': enc_expr(out)}


def run_job(job):
    try:
        if job['t'] == 'def':
            return run_def(job)
        if job['t'] == 'unstring':
            return run_unstring(job)
        return {'err': 'unknown job type'}
    except Exception as e:  # an exception escaping pydoctor is an observation, not a worker failure
        import traceback
        return {'err': '%s: %s' % (type(e).__name__, e), 'tb': traceback.format_exc()[-1500:]}


if __name__ == '__main__':
    jobs = json.load(sys.stdin)
    json.dump([run_job(j) for j in jobs], sys.stdout)
