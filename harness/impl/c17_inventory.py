"""Runs the REAL pydoctor inventory code (pydoctor.sphinx, pydoctor.driver.make, pydoctor.model) on C17 cases.
stdin: JSON list of cases; stdout: JSON list of observations (same order).

case kinds
  {"k":"line","line":str}
      -> [0, name, typ, sign, abs(prio) % 1000000007, location, display] | [1, exception class name]
  {"k":"fetch","fetches":[[url, hex|null], ...],"queries":[name, ...]}
      one SphinxInventory, update() per fetch through a fake cache (System.fetchIntersphinxInventories loop)
      -> {"exc": null|class name, "links": [[name, base, location], ...] (dict order),
          "reports": [[where, message, thresh], ...], "answers": [[name, url|null], ...]}
  {"k":"project", "mods":[[modname, source, parent|null, is_package], ...], "privacy":[[CLASS, pattern], ...],
   "files": {relpath: source} (added by path, in sorted order of the top-level entries),
   "paths": [path relative to the repository root, ...] (real packages, read in place),
   "mode": one of intersphinx (--make-intersphinx only) | html (--make-html) | html+intersphinx | subject
           (--make-html --html-subject s for s in "subjects") | summary (--make-html --html-summary-pages),
   "project": str, "version": str}
      builds a System, runs driver.make(system) with makeintersphinx, reads objects.inv back with
      pydoctor's SphinxInventory and with sphinx.util.inventory.InventoryFile
      -> {"dump": the subjects SphinxInventoryWriter.generate was called with, "make": what make() was asked and which
          subjects it gave to writeIndividualFiles / generate, "documented": [[fullName, url]] objects whose page was
          written by this run (HTML modes), "targets": per entry read back [name, location, file written, anchor present], "root_names": [...], "data": hex, "visible": [[fullName, url], ...],
          "pyd": {"exc","links","reports","answers"}, "sphinx": {"exc", "entries": [[type, name, uri, dispname], ...]},
          "writer_errors": n, "build_exc": null|str, "registry_agrees": bool}
      "visible": every object reachable through contents from system.rootobjects whose isVisible is true;
      "registry_agrees": the same set is what system.allobjects holds (visible, attached) -- it is not when two root
      modules share a name (System._handleDuplicateModule leaves the superseded module in rootobjects)
  {"k":"linker","mods":[...as in project...],"fetches":[[url, hex|null|{"mods":[...]} (= the objects.inv pydoctor writes
   for that other project)], ...],"queries":[name, ...],"from":[qualified names of objects whose linker is used]}
      System(options.intersphinx=urls).fetchIntersphinxInventories(cache), modules built, then for each `from` object and
      each name of the loaded map + queries: docstring_linker.look_for_intersphinx(name), _resolve_identifier_xref(name)
      -> {"exc","links","reports","answers" (as fetch), "data": [hex|null per fetch], "root_names", "local": names of the
          project's own objects, "lookups": [[from, name, look_for_intersphinx, kind, value, expandName(name)], ...]}
  {"k":"sweep3","head": hex, "first": int}
      all 65536 byte strings head + bytes([first, b2, b3]) -> summary {"n":..., "anomalies":[hex, ...]}
      anomaly = anything but (no exception, no links, exactly one 'Failed to uncompress' report)
"""
import io
import json
import os
import shutil
import sys
import tempfile
from pathlib import Path

from pydoctor import model, sphinx as pdsphinx

BIG = 1000000007


class FakeCache:
    def __init__(self, table):
        self.table = table

    def get(self, url):
        return self.table.get(url)

    def close(self):
        pass


def run_line(case):
    try:
        name, typ, prio, loc, disp = pdsphinx._parseInventoryLine(case['line'])
    except Exception as e:  # noqa
        return [1, type(e).__name__]
    return [0, name, typ, 1 if prio < 0 else 0, abs(prio) % BIG, loc, disp]


def observe_inventory(fetches, queries):
    reports = []

    def logger(*a, **k):
        reports.append([a[0] if a else None, a[1] if len(a) > 1 else None, k.get('thresh', 0)])
    inv = pdsphinx.SphinxInventory(logger=logger)
    exc = None
    for url, data in fetches:
        try:
            inv.update(FakeCache({url: data}), url)
        except BaseException as e:  # noqa
            exc = type(e).__name__
            break
    links = [[k, v[0], v[1]] for k, v in inv._links.items()]
    answers = []
    for n in [k for k in inv._links] + list(queries):
        try:
            answers.append([n, inv.getLink(n)])
        except BaseException as e:  # noqa
            answers.append([n, '!' + type(e).__name__])
    return {'exc': exc, 'links': links, 'reports': reports, 'answers': answers}


def run_fetch(case):
    fetches = [[u, None if d is None else bytes.fromhex(d)] for u, d in case['fetches']]
    return observe_inventory(fetches, case.get('queries', []))


def tag_of(o):
    if isinstance(o, model.Module):
        return 0
    if isinstance(o, model.Class):
        return 1
    if isinstance(o, model.Function):
        return 2 if o.kind is model.DocumentableKind.FUNCTION else 3
    if isinstance(o, model.Attribute):
        return 4
    return 5


def dump(o):
    return [o.name, tag_of(o), o.privacyClass is model.PrivacyClass.HIDDEN, [dump(c) for c in o.contents.values()]]


def attached(system, o):
    """reachable from the root objects through `contents`"""
    while o.parent is not None:
        if o.parent.contents.get(o.name) is not o:
            return False
        o = o.parent
    return any(r is o for r in system.rootobjects)


MODES = ('intersphinx', 'html', 'html+intersphinx', 'subject', 'summary')


def dump_subject(o):
    """a subject of the writer: an Obj without parent, named by its qualified name, hidden = not isVisible"""
    return [o.fullName(), tag_of(o), not o.isVisible, [dump(c) for c in o.contents.values()]]


def anchor_in(page_text, anchor):
    import html
    from urllib.parse import unquote
    a = unquote(anchor)
    for cand in {a, html.escape(a, quote=True), html.escape(a, quote=False)}:
        if ('id="%s"' % cand) in page_text or ('name="%s"' % cand) in page_text:
            return True
    return False


def run_project(case):
    from pydoctor import driver
    from pydoctor.options import Options
    from pydoctor.templatewriter import writer as tw
    tmp = Path(tempfile.mkdtemp(prefix='c17_'))
    mode = case.get('mode') or ('html' if case.get('html') else 'intersphinx')
    assert mode in MODES, mode
    seen = {'html_subjects': None, 'inv_subjects': None, 'pages': []}
    orig_one = tw.TemplateWriter._writeDocsForOne
    orig_files = tw.TemplateWriter.writeIndividualFiles
    orig_gen = pdsphinx.SphinxInventoryWriter.generate

    def one(self, ob, fobj):
        seen['pages'].append(ob)
        return orig_one(self, ob, fobj)

    def files_(self, obs):
        obs = list(obs)
        seen['html_subjects'] = obs
        return orig_files(self, obs)

    def gen(self, subjects, basepath):
        subjects = list(subjects)
        seen['inv_subjects'] = subjects
        return orig_gen(self, subjects, basepath)
    tw.TemplateWriter._writeDocsForOne = one
    tw.TemplateWriter.writeIndividualFiles = files_
    pdsphinx.SphinxInventoryWriter.generate = gen
    try:
        out = tmp / 'out'
        opts = Options.defaults()
        opts.privacy = [(getattr(model.PrivacyClass, c), p) for c, p in case.get('privacy', [])]
        opts.makehtml = mode != 'intersphinx'
        opts.makeintersphinx = mode in ('intersphinx', 'html+intersphinx')
        if mode == 'subject':
            opts.htmlsubjects = list(case['subjects'])
        if mode == 'summary':
            opts.htmlsummarypages = True
        opts.htmloutput = str(out)
        opts.projectname = case.get('project', 'proj')
        opts.projectversion = case.get('version', '1.0')
        logs = []
        system = model.System(opts)

        def msg(section, m, thresh=0, **kw):
            logs.append([section, m, thresh])
        system.msg = msg
        b = system.systemBuilder(system)
        files = case.get('files') or {}
        if files:
            src = tmp / 'src'
            for rel, text in files.items():
                p = src / rel
                p.parent.mkdir(parents=True, exist_ok=True)
                p.write_text(text, encoding='utf-8')
            for top in sorted(src.iterdir()):
                b.addModule(top)
        for rel in case.get('paths', []):
            # real packages shipped with pydoctor, relative to the directory that holds the pydoctor package
            import pydoctor
            b.addModule(Path(pydoctor.__file__).resolve().parent.parent / rel)
        for name, text, parent, ispkg in case.get('mods', []):
            b.addModuleString(text, name, parent, ispkg)
        try:
            b.buildModules()
            system.projectname = opts.projectname
            driver.make(system)
        except BaseException as e:  # noqa
            return {'build_exc': type(e).__name__ + ': ' + str(e)[:300]}
        if seen['inv_subjects'] is None:
            return {'build_exc': 'driver.make did not call SphinxInventoryWriter.generate in mode ' + mode}
        data = (out / 'objects.inv').read_bytes()
        base = 'http://h/b'
        pyd = observe_inventory([[base + '/objects.inv', data]], [])
        sx = {'exc': None, 'entries': []}
        try:
            from sphinx.util.inventory import InventoryFile
            inv = InventoryFile.load(io.BytesIO(data), '', lambda a, b_: b_)
            for typ, d in inv.items():
                for name, item in d.items():
                    sx['entries'].append([typ, name, item.uri, item.display_name])
        except BaseException as e:  # noqa
            sx['exc'] = type(e).__name__ + ': ' + str(e)[:200]
        # every object reachable through `contents` from the ROOT objects (hidden ones included), kept when the real
        # isVisible property says so -- not the writer's pruned recursion, and not make()'s choice of subjects
        reach = []
        todo = list(reversed(system.rootobjects))
        while todo:
            o = todo.pop()
            reach.append(o)
            todo.extend(reversed(list(o.contents.values())))
        visible = [[o.fullName(), o.url] for o in reach if o.isVisible]
        registry = sorted(o.fullName() for o in system.allobjects.values() if o.isVisible and attached(system, o))
        # what this run documented: objects whose own page was written by TemplateWriter._writeDocsForOne, and the
        # members whose anchor is in such a page
        res = {
            'build_exc': None, 'mode': mode,
            'dump': [dump_subject(o) for o in seen['inv_subjects']],
            'root_names': list(system.root_names),
            'project': system.projectname, 'version': system.options.projectversion,
            'data': data.hex(), 'visible': visible, 'pyd': pyd, 'sphinx': sx,
            'registry_agrees': registry == sorted(set(n for n, _ in visible)) and len(registry) == len(visible),
            'writer_errors': len([l for l in logs if l[0] == 'sphinx' and l[2] == -1]),
            'make': {'makehtml': opts.makehtml is True, 'makeintersphinx': mode in ('intersphinx', 'html+intersphinx'),
                     'htmlsubjects': list(case.get('subjects', [])) if mode == 'subject' else [],
                     'summarypages': mode == 'summary',
                     'roots': [o.fullName() for o in system.rootobjects],
                     'html_subjects': None if seen['html_subjects'] is None else [o.fullName() for o in seen['html_subjects']],
                     'inv_subjects': [o.fullName() for o in seen['inv_subjects']]},
        }
        if opts.makehtml:
            paged = set(id(o) for o in seen['pages'])
            cache = {}

            def page_text(fn):
                if fn not in cache:
                    f = out / fn
                    cache[fn] = f.read_text(encoding='utf-8', errors='replace') if f.is_file() else None
                return cache[fn]
            documented = []
            for o in reach:
                if not o.isVisible:
                    continue
                if o.documentation_location is model.DocLocation.OWN_PAGE:
                    if id(o) in paged:
                        documented.append([o.fullName(), o.url])
                else:
                    po = o.parent
                    if po is not None and id(po) in paged:
                        pg, _, anc = o.url.partition('#')
                        t = page_text(pg)
                        if t is not None and anchor_in(t, anc):
                            documented.append([o.fullName(), o.url])
            targets = []
            for n, _b, loc in pyd['links']:
                pg, _, anc = loc.partition('#')
                t = page_text(pg)
                targets.append([n, loc, t is not None, (t is not None and (not anc or anchor_in(t, anc)))])
            res['documented'] = documented
            res['targets'] = targets
            res['pages_written'] = len(seen['pages'])
        return res
    finally:
        tw.TemplateWriter._writeDocsForOne = orig_one
        tw.TemplateWriter.writeIndividualFiles = orig_files
        pdsphinx.SphinxInventoryWriter.generate = orig_gen
        shutil.rmtree(tmp, ignore_errors=True)


def written_inventory(spec):
    """objects.inv as pydoctor writes it (driver.make, --make-intersphinx) for the project `spec`"""
    from pydoctor import driver
    from pydoctor.options import Options
    tmp = Path(tempfile.mkdtemp(prefix='c17_'))
    try:
        opts = Options.defaults()
        opts.makeintersphinx = True
        opts.makehtml = False
        opts.htmloutput = str(tmp / 'out')
        opts.projectname = spec.get('project', 'other')
        system = model.System(opts)
        system.msg = lambda *a, **k: None
        b = system.systemBuilder(system)
        for name, text, parent, ispkg in spec.get('mods', []):
            b.addModuleString(text, name, parent, ispkg)
        b.buildModules()
        driver.make(system)
        return (tmp / 'out' / 'objects.inv').read_bytes()
    finally:
        shutil.rmtree(tmp, ignore_errors=True)


def run_linker(case):
    """A project documented with remote inventories loaded: System.fetchIntersphinxInventories, then every name of the
    loaded map (and the queries) looked up through the REAL docstring linker of objects of the project."""
    from pydoctor.options import Options
    fetches = []
    for u, d in case['fetches']:
        if isinstance(d, dict):
            d = written_inventory(d)
        elif d is not None:
            d = bytes.fromhex(d)
        fetches.append([u, d])
    logs = []
    orig_msg = model.System.msg

    def msg(self, section, m, thresh=0, **kw):
        logs.append([section, m, thresh])
    model.System.msg = msg
    try:
        opts = Options.defaults()
        opts.intersphinx = [u for u, _ in fetches]
        system = model.System(opts)
        exc = None
        try:
            system.fetchIntersphinxInventories(FakeCache(dict((u, d) for u, d in fetches)))
        except BaseException as e:  # noqa
            exc = type(e).__name__
        reports = [l for l in logs if l[0] == 'sphinx']
        b = system.systemBuilder(system)
        for name, text, parent, ispkg in case.get('mods', []):
            b.addModuleString(text, name, parent, ispkg)
        try:
            b.buildModules()
        except BaseException as e:  # noqa
            return {'build_exc': type(e).__name__ + ': ' + str(e)[:300]}
        inv = system.intersphinx
        links = [[k, v[0], v[1]] for k, v in inv._links.items()]
        names = [k for k in inv._links] + list(case.get('queries', []))
        answers = []
        for n in names:
            try:
                answers.append([n, inv.getLink(n)])
            except BaseException as e:  # noqa
                answers.append([n, '!' + type(e).__name__])
        froms = [f for f in case.get('from', []) if f in system.allobjects] or list(system.allobjects)[:3]
        lookups = []
        for f in froms:
            ob = system.allobjects[f]
            lnk = ob.docstring_linker
            for n in names:
                try:
                    look = lnk.look_for_intersphinx(n)
                except BaseException as e:  # noqa
                    look = '!' + type(e).__name__
                try:
                    r = lnk._resolve_identifier_xref(n, 0)
                    res = ['url', r] if isinstance(r, str) else ['object', r.fullName()]
                except LookupError:
                    res = ['none', None]
                except BaseException as e:  # noqa
                    res = ['exc', type(e).__name__]
                try:
                    expanded = ob.expandName(n)
                except BaseException as e:  # noqa
                    expanded = None
                lookups.append([f, n, look, res[0], res[1], expanded])
        return {'build_exc': None, 'exc': exc, 'links': links, 'reports': reports, 'answers': answers,
                'data': [None if d is None else d.hex() for _, d in fetches],
                'root_names': list(system.root_names), 'local': sorted(system.allobjects), 'lookups': lookups}
    finally:
        model.System.msg = orig_msg


def run_sweep3(case):
    head = bytes.fromhex(case['head'])
    first = case['first']
    url = 'http://h/b/objects.inv'
    anomalies = []
    n = 0
    for b2 in range(256):
        for b3 in range(256):
            data = head + bytes([first, b2, b3])
            reports = []
            inv = pdsphinx.SphinxInventory(logger=lambda *a, **k: reports.append((a, k)))
            try:
                inv.update(FakeCache({url: data}), url)
                ok = (not inv._links and len(reports) == 1 and reports[0][1].get('thresh') == -1
                      and reports[0][0][1].startswith('Failed to uncompress'))
            except BaseException:  # noqa
                ok = False
            n += 1
            if not ok and len(anomalies) < 20:
                anomalies.append(data.hex())
    return {'n': n, 'anomalies': anomalies}


def run_case(case):
    k = case['k']
    if k == 'line':
        return run_line(case)
    if k == 'fetch':
        return run_fetch(case)
    if k == 'project':
        return run_project(case)
    if k == 'linker':
        return run_linker(case)
    if k == 'sweep3':
        return run_sweep3(case)
    raise ValueError(k)


if __name__ == '__main__':
    cases = json.load(sys.stdin)
    json.dump([run_case(c) for c in cases], sys.stdout)
