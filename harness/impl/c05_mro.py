"""C05 worker (a): the real pydoctor.mro on abstract inputs, next to CPython itself.

stdin : JSON list of cases
  {"kind": "abs",   "h": [[c, [b, ...]], ...]}   hierarchy in definition order (bases are earlier classes or leaves)
  {"kind": "merge", "ls": [[c, ...], ...]}       raw input of mro._merge
stdout: JSON list, one observation per case
  abs   -> {"impl": [[c, [status, [..]]], ...],      pydoctor.mro.mro(c, getbases) for every class
            "py":   [[c, [status, [..]]], ...]}      type(name, bases, {}).__mro__ (object dropped) / TypeError
  merge -> {"impl": [status, [..]],                  pydoctor.mro._merge(*ls)
            "py":   [status, [..]]}                  functools._c3_merge (CPython's pure-Python C3 merge)
  status: 0 ok | 1 ValueError / TypeError / RuntimeError(inconsistent) | 4 any other exception (name appended)
"""
import functools
import json
import signal
import sys

from pydoctor import mro as M


class Timeout(Exception):
    pass


def _alarm(signum, frame):
    raise Timeout()


def guard(seconds):
    """a mutated loop that never ends becomes an observation (status 4, 'Timeout'), not a hung check"""
    signal.signal(signal.SIGALRM, _alarm)
    signal.setitimer(signal.ITIMER_REAL, seconds)


def unguard():
    signal.setitimer(signal.ITIMER_REAL, 0)


def run_abs(h):
    d = {c: bs for c, bs in h}
    getbases = lambda c: d.get(c, [])
    impl = []
    for c, _ in h:
        try:
            guard(5)
            r = list(M.mro(c, getbases))
            unguard()
            impl.append([c, [0, r]])
        except ValueError:
            unguard()
            impl.append([c, [1, []]])
        except BaseException as e:  # noqa
            unguard()
            if isinstance(e, (KeyboardInterrupt, SystemExit)):
                raise
            impl.append([c, [4, [], type(e).__name__]])
    # CPython: execute the class statements in order
    cls = {}
    py = []

    def leaf(b):
        if b not in cls:
            k = type('L%d' % b, (), {})
            k._id = b
            cls[b] = k
        return cls[b]
    for c, bs in h:
        bases = []
        ok = True
        for b in bs:
            k = cls[b] if b in d else leaf(b)
            if k is None:
                ok = False
            bases.append(k)
        if not ok:
            cls[c] = None        # a base does not exist: the class statement cannot be executed
            py.append([c, [1, []]])
            continue
        try:
            k = type('K%d' % c, tuple(bases), {})
            k._id = c
            cls[c] = k
            py.append([c, [0, [x.__dict__['_id'] for x in k.__mro__[:-1]]]])
        except TypeError:
            cls[c] = None
            py.append([c, [1, []]])
    return {'impl': impl, 'py': py}


def run_merge(ls):
    try:
        guard(5)
        r = list(M._merge(*[list(l) for l in ls]))
        unguard()
        impl = [0, r]
    except ValueError:
        unguard()
        impl = [1, []]
    except BaseException as e:  # noqa
        unguard()
        if isinstance(e, (KeyboardInterrupt, SystemExit)):
            raise
        impl = [4, [], type(e).__name__]
    try:
        py = [0, list(functools._c3_merge([list(l) for l in ls]))]
    except RuntimeError:
        py = [1, []]
    return {'impl': impl, 'py': py}


def main():
    cases = json.load(sys.stdin)
    out = []
    for case in cases:
        if case['kind'] == 'abs':
            out.append(run_abs(case['h']))
        else:
            out.append(run_merge(case['ls']))
    json.dump(out, sys.stdout)


if __name__ == '__main__':
    main()
