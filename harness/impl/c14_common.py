"""Shared by harness/c14.py and harness/impl/c14_sig.py: standard library only (ast, hashlib, html, re).

Canonical encoding of Python expressions / ast.arguments into the nested-list wire format of
Model/Sig.v (see the `wire codec` comment there):

    expr := [0]                      the constant None
          | [1, sid, [parse]?]       a str constant; sid identifies its value; parse = encoding of the single
                                     expression ast.parse(value) yields, absent when it raises / is not one expression
          | [2, v, s]                Subscript
          | [3, id]                  Name
          | [4, v, attr]             Attribute
          | [5, tag, kid...]         any other node: tag identifies class + non-node fields; kids = the fields that
                                     hold a node or a list, in ast.iter_fields order (the order generic_visit uses)
          | [6, e...]                the value of a list-valued field
"""
import ast
import hashlib
import html
import re


def h48(s: str) -> int:
    return int.from_bytes(hashlib.sha1(s.encode('utf-8', 'surrogatepass')).digest()[:6], 'big')


def parse_string(value: str):
    """CPython's verdict on a string annotation: the expression it spells, or None."""
    try:
        body = ast.parse(value).body
    except SyntaxError:
        return None
    if len(body) != 1 or not isinstance(body[0], ast.Expr):
        return None
    return body[0].value


def enc_expr(node: ast.AST, depth: int = 0):
    if depth > 60:
        raise ValueError('expression too deep for the wire format')
    if isinstance(node, ast.Constant):
        if node.value is None:
            return [0]
        if isinstance(node.value, str):
            p = parse_string(node.value)
            return [1, h48('S' + node.value), [] if p is None else [enc_expr(p, depth + 1)]]
        return [5, h48('Constant:%s:%r:%r' % (type(node.value).__name__, node.value, node.kind))]
    if isinstance(node, ast.Subscript):
        return [2, enc_expr(node.value, depth + 1), enc_expr(node.slice, depth + 1)]
    if isinstance(node, ast.Name):
        return [3, node.id]
    if isinstance(node, ast.Attribute):
        return [4, enc_expr(node.value, depth + 1), node.attr]
    head = [type(node).__name__]
    kids = []
    for f, v in ast.iter_fields(node):
        if isinstance(v, ast.AST):
            head.append('%s=N' % f)
            kids.append(enc_expr(v, depth + 1))
        elif isinstance(v, list):
            head.append('%s=L' % f)
            kids.append([6] + [enc_expr(x, depth + 1) if isinstance(x, ast.AST) else [5, h48('item:%r' % (x,))]
                               for x in v])
        else:
            head.append('%s=%r' % (f, v))
    return [5, h48('|'.join(head))] + kids


def opt(x):
    return [] if x is None else [x]


def enc_arg(a: ast.arg):
    return [str(a.arg), opt(None if a.annotation is None else enc_expr(a.annotation))]


def enc_args(a: ast.arguments):
    return [[enc_arg(x) for x in a.posonlyargs], [enc_arg(x) for x in a.args],
            opt(None if a.vararg is None else enc_arg(a.vararg)),
            [enc_arg(x) for x in a.kwonlyargs],
            [opt(None if d is None else enc_expr(d)) for d in a.kw_defaults],
            opt(None if a.kwarg is None else enc_arg(a.kwarg)),
            [enc_expr(d) for d in a.defaults]]


def is_overload_deco(d: ast.expr) -> bool:
    """The generators only ever write `@overload` / `@typing.overload` (imported from typing)."""
    if isinstance(d, ast.Call):
        d = d.func
    return (isinstance(d, ast.Name) and d.id == 'overload') or \
        (isinstance(d, ast.Attribute) and d.attr == 'overload' and isinstance(d.value, ast.Name) and d.value.id == 'typing')


def enc_def(fd) -> list:
    return [enc_args(fd.args), opt(None if fd.returns is None else enc_expr(fd.returns)),
            [1 if is_overload_deco(d) else 0 for d in fd.decorator_list],
            1 if isinstance(fd, ast.AsyncFunctionDef) else 0]


def find_defs(tree: ast.Module, qual: str) -> list:
    """All FunctionDef/AsyncFunctionDef statements, in source order, that bind `qual` (e.g. 'f' or 'C.m')
    directly in the module / class body (the generators do not nest further)."""
    parts = qual.split('.')
    body = tree.body
    for p in parts[:-1]:
        nxt = None
        for st in body:
            if isinstance(st, ast.ClassDef) and st.name == p:
                nxt = st.body
        if nxt is None:
            return []
        body = nxt
    return [st for st in body if isinstance(st, (ast.FunctionDef, ast.AsyncFunctionDef)) and st.name == parts[-1]]


def norm(x):
    """Python-side encoding -> what lib.dec() gives for the same wire text (ints and lists only)."""
    if x is None:
        return []
    if isinstance(x, bool):
        return 1 if x else 0
    if isinstance(x, int):
        return x
    if isinstance(x, str):
        return [ord(c) for c in x]
    return [norm(y) for y in x]


_TAG = re.compile(r'<[^>]*>')


def strip_tags(s: str) -> str:
    return html.unescape(_TAG.sub('', s))
