"""C04 worker 1: the REAL pydoctor on a generated project.

case = {"files": {relpath: source}, "roots": [top-level dir or file names], "order": [module full names] | None,
        "queries": [[ctx_id, dotted], ...]}
   every module / class / function of the sources has the docstring '@@<full name at definition>' = its identity.
out  = {"own": [[ctx_id, name, ctx_fullName, expandName, resolved|None], ...]  (every name of contents/alias map of every namespace),
        "objs": {fullName: {"kind", "id", "amap": {name: target}|None, "base": id|None, "state"}},
        "results": [[ctx_fullName|None, expandName, [fullName, id]|None], ...], "reports": [...],
        "found": [["obj", fullName, id, kind] | ["none"] | ["LookupError", text] | None, ...]  System.find_object(expandName) per query,
        "rootorder": [root full names in System.rootobjects order]}
       or {"error": "..."} when an exception escaped."""
import contextlib, io, json, os, shutil, sys, tempfile
from pathlib import Path
from pydoctor import model

ST = {model.ProcessingState.UNPROCESSED: 0, model.ProcessingState.PROCESSING: 1, model.ProcessingState.PROCESSED: 2}


def ident(o):
    d = o.docstring
    if isinstance(d, str) and d.startswith('@@'):
        return d[2:].strip()
    return None


def kind_of(o):
    if isinstance(o, model.Package):
        return 1
    if isinstance(o, model.Module):
        return 0
    if isinstance(o, model.Class):
        return 2
    if isinstance(o, model.Function):
        return 3
    return 9


def run_case(case):
    d = Path(tempfile.mkdtemp(prefix='verif_c04_'))
    try:
        for rel, src in case['files'].items():
            p = d / rel
            p.parent.mkdir(parents=True, exist_ok=True)
            p.write_text(src)
        system = model.System()
        system.options.verbosity = -10
        reports = []
        orig_msg = system.msg

        def msg(section, m, *a, **k):
            if 'too high' in m or 'cannot resolve re-exported' in m:
                reports.append(m)
            return orig_msg(section, m, *a, **k)
        system.msg = msg
        for r in case['roots']:
            p = d / r
            if p.is_dir():
                system.addPackage(p)
            else:
                system.addModuleFromPath(p, None)
        if case.get('order'):
            byname = {m.fullName(): m for m in system.unprocessed_modules}
            rest = [m for m in system.unprocessed_modules if m.fullName() not in case['order']]
            system.unprocessed_modules[:] = [byname[n] for n in case['order'] if n in byname] + rest
        system.process()
        byid = {}
        objs = {}
        for fn, o in system.allobjects.items():
            i = ident(o)
            if i is not None:
                byid[i] = o
        for fn, o in system.allobjects.items():
            e = {'kind': kind_of(o), 'id': ident(o), 'amap': None, 'base': None, 'state': None,
                 'fullName': o.fullName()}
            if isinstance(o, model.CanContainImportsDocumentable):
                e['amap'] = dict(o._localNameToFullName_map)
            if isinstance(o, model.Class):
                bo = o.baseobjects
                e['base'] = ident(bo[0]) if bo and bo[0] is not None else None
                e['nbases'] = len(bo)
            if isinstance(o, model.Module):
                e['state'] = ST[o.state]
            objs[fn] = e
        results = []
        found = []      # System.find_object(expandName(name)): the lookup that follows the alias a re-export leaves behind

        def find(ex):
            try:
                f = system.find_object(ex)
            except LookupError as e:
                return ['LookupError', str(e)]
            if f is None:
                return ['none']
            return ['obj', f.fullName(), ident(f), kind_of(f)]
        for ctx_id, dotted in case['queries']:
            ctx = byid.get(ctx_id)
            if ctx is None:
                results.append([None, None, None])
                found.append(None)
                continue
            ex = ctx.expandName(dotted)
            r = ctx.resolveName(dotted)
            results.append([ctx.fullName(), ex, [r.fullName(), ident(r), kind_of(r)] if r is not None else None])
            found.append(find(ex))
        # every name pydoctor itself knows in a namespace (contents + alias map), resolved in that namespace: lets the
        # harness check names that Python does NOT bind (e.g. names invented by a star import)
        own = []
        for i, ctx in byid.items():
            if not isinstance(ctx, model.CanContainImportsDocumentable):
                continue
            seen = set()
            for name in list(ctx.contents) + list(ctx._localNameToFullName_map):
                if name in seen or ' ' in name or (name.startswith('__') and name.endswith('__')):
                    continue
                seen.add(name)
                r = ctx.resolveName(name)
                own.append([i, name, ctx.fullName(), ctx.expandName(name),
                            [r.fullName(), ident(r), kind_of(r)] if r is not None else None])
        return {'objs': objs, 'results': results, 'found': found, 'rootorder': [r.fullName() for r in system.rootobjects],
                'reports': reports, 'own': own}
    except BaseException as e:  # noqa
        import traceback
        return {'error': '%s: %s' % (type(e).__name__, e), 'tb': traceback.format_exc()[-1500:]}
    finally:
        shutil.rmtree(d, ignore_errors=True)


if __name__ == '__main__':
    cases = json.load(sys.stdin)
    out = []
    buf = io.StringIO()
    with contextlib.redirect_stdout(buf):
        for c in cases:
            out.append(run_case(c))
    json.dump(out, sys.stdout)
