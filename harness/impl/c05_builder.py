"""C05 worker (b): class hierarchies through the REAL pydoctor builder, next to the same hierarchy at run time in CPython.

stdin : JSON {"cases": [case, ...], "want_src": bool}    (or a bare list of cases)
  case = {"kind": "build" | "cyc",
          "h":   [[c, [b, ...]], ...]     classes in source order; c >= 1; a base >= 1000 is an undocumented (external) class
          "mod": [i, ...]                 module index of every class (same order as h)
          "imp": [0|1, ...]               per class: 0 `from mX import Kb`, 1 `import mX` and `mX.Kb`
          "gen": [[c, pos], ...]          bases written generic-subscripted: `Kb[T]`
          "mem": [[c, [[name, doc, kind], ...]], ...]   members: name index; doc: null | 0 (empty string) | k (text "doc<k>");
                                                        kind 0 method `f<name>`, 1 class variable `v<name>`
          "pkg": bool,                    modules are m0.. (false) or pk.m0.. inside a package (true)
          "reb": [[c, pos, d], ...]       base number pos of class c is written through a local name that is bound to the
                                          base just before the class statement (`from mX import Kb as B` / `B = Kb`) and
                                          RE-BOUND to the documented class d right after it (Python uses the first binding)
          "hid": [[c, n], ...]}           privacy rules (as --privacy=HIDDEN:<fullname>): n = -1 the whole class K<c>,
                                          otherwise the member numbered n (name + 100 * kind) of class K<c>
stdout: JSON list of observations
  {"impl": {"crash": null | str,
            "classes": {c: {"mro": [ids] (Class.mro(include_external=True)), "mro_int": [ids] (Class.mro()),
                            "warn": [kind, ...]   warnings of section 'mro' (1 linearization, 3 cycle, 9 other),
                            "find": [definer | null for every name of the pool],
                            "docs": [[name, [docsources classes], doc, source], ...] for every own member,
                            "chains": [[[chain], [names]], ...]  templatewriter.util.class_members,
                            "ovr": [overridden class | null for every own member] }}},
   "py":   {"classes": {c: {"mro": [ids] | null (TypeError, or a base does not exist),
                            "find": [...], "docs": [[name, doc, source], ...], "getdoc": [[name, doc], ...],
                            "ovr": [...] }}},
   "src": {module: text}  (only with want_src)}
Names are mapped back to numbers: K<c> -> c, ext.E<n> -> n.
"""
import inspect
import json
import re
import signal
import sys
import types

from pydoctor import model, stanutils
from pydoctor.templatewriter import pages, util as TU

NPOOL = 4          # member names f0..f3 / v0..v3


def mname(name, kind):
    return ('f%d' if kind == 0 else 'v%d') % name


def modname(case, i):
    return ('pk.m%d' if case.get('pkg') else 'm%d') % i


def gen_sources(case):
    h = case['h']
    mods = case['mod']
    imp = case.get('imp') or [0] * len(h)
    gen = set((c, p) for c, p in case.get('gen', []))
    reb = {(c, p): d for c, p, d in case.get('reb', [])}
    mem = {c: ms for c, ms in case.get('mem', [])}
    where = {c: mods[i] for i, (c, _) in enumerate(h)}
    nmods = max(mods) + 1 if mods else 1
    bodies = {i: [] for i in range(nmods)}
    imports = {i: [] for i in range(nmods)}
    for idx, (c, bs) in enumerate(h):
        mi = mods[idx]
        exprs = []
        pre = []
        post = []

        def bind(alias, k):
            if where[k] == mi:
                return '%s = K%d' % (alias, k)
            return 'from %s import K%d as %s' % (modname(case, where[k]), k, alias)
        for p, b in enumerate(bs):
            if (c, p) in reb and b < 1000:
                e = 'B%d_%d' % (c, p)
                pre.append(bind(e, b))
                post.append(bind(e, reb[(c, p)]))
            elif b >= 1000:
                if 'import ext' not in imports[mi]:
                    imports[mi].append('import ext')
                e = 'ext.E%d' % b
            elif where.get(b, mi) == mi:
                e = 'K%d' % b
            elif imp[idx] == 0:
                line = 'from %s import K%d' % (modname(case, where[b]), b)
                if line not in imports[mi]:
                    imports[mi].append(line)
                e = 'K%d' % b
            else:
                line = 'import %s' % modname(case, where[b])
                if line not in imports[mi]:
                    imports[mi].append(line)
                e = '%s.K%d' % (modname(case, where[b]), b)
            if (c, p) in gen:
                e += '[T]'
            exprs.append(e)
        lines = ['class K%d%s:' % (c, '(' + ', '.join(exprs) + ')' if exprs else '')]
        body = []
        for name, doc, kind in mem.get(c, []):
            if kind == 0:
                body.append('    def %s(self):' % mname(name, kind))
                if doc is None:
                    body.append('        pass')
                elif doc == 0:
                    body.append('        ""')
                else:
                    body.append('        """doc%d"""' % doc)
            else:
                body.append('    %s = %d' % (mname(name, kind), c))
                if doc is not None:
                    body.append('    ""' if doc == 0 else '    """doc%d"""' % doc)
        if not body:
            body = ['    pass']
        bodies[mi].extend(pre + lines + body + post + [''])
    src = {}
    if case.get('pkg'):
        src['pk'] = ''
    for i in range(nmods):
        src[modname(case, i)] = '\n'.join(imports[i] + [''] + bodies[i]) + '\n'
    return src


def cid(fullname):
    """'m1.K3' -> 3 ; 'ext.E1001' -> 1001 ; anything else -> the string itself"""
    m = re.search(r'(?:^|\.)K(\d+)$', fullname)
    if m:
        return int(m.group(1))
    m = re.search(r'(?:^|\.)E(\d+)$', fullname)
    if m:
        return int(m.group(1))
    return fullname


def docnum(text):
    if text is None:
        return None
    if text == '':
        return 0
    m = re.fullmatch(r'doc(\d+)', text.strip())
    return int(m.group(1)) if m else 'text:' + text[:30]


def observe_impl(case, src):
    reports = []                     # every message pydoctor logs: (section, text)
    orig_msg = model.System.msg

    def msg(self, section, msg, *a, **kw):
        reports.append((section, msg))
        return orig_msg(self, section, msg, *a, **kw)
    model.System.msg = msg
    try:
        system = model.System()
        system.options.verbosity = -5
        where = {c: case['mod'][i] for i, (c, _) in enumerate(case['h'])}
        rules = []
        for c, n in case.get('hid', []):
            full = '%s.K%d' % (modname(case, where[c]), c)
            if n >= 0:
                full += '.' + mname(n % 100, n // 100)
            rules.append((model.PrivacyClass.HIDDEN, full))
        system.options.privacy = rules          # what --privacy=HIDDEN:<fullname> stores
        builder = system.systemBuilder(system)
        for name, text in src.items():
            if name == 'pk':
                builder.addModuleString(text, 'pk', is_package=True)
            elif name.startswith('pk.'):
                builder.addModuleString(text, name[3:], parent_name='pk')
            else:
                builder.addModuleString(text, name)
        builder.buildModules()
    finally:
        model.System.msg = orig_msg
    out = {}
    byid = {}
    for ob in system.allobjects.values():
        if isinstance(ob, model.Class):
            k = cid(ob.fullName())
            if isinstance(k, int):
                byid[k] = ob
    mem = {c: ms for c, ms in case.get('mem', [])}
    for c, _ in case['h']:
        ob = byid.get(c)
        if ob is None:
            out[str(c)] = None                       # the class is not documented at all
            continue
        o = {}
        o['mro'] = [cid(x.fullName()) if isinstance(x, model.Documentable) else cid(x) for x in ob.mro(True)]
        o['mro_int'] = [cid(x.fullName()) for x in ob.mro()]
        w = []
        prefix = '%s:%s: ' % (ob.description, ob.linenumber)
        for section, descr in reports:
            if section == 'mro' and descr.startswith(prefix):
                w.append(1 if 'Cannot compute linearization' in descr else 3 if 'Cycle found' in descr else 9)
        o['warn'] = w
        finds = []
        for kind in (0, 1):
            for n in range(NPOOL):
                f = ob.find(mname(n, kind))
                finds.append(None if f is None else cid(f.parent.fullName()))
        o['find'] = finds
        docs = []
        ovr = []
        for name, doc, kind in mem.get(c, []):
            m = ob.contents.get(mname(name, kind))
            if m is None:
                docs.append([name, kind, 'missing'])
                ovr.append('missing')
                continue
            srcs = [cid(s.parent.fullName()) for s in m.docsources()]
            d, s = model.get_docstring(m)
            docs.append([name, kind, srcs, docnum(d), None if s is None else cid(s.parent.fullName())])
            text = stanutils.flatten_text(list(pages.get_override_info(ob, m.name, 'index.html')))
            mm = re.match(r'overrides ([\w.]*?K\d+)\.' + re.escape(m.name) + r'(?:overridden in .*)?$', text)
            if mm:
                ovr.append(cid(mm.group(1)))
            elif text.startswith('overrides'):
                ovr.append('unparsed:' + text[:60])
            else:
                ovr.append(None)
        o['docs'] = docs
        o['ovr'] = ovr
        chains = []
        for baselist, attrs in TU.class_members(ob):
            names = [a.name for a in attrs if isinstance(a, (model.Function, model.Attribute))]
            chains.append([[cid(b.fullName()) for b in baselist], names])
        o['chains'] = chains
        o['visible'] = bool(ob.isVisible)
        out[str(c)] = o
    return out


def observe_python(case):
    """The same hierarchy at run time: the class statements executed in order with type()."""
    h = case['h']
    keys = set(c for c, _ in h)
    mem = {c: ms for c, ms in case.get('mem', [])}
    twin = types.ModuleType('c05twin')
    sys.modules['c05twin'] = twin
    cls = {}

    def leaf(b):
        if b not in cls:
            k = type('E%d' % b, (), {})
            k._id = b
            cls[b] = k
        return cls[b]
    out = {}
    try:
        for c, bs in h:
            bases = []
            ok = True
            for b in bs:
                if b in keys:
                    k = cls.get(b)          # None: not (yet) defined or its class statement raised
                else:
                    k = leaf(b)
                if k is None:
                    ok = False
                bases.append(k)
            ns = {'_id': c, '__module__': 'c05twin', '__qualname__': 'K%d' % c}
            for name, doc, kind in mem.get(c, []):
                if kind == 0:
                    def f(self):
                        pass
                    f.__name__ = mname(name, kind)
                    f.__qualname__ = 'K%d.%s' % (c, f.__name__)
                    f.__module__ = 'c05twin'
                    f.__doc__ = None if doc is None else '' if doc == 0 else 'doc%d' % doc
                    f._def = c
                    ns[f.__name__] = f
                else:
                    ns[mname(name, kind)] = ('value', c)
            k = None
            if ok:
                try:
                    k = type('K%d' % c, tuple(bases), ns)
                except TypeError:
                    k = None
            cls[c] = k
            if k is not None:
                setattr(twin, 'K%d' % c, k)
        for c, _ in h:
            k = cls.get(c)
            if k is None:
                out[str(c)] = {'mro': None}
                continue
            o = {'mro': [x.__dict__['_id'] for x in k.__mro__[:-1]]}
            finds = []
            for kind in (0, 1):
                for n in range(NPOOL):
                    a = getattr(k, mname(n, kind), None)
                    if a is None:
                        finds.append(None)
                    elif kind == 0:
                        finds.append(a._def)
                    else:
                        finds.append(a[1])
            o['find'] = finds
            docs = []
            getdocs = []
            ovr = []
            for name, doc, kind in mem.get(c, []):
                nm = mname(name, kind)
                # the first class along the MRO whose namespace has the name ...
                first = None
                for base in k.__mro__[1:-1]:
                    if nm in base.__dict__:
                        first = base.__dict__['_id']
                        break
                ovr.append(first)
                if kind != 0:
                    continue
                # ... and the first one whose attribute has a __doc__ that is not None
                found = [None, None]
                for base in k.__mro__[:-1]:
                    if nm in base.__dict__ and base.__dict__[nm].__doc__ is not None:
                        found = [docnum(base.__dict__[nm].__doc__), base.__dict__['_id']]
                        break
                docs.append([name, found[0], found[1]])
                getdocs.append([name, docnum(inspect.getdoc(k.__dict__[nm]))])
            o['docs'] = docs
            o['getdoc'] = getdocs
            o['ovr'] = ovr
            out[str(c)] = o
    finally:
        sys.modules.pop('c05twin', None)
    return out


class Timeout(Exception):
    pass


def _alarm(signum, frame):
    raise Timeout('the run did not finish within 60 s')


def run_case(case, want_src):
    src = gen_sources(case)
    impl = {'crash': None, 'classes': {}}
    signal.signal(signal.SIGALRM, _alarm)
    try:
        signal.setitimer(signal.ITIMER_REAL, 60)
        impl['classes'] = observe_impl(case, src)
        signal.setitimer(signal.ITIMER_REAL, 0)
    except BaseException as e:  # noqa -- a crash of the run is an observation, not a worker failure
        signal.setitimer(signal.ITIMER_REAL, 0)
        if isinstance(e, (KeyboardInterrupt, SystemExit)):
            raise
        impl['crash'] = '%s: %s' % (type(e).__name__, str(e)[:200])
    obs = {'impl': impl, 'py': {'classes': observe_python(case)}}
    if want_src:
        obs['src'] = src
    return obs


def main():
    payload = json.load(sys.stdin)
    if isinstance(payload, dict):
        cases, want_src = payload['cases'], payload.get('want_src', False)
    else:
        cases, want_src = payload, False
    sys.setrecursionlimit(3000)
    real_stdout = sys.stdout
    sys.stdout = sys.stderr            # pydoctor prints its warnings; keep stdout for the result
    out = [run_case(c, want_src) for c in cases]
    sys.stdout = real_stdout
    json.dump(out, sys.stdout)


if __name__ == '__main__':
    main()
