"""Drives the REAL pydoctor.epydoc2stan.FieldHandler exactly as format_docstring() does, on synthetic Field
objects whose bodies render as the markers B0, B1, ... (field i -> "B<i>").

stdin : JSON list of cases
   {"obj": 0 function | 1 method | 2 classmethod | 3 staticmethod | 4 class | 5 module | 6 attribute,
    "sig": [[name, star, has_annotation], ...]   parameters of the function (star 0 plain, 1 *name, 2 **name),
    "ret": 0 no return annotation | 1 `-> None` | 2 `-> T_return`,
    "ctor": null | [[name, star], ...]           parameters of C.__init__ (obj 4),
    "unknown_base": bool, "gn": bool (docformat google), "fields": [[tag, arg|null], ...]}
stdout: JSON list of {"sections": [[label, [[name|null, type|null, body], ...]], ...],
                      "reports": [[lineno_offset, message], ...], "attr_type": null | "B<i>", "exc": null | str}
Every annotation of parameter n is the name T_<n>, so a type cell shows T_<n>, B<i>, the exception name, or
"Unknown exception"."""
import html, json, sys
from html.parser import HTMLParser
from twisted.web.template import tags
from pydoctor import model, epydoc2stan
from pydoctor.epydoc.markup import ParsedDocstring
from pydoctor.stanutils import flatten


class Body(ParsedDocstring):
    def __init__(self, i):
        super().__init__(fields=[])
        self.i = i

    @property
    def has_body(self):
        return True

    def to_stan(self, docstring_linker):
        return tags.span('B%d' % self.i, class_='vb')

    def to_node(self):
        raise NotImplementedError()


def params_src(sig, with_ann):
    parts = []
    seen_star = False
    for p in sig:
        name, star = p[0], p[1]
        ann = (': T_%s' % name) if (with_ann and len(p) > 2 and p[2]) else ''
        if star == 1:
            parts.append('*%s%s' % (name, ann))
            seen_star = True
        elif star == 2:
            parts.append('**%s%s' % (name, ann))
        else:
            parts.append('%s%s' % (name, ann))
    return ', '.join(parts)


def build(case):
    system = model.System()
    system.options.docformat = 'google' if case.get('gn') else 'epytext'
    system.msg = lambda *a, **k: None
    obj_k = case['obj']
    ret = {0: '', 1: ' -> None', 2: ' -> T_return'}[case.get('ret', 0)]
    if obj_k == 0:
        src = 'def f(%s)%s:\n    pass\n' % (params_src(case['sig'], True), ret)
        target = 'm.f'
    elif obj_k in (1, 2, 3):
        deco = {1: '', 2: '    @classmethod\n', 3: '    @staticmethod\n'}[obj_k]
        src = 'class C:\n%s    def f(%s)%s:\n        pass\n' % (deco, params_src(case['sig'], True), ret)
        target = 'm.C.f'
    elif obj_k == 4:
        base = '(SomethingUnknown)' if case.get('unknown_base') else ''
        if case.get('ctor') is None:
            src = 'class C%s:\n    x = 1\n' % base
        else:
            src = 'class C%s:\n    def __init__(%s):\n        pass\n' % (base, params_src(case['ctor'], False))
        target = 'm.C'
    elif obj_k == 5:
        src = 'x = 1\n'
        target = 'm'
    else:
        src = 'x = 1\n'
        target = 'm.x'
    b = system.systemBuilder(system)
    b.addModuleString(src, modname='m')
    b.buildModules()
    return system, system.allobjects[target]


class Dom(HTMLParser):
    """element = [tag, attrs, children]; children are elements or strings"""
    def __init__(self):
        super().__init__(convert_charrefs=True)
        self.root = ['root', {}, []]
        self.stack = [self.root]

    def handle_starttag(self, tag, attrs):
        el = [tag, dict(attrs), []]
        self.stack[-1][2].append(el)
        if tag not in ('wbr', 'br'):
            self.stack.append(el)

    def handle_endtag(self, tag):
        if tag in ('wbr', 'br'):
            return
        while len(self.stack) > 1:
            el = self.stack.pop()
            if el[0] == tag:
                break

    def handle_data(self, data):
        self.stack[-1][2].append(data)


def text_of(el):
    if isinstance(el, str):
        return el
    return ''.join(text_of(c) for c in el[2])


def find_all(el, pred):
    out = []
    if isinstance(el, str):
        return out
    for c in el[2]:
        if not isinstance(c, str):
            if pred(c):
                out.append(c)
            else:
                out.extend(find_all(c, pred))
    return out


def parse_table(htm):
    d = Dom()
    d.feed(htm)
    d.close()
    sections = []
    for tr in find_all(d.root, lambda e: e[0] == 'tr'):
        tds = [c for c in tr[2] if not isinstance(c, str) and c[0] == 'td']
        if tr[1].get('class') == 'fieldStart':
            sections.append([text_of(tr), []])
            continue
        if not sections:
            sections.append([None, []])
        if tds and tds[0][1].get('class') == 'fieldArgContainer':
            names = find_all(tds[0], lambda e: e[0] == 'span' and e[1].get('class') == 'fieldArg')
            name = text_of(names[0]) if names else None
            rest = ''.join(text_of(c) for c in tds[0][2] if not (names and c is names[0]))
            body = text_of(tds[1]) if len(tds) > 1 else None
            sections[-1][1].append([name, rest if rest != '' else None, body])
        else:
            sections[-1][1].append([None, None, ''.join(text_of(t) for t in tds)])
    return sections


_CACHE = {}


def build_cached(case):
    key = json.dumps([case['obj'], case['sig'], case.get('ret', 0), case.get('ctor'), case.get('unknown_base'),
                      case.get('gn')])
    if key not in _CACHE:
        if len(_CACHE) > 2000:
            _CACHE.clear()
        _CACHE[key] = build(case)
    system, obj = _CACHE[key]
    if hasattr(obj, 'parsed_type'):
        obj.parsed_type = None
    return system, obj


def run_case(case):
    system, obj = build_cached(case)
    reports = []
    obj.report = lambda message, section='parsing', lineno_offset=0, thresh=-1: reports.append([lineno_offset, message])
    obs = {'sections': None, 'reports': reports, 'attr_type': None, 'exc': None}
    try:
        fields = [epydoc2stan.Field(tag=t, arg=a, source=obj, lineno=i, body=Body(i))
                  for i, (t, a) in enumerate(case['fields'])]
        fh = epydoc2stan.FieldHandler(obj)
        if isinstance(obj, model.Function):
            fh.set_param_types_from_annotations(obj.annotations)
        for f in fields:
            fh.handle(f)
        if isinstance(obj, model.Function):
            fh.resolve_types()
        stan = fh.format()
        obs['sections'] = parse_table(flatten(stan))
        pt = getattr(obj, 'parsed_type', None)
        if isinstance(pt, Body):
            obs['attr_type'] = 'B%d' % pt.i
        sig_seen = None
        if isinstance(obj, model.Function):
            sig_seen = [[str(k), 1 if isinstance(k, epydoc2stan.VariableArgument) else
                         2 if isinstance(k, epydoc2stan.KeywordArgument) else 0, v is not None]
                        for k, v in obj.annotations.items()]
        elif isinstance(obj, model.Class):
            sig_seen = [[str(k), 1 if isinstance(k, epydoc2stan.VariableArgument) else
                         2 if isinstance(k, epydoc2stan.KeywordArgument) else 0, v is not None]
                        for k, v in obj.constructor_params.items()]
        obs['sig_seen'] = sig_seen
        obs['kind'] = obj.kind.name if obj.kind is not None else None
    except Exception as e:  # noqa
        import traceback
        obs['exc'] = '%s: %s\n%s' % (type(e).__name__, e, traceback.format_exc()[-800:])
    return obs


if __name__ == '__main__':
    cases = json.load(sys.stdin)
    json.dump([run_case(c) for c in cases], sys.stdout)
