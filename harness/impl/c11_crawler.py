"""Crawler shared by the C11 / C12 checks: parses every file of a pydoctor --html-output directory (stdlib only).

crawl(outdir) -> {
  'files':    sorted relative paths of every file (symlinks included, marked in 'symlinks'),
  'symlinks': {name: target},
  'pages':    {html file: {'ids': [...every id/name attribute...],
                           'refs': [[attr, value, zone], ...every href/src attribute...],
                           ... zone-specific listings, see page_info() ...}},
  'alldocs':  [[id, url, privacy, type], ...]          (all-documents.html)
  'search':   {'searchindex.json': [qname refs], 'fullsearchindex.json': [...]},
  'inventory': [[name, type, url], ...]                (objects.inv)
}
A tiny DOM is built with html.parser; twisted.web.template emits XHTML-like markup (<wbr></wbr>, <meta ..> </meta>,
<input ..>text</input>), so void elements are leaves and their end tags are ignored."""
from __future__ import annotations
import json, os, re, zlib
from html.parser import HTMLParser
from pathlib import Path
from typing import Any, Dict, Iterator, List, Optional

VOID = {'meta', 'link', 'img', 'br', 'hr', 'input', 'wbr', 'area', 'base', 'col', 'embed', 'source', 'track', 'param'}


class Node:
    __slots__ = ('tag', 'attrs', 'kids', 'parent')

    def __init__(self, tag: str, attrs: Dict[str, str], parent: Optional['Node']):
        self.tag, self.attrs, self.kids, self.parent = tag, attrs, [], parent

    def classes(self) -> List[str]:
        return (self.attrs.get('class') or '').split()

    def text(self) -> str:
        out: List[str] = []
        stack: List[Any] = [self]
        while stack:
            n = stack.pop()
            if isinstance(n, str):
                out.append(n)
            else:
                stack.extend(reversed(n.kids))
        return ''.join(out)

    def walk(self) -> Iterator['Node']:
        stack = [self]
        while stack:
            n = stack.pop()
            yield n
            stack.extend(k for k in reversed(n.kids) if not isinstance(k, str))

    def elems(self) -> List['Node']:
        return [k for k in self.kids if not isinstance(k, str)]

    def find(self, tag: Optional[str] = None, cls: Optional[str] = None, id_: Optional[str] = None) -> List['Node']:
        return [n for n in self.walk() if n is not self and (tag is None or n.tag == tag)
                and (cls is None or cls in n.classes()) and (id_ is None or n.attrs.get('id') == id_)]

    def first(self, tag: Optional[str] = None, cls: Optional[str] = None, id_: Optional[str] = None) -> Optional['Node']:
        for n in self.walk():
            if n is not self and (tag is None or n.tag == tag) and (cls is None or cls in n.classes()) \
                    and (id_ is None or n.attrs.get('id') == id_):
                return n
        return None

    def ancestors(self) -> Iterator['Node']:
        p = self.parent
        while p is not None:
            yield p
            p = p.parent


class Dom(HTMLParser):
    def __init__(self) -> None:
        super().__init__(convert_charrefs=True)
        self.root = Node('#root', {}, None)
        self.cur = self.root

    def handle_starttag(self, tag: str, attrs: Any) -> None:
        n = Node(tag, {k: (v if v is not None else '') for k, v in attrs}, self.cur)
        self.cur.kids.append(n)
        if tag not in VOID:
            self.cur = n

    def handle_startendtag(self, tag: str, attrs: Any) -> None:
        n = Node(tag, {k: (v if v is not None else '') for k, v in attrs}, self.cur)
        self.cur.kids.append(n)

    def handle_endtag(self, tag: str) -> None:
        if tag in VOID:
            return
        n = self.cur
        while n is not None and n.tag != tag:
            n = n.parent
        if n is not None and n.parent is not None:
            self.cur = n.parent

    def handle_data(self, data: str) -> None:
        self.cur.kids.append(data)


def parse(text: str) -> Node:
    d = Dom()
    d.feed(text)
    d.close()
    return d.root


def zone_of(n: Node) -> str:
    """The container an element sits in (innermost decisive ancestor first)."""
    chain = [n] + list(n.ancestors())
    for a in chain:
        cl = a.classes()
        i = a.attrs.get('id')
        if a.tag == 'head':
            return 'head'
        if a.tag == 'footer' or 'footer' in cl:
            return 'footer'
        if 'headerLink' in cl:
            return 'headerlink'
        if 'sourceLink' in cl:
            return 'sourcelink'
        if 'interfaceinfo' in cl:
            return 'interfaceinfo'
        if 'thingTitle' in cl:
            return 'sidebar_title'
        if 'itemName' in cl:
            return 'sidebar_item'
        if a.tag == 'nav' and 'sidebar' in cl:
            return 'sidebar_other'
        if 'sidebarcontainer' in cl:
            return 'sidebar_other'
        if 'class-signature' in cl:
            return 'class_signature'
        if 'inheritedFrom' in cl:
            return 'base_name'
        if a.tag == 'td':
            tr = a.parent
            tb = tr.parent if tr is not None else None
            if tb is not None and tb.tag == 'tbody':
                tb = tb.parent
            if tr is not None and tr.tag == 'tr' and tb is not None and 'children' in tb.classes():
                tds = [k for k in tr.elems() if k.tag == 'td']
                if a in tds:
                    return ['table_kind', 'table_name', 'table_summary'][min(tds.index(a), 2)]
        if 'functionBody' in cl:
            return 'member_doc'
        if 'functionHeader' in cl:
            return 'member_header'
        if 'moduleDocstring' in cl:
            return 'docstring'
        if 'extrasDocstring' in cl:
            return 'extras'
        if 'page-header' in cl:
            return 'heading'
        if 'letterlinks' in cl:
            return 'letterlinks'
        if i == 'summaryTree':
            return 'summary_tree'
        if i == 'childList':
            return 'childlist'
        if i == 'splitTables':
            return 'tables_other'
        if a.tag == 'nav' or 'navbar' in cl:
            return 'nav'
    return 'other'


def label_and_href(n: Node) -> List[Any]:
    """[text, href or None, title or None] of the first <code> inside n (the name cell of an entry)."""
    code = n if n.tag == 'code' else n.first('code')
    if code is None:
        return [n.text().strip(), None, None]
    a = code.first('a')
    if a is not None and 'href' in a.attrs:
        return [code.text().strip(), a.attrs['href'], a.attrs.get('title')]
    return [code.text().strip(), None, None]


def table_rows(table: Node) -> List[Any]:
    rows = []
    for tr in table.find('tr'):
        tds = [k for k in tr.elems() if k.tag == 'td']
        if len(tds) < 2:
            continue
        rows.append({'class': tr.attrs.get('class', ''), 'kind': tds[0].text().strip(), 'name': label_and_href(tds[1])})
    return rows


def summary_li(li: Node, path: List[str], out: List[Any]) -> None:
    """moduleIndex / classIndex style nested <li>: own name cell = first <code> that is not inside a nested <ul>."""
    own_code = None
    own_anchor = None
    stack = list(reversed(li.elems()))
    while stack:
        n = stack.pop()
        if n.tag == 'ul':
            continue
        if n.tag == 'a' and 'name' in n.attrs and own_anchor is None:
            own_anchor = n.attrs['name']
        if n.tag == 'code' and own_code is None:
            own_code = n
            continue
        stack.extend(reversed(n.elems()))
    lh = label_and_href(own_code) if own_code is not None else [li.text().strip()[:80], None, None]
    me = path + [lh[0]]
    # links of the summary that follows the name (not the name itself, not nested entries)
    slinks = []
    stack2 = list(reversed(li.elems()))
    while stack2:
        n = stack2.pop()
        if n.tag == 'ul' or n is own_code:
            continue
        if n.tag == 'a' and 'href' in n.attrs and 'internal-link' in n.classes():
            slinks.append(n.attrs['href'])
        stack2.extend(reversed(n.elems()))
    out.append({'path': me, 'name': lh, 'class': li.attrs.get('class', ''), 'anchor': own_anchor, 'summary_links': slinks})
    for k in li.elems():
        if k.tag == 'ul':
            for sub in k.elems():
                if sub.tag == 'li':
                    if 'compact-modules' in sub.classes():
                        for sp in sub.elems():
                            if sp.tag == 'span':
                                out.append({'path': me + [label_and_href(sp)[0]], 'name': label_and_href(sp),
                                            'class': sp.attrs.get('class', ''), 'anchor': None})
                    else:
                        summary_li(sub, me, out)


def page_info(name: str, root: Node) -> Dict[str, Any]:
    info: Dict[str, Any] = {}
    ids: List[str] = []
    refs: List[Any] = []
    for n in root.walk():
        for k in ('id', 'name'):
            if k in n.attrs and not (k == 'name' and n.tag in ('meta', 'input')):
                ids.append(n.attrs[k])
        for k in ('href', 'src'):
            if k in n.attrs:
                refs.append([k, n.attrs[k], zone_of(n), ' '.join(n.classes()), n.attrs.get('title')])
    info['ids'] = ids
    info['refs'] = refs
    title = root.first('title')
    info['title'] = title.text().strip() if title is not None else None
    # ---- object pages
    st = root.first(id_='splitTables')
    if st is not None:
        tables = []
        kind = 'main'
        base = None
        for k in st.elems():
            cl = k.classes()
            if k.tag == 'p' and 'inheritedFrom' in cl:
                kind = 'base'
                codes = k.find('code')
                base = [label_and_href(c) for c in codes]
            elif k.tag == 'p' and 'fromInitPy' in cl:
                kind = 'pkginit'
                base = None
            elif k.tag == 'table':
                tables.append({'kind': kind, 'base': base, 'rows': table_rows(k)})
                kind, base = 'main', None
        info['tables'] = tables
    cl_ = root.first(id_='childList')
    if cl_ is not None:
        members = []
        for d in cl_.elems():
            if d.tag != 'div':
                continue
            anchors = [a.attrs['name'] for a in d.elems() if a.tag == 'a' and 'name' in a.attrs]
            hl = d.first('a', cls='headerLink')
            infos = []
            for ii in d.find('div', cls='interfaceinfo'):
                infos.append({'text': ii.text().strip(), 'links': [label_and_href(c) for c in ii.find('code')]})
            members.append({'class': d.attrs.get('class', ''), 'anchors': anchors,
                            'headerlink': hl.attrs.get('href') if hl is not None else None,
                            'title': hl.attrs.get('title') if hl is not None else None, 'interfaceinfo': infos})
        info['members'] = members
    ph = root.first('div', cls='page-header')
    if ph is not None:
        h1 = ph.first('h1')
        if h1 is not None:
            info['heading'] = {'class': h1.attrs.get('class', ''),
                               'parts': [label_and_href(c) for c in h1.find('code') if c.first('code') is None]}
    ex = root.first('div', cls='extrasDocstring')
    if ex is not None:
        sig = ex.first('p', cls='class-signature')
        info['class_signature'] = [[a.text().strip(), a.attrs.get('href')] for a in sig.find('a')
                                   if 'sourceLink' not in a.classes()] if sig is not None else None
        info['class_signature_text'] = sig.text().strip() if sig is not None else None
        extras = []
        for p in ex.elems():
            if p is sig:
                continue
            t = p.text().strip()
            if p.tag == 'p' and (t.startswith('Known subclasses:') or t.startswith('Known implementations:')
                                 or t.startswith('Implements interfaces:')):
                extras.append({'label': t.split(':')[0], 'links': [label_and_href(c) for c in p.find('code')]})
            elif p.tag == 'p' and t.startswith('View In Hierarchy'):
                a = p.first('a')
                info['hierarchy'] = a.attrs.get('href') if a is not None else None
        info['extras'] = extras
    sb = root.first('nav', cls='sidebar')
    if sb is not None:
        secs = []
        for sec in sb.elems():
            if sec.tag != 'div':
                continue
            tt = sec.first('div', cls='thingTitle')
            items = []
            for li in sec.find('li'):
                nm = None
                for d in li.elems():
                    if d.tag == 'div' and 'itemName' in d.classes():
                        nm = d
                        break
                if nm is None:
                    continue
                depth = sum(1 for a in li.ancestors() if a.tag == 'li')
                own = None
                for c in nm.walk():
                    if c.tag == 'code':
                        own = c
                        break
                items.append({'class': li.attrs.get('class', ''), 'name': label_and_href(own) if own is not None else [nm.text().strip(), None, None],
                              'depth': depth, 'expandable': 'expandableItem' in nm.classes()})
            secs.append({'title': label_and_href(tt) if tt is not None else None,
                         'kind': (tt.first('span').text().strip() if tt is not None and tt.first('span') is not None else None),
                         'items': items})
        info['sidebar'] = secs
    # ---- summary pages
    trees = root.find('ul') if name in ('moduleIndex.html', 'classIndex.html', 'undoccedSummary.html', 'nameIndex.html') else []
    trees = [u for u in trees if u.attrs.get('id') == 'summaryTree']
    if name in ('moduleIndex.html', 'classIndex.html'):
        out: List[Any] = []
        for u in trees:
            for li in u.elems():
                if li.tag == 'li':
                    summary_li(li, [], out)
        info['tree'] = out
    if name == 'undoccedSummary.html':
        info['flat'] = [{'name': label_and_href(li), 'class': li.attrs.get('class', ''), 'text': li.text().strip()[:120]}
                        for u in trees for li in u.elems() if li.tag == 'li']
    if name == 'nameIndex.html':
        flat = []
        for u in trees:
            for li in u.elems():
                if li.tag != 'li':
                    continue
                sub = [k for k in li.elems() if k.tag == 'ul']
                if sub:
                    nm = ''.join(k for k in li.kids if isinstance(k, str)).strip()
                    for s in sub[0].elems():
                        if s.tag == 'li':
                            flat.append({'index_name': nm, 'name': label_and_href(s), 'class': s.attrs.get('class', ''),
                                         'item_class': li.attrs.get('class', '')})
                else:
                    nm = ''.join(k for k in li.kids if isinstance(k, str)).strip()
                    if nm.endswith(' -'):
                        nm = nm[:-2]
                    flat.append({'index_name': nm, 'name': label_and_href(li), 'class': li.attrs.get('class', ''),
                                 'item_class': li.attrs.get('class', '')})
        info['flat'] = flat
        info['letters'] = [a.attrs['name'] for a in root.find('a') if 'name' in a.attrs and a.parent is not None
                           and not a.find('a') and zone_of(a) == 'other']
    if name == 'index.html' and st is None:
        roots = []
        for li in root.find('li'):
            kids = li.elems()
            if len(kids) == 1 and kids[0].tag == 'code' and not any(k.tag == 'ul' for k in kids):
                roots.append(label_and_href(kids[0]))
        info['roots'] = roots
    return info


def crawl(outdir: Path) -> Dict[str, Any]:
    res: Dict[str, Any] = {'files': [], 'symlinks': {}, 'pages': {}, 'alldocs': None, 'search': {}, 'inventory': None}
    for dp, dn, fn in os.walk(outdir):
        for f in fn:
            p = Path(dp) / f
            rel = str(p.relative_to(outdir))
            res['files'].append(rel)
            if p.is_symlink():
                res['symlinks'][rel] = os.readlink(p)
    res['files'].sort()
    for rel in res['files']:
        p = outdir / rel
        if rel.endswith('.html') and '/' not in rel:
            if rel in res['symlinks']:
                continue
            root = parse(p.read_text(encoding='utf-8', errors='replace'))
            if rel == 'all-documents.html':
                docs = []
                for li in root.find('li'):
                    if 'id' not in li.attrs:
                        continue
                    def fld(c: str) -> Optional[str]:
                        d = li.first('div', cls=c)
                        return d.text() if d is not None else None
                    docs.append([li.attrs['id'], fld('url'), fld('privacy'), fld('type'), fld('kind')])
                res['alldocs'] = docs
                res['pages'][rel] = {'ids': [], 'refs': [[k, n.attrs[k], zone_of(n), ''] for n in root.walk()
                                                         for k in ('href', 'src') if k in n.attrs and zone_of(n) in ('head', 'nav', 'footer')],
                                     'title': None}
            else:
                res['pages'][rel] = page_info(rel, root)
        elif rel in ('searchindex.json', 'fullsearchindex.json'):
            data = json.loads(p.read_text(encoding='utf-8'))
            refs = set()
            for key in data.get('fieldVectors', []):
                k = key[0] if isinstance(key, list) else key
                refs.add(k.split('/', 1)[1])
            res['search'][rel] = sorted(refs)
        elif rel == 'objects.inv':
            raw = p.read_bytes()
            marker = b'zlib.\n'
            i = raw.index(marker) + len(marker)
            lines = zlib.decompress(raw[i:]).decode('utf-8').split('\n')
            inv = []
            for ln in lines:
                if not ln:
                    continue
                m = re.match(r'(.+?)\s+(\S+:\S+)\s+(-?\d+)\s+(\S+)\s+(.*)$', ln)
                inv.append([m.group(1), m.group(2), m.group(4)] if m else [ln, '?', '?'])
            res['inventory'] = inv
    return res
