"""C16 unit-level worker: runs the REAL pydoctor functions that Model/Lines.v and Model/Msg.v mirror.
stdin: JSON list of cases {op: ...}; stdout: JSON list of canonical observations (same order).

  doc      {is_end, lineno, doc}                         astutils.extract_docstring on an ast.Constant node
                                                          -> [lineno, cleaned, inspect.cleandoc(doc), doc.expandtabs()]
  realdoc  {src}                                         ast.parse(src); astutils.extract_docstring of the module docstring node
                                                          -> [node.lineno, lineno, cleaned, value]
  isspace  {}                                            -> all code points c with chr(c).isspace()
  report   {verbosity, section, ds, ln, off, is_module, description, descr, thresh}
                                                          Documentable.report -> [violations, [printed lines]]
  field    same, without section/thresh                   epydoc2stan.Field.report
  xref     {verbosity, ds, ln, off, is_module, description, name}   linker link_xref of an unknown name
  msgs     {verbosity, calls:[[section,msg,thresh,topthresh,once],...]}   System.msg
  reperrs  {verbosity, section, obj:[description, fullname(ignored), ds, ln, is_module], pre:[names], errs:[[descr, stored|None]]}
                                                          epydoc2stan.reportErrors -> [violations, printed, sorted(parse_errors[section])]
  tail     {verbosity, wae, violations, pe:[[section,[names]],...]}   driver.main with get_system/make substituted
                                                          -> [code, violations, number of printed lines]
  rstreader {line}                                       restructuredtext._EpydocReader.report(system_message(line=...))
                                                          -> [ParseError._linenum, the lineno_offset reportErrors derives from it]
  epytok   {text}                                         epytext._tokenize -> [line features, [[tag, startline]], [[error kind, line]]]
  descr    {own_path, mod_path}                           Documentable.description of an object whose module has another path
  rstconsol {doc}                                        restructuredtext.parse_docstring of a docstring with an unsplittable
                                                          consolidated field -> [ParseError._linenum, lineno_offset]
  attrline {fmt, src, cls, attr}                          extract_fields: line of an attribute documented by a field
                                                          -> [cls.docstring_lineno, attr.linenumber, attr.docstring_lineno]
"""
import ast, contextlib, inspect, io, json, sys
from pathlib import Path

from pydoctor import astutils, model, epydoc2stan, driver
from pydoctor.options import Options
from pydoctor.epydoc.markup import ParseError


def mk_system(verbosity):
    opts = Options.defaults()
    opts.verbosity = verbosity
    return model.System(opts)


def mk_obj(system, description, ds, ln, is_module):
    mod = model.Module(system, 'mod', source_path=Path(description) if description is not None else None)
    system.addObject(mod)
    if is_module:
        o = mod
    else:
        o = model.Function(system, 'f', mod)
        o.parentMod = mod
        system.addObject(o)
    o.docstring_lineno = ds
    if ln:
        o.linenumber = model.LineFromAst(ln)
    else:
        o.linenumber = 0
    return o


def capture(fn):
    buf = io.StringIO()
    with contextlib.redirect_stdout(buf):
        r = fn()
    return r, buf.getvalue().split('\n')[:-1] if buf.getvalue() else []


def run_case(c):
    op = c['op']
    if op == 'doc':
        node = ast.Constant(value=c['doc'])
        node.lineno = c['lineno']
        old = astutils._string_lineno_is_end
        astutils._string_lineno_is_end = bool(c['is_end'])
        try:
            ln, cleaned = astutils.extract_docstring(node)
        finally:
            astutils._string_lineno_is_end = old
        return [ln, cleaned, inspect.cleandoc(c['doc']), c['doc'].expandtabs()]
    if op == 'realdoc':
        tree = ast.parse(c['src'])
        node = astutils.get_docstring_node(tree)
        ln, cleaned = astutils.extract_docstring(node)
        return [node.lineno, ln, cleaned, node.value]
    if op == 'isspace':
        return [i for i in range(0x110000) if chr(i).isspace()]
    if op in ('report', 'field', 'xref'):
        system = mk_system(c['verbosity'])
        o = mk_obj(system, c['description'], c['ds'], c['ln'], c['is_module'])
        if op == 'report':
            fn = lambda: o.report(c['descr'], section=c['section'], lineno_offset=c['off'], thresh=c['thresh'])
        elif op == 'field':
            f = epydoc2stan.Field(tag='x', arg=None, source=o, lineno=c['off'], body=None)
            fn = lambda: f.report(c['descr'])
        else:
            fn = lambda: o.docstring_linker.link_xref(c['name'], 'label', c['off'])
        _, out = capture(fn)
        return [system.violations, out]
    if op == 'msgs':
        system = mk_system(c['verbosity'])

        def go():
            for section, m, thresh, topthresh, once in c['calls']:
                system.msg(section, m, thresh=thresh, topthresh=topthresh, once=bool(once))
        _, out = capture(go)
        return [system.violations, out]
    if op == 'reperrs':
        system = mk_system(c['verbosity'])
        description, _fn, ds, ln, is_module = c['obj']
        o = mk_obj(system, description, ds, ln, is_module)
        if c['pre']:
            system.parse_errors[c['section']] = set(c['pre'])
        errs = [ParseError(d, linenum=stored) for d, stored in c['errs']]
        _, out = capture(lambda: epydoc2stan.reportErrors(o, errs, section=c['section']))
        return [system.violations, out, sorted(system.parse_errors[c['section']]) if c['section'] in system.parse_errors else [],
                o.fullName()]
    if op == 'tail':
        holder = {}

        def fake_get_system(options):
            s = model.System(options)
            s.violations = c['violations']
            for sec, names in c['pe']:
                s.parse_errors[sec] = set(names)
            holder['s'] = s
            return s
        old_gs, old_make = driver.get_system, driver.make
        driver.get_system, driver.make = fake_get_system, (lambda system: None)
        try:
            args = ['/nonexistent/mod.py']
            v = c['verbosity']
            args += ['-v'] * max(v, 0) + ['-q'] * max(-v, 0)
            if c['wae']:
                args.append('--warnings-as-errors')
            code, out = capture(lambda: driver.main(args))
        finally:
            driver.get_system, driver.make = old_gs, old_make
        return [code, holder['s'].violations, len(out)]
    if op == 'rstreader':
        from docutils import nodes
        from pydoctor.epydoc.markup import restructuredtext as rst
        errors = []
        reader = rst._EpydocReader(errors)
        attrs = {'level': c.get('level', 2), 'type': 'WARNING'}
        if c['line'] is not None:
            attrs['line'] = c['line']
        reader.report(nodes.system_message('some message', **attrs))
        e = errors[0]
        return [e._linenum, (e.linenum() or 1) - 1]
    if op == 'getlineno':
        from docutils import nodes
        from pydoctor.epydoc.docutils import get_lineno
        ref = nodes.title_reference(c['ref_raw'] or '', 'x')
        if c['node_line'] is not None:
            ref.line = c['node_line']
        cur = ref
        for raw, line in c['ancestors']:           # innermost first: (rawsource or '', line or None)
            par = nodes.paragraph(raw or '', '')
            if line is not None:
                par.line = line
            par.append(cur)
            cur = par
        return get_lineno(ref)
    if op == 'rstfields':
        from pydoctor.epydoc.markup import restructuredtext as rst
        errs = []
        parsed = rst.parse_docstring(c['doc'], errs)
        return [[f.tag(), f.arg(), f.lineno] for f in parsed.fields]
    if op == 'oncesites':
        import ast as _ast, pydoctor, os
        root = os.path.dirname(pydoctor.__file__)
        sites = []
        for dp, dn, fn in os.walk(root):
            if os.sep + 'test' in dp:
                continue
            for f in fn:
                if not f.endswith('.py'):
                    continue
                tree = _ast.parse(open(os.path.join(dp, f), encoding='utf-8').read())
                for node in _ast.walk(tree):
                    if isinstance(node, _ast.Call) and isinstance(node.func, _ast.Attribute) and node.func.attr == 'msg':
                        kw = {k.arg: k.value for k in node.keywords}
                        if 'once' not in kw:
                            continue
                        once = kw['once']
                        if not (isinstance(once, _ast.Constant) and once.value is False):
                            sec = node.args[0] if node.args else kw.get('section')
                            th = kw.get('thresh', node.args[2] if len(node.args) > 2 else None)
                            def lit(x):
                                if x is None:
                                    return 0
                                try:
                                    return _ast.literal_eval(x)
                                except Exception:
                                    return '<not a literal>'
                            sites.append([os.path.relpath(os.path.join(dp, f), root),
                                          sec.value if isinstance(sec, _ast.Constant) else '<not a literal>', lit(th)])
        return sorted(sites)
    if op == 'epytok':
        from pydoctor.epydoc.markup import epytext as E
        text = c['text']
        errs = []
        toks = E._tokenize(text, errs)
        tagc = {E.Token.PARA: 0, E.Token.HEADING: 1, E.Token.BULLET: 2, E.Token.LBLOCK: 3, E.Token.DTBLOCK: 4}
        kinds = {'Possible mal-formatted field item.': 0, 'Improper doctest block indentation.': 2}
        feats = []
        for line in text.split('\n'):
            indent = len(line) - len(line.lstrip())
            blank = indent == len(line)
            m = None if blank else E._BULLET_RE.match(line, indent)
            st = line.strip()
            rest = line[m.end():] if m else ''
            feats.append([len(line), indent, m is not None, line[indent:indent + 4] == '>>> ', line.rstrip()[-2:] == '::',
                          (not blank) and line[indent] == '@', len(st),
                          len(st) > 0 and st[0] in E._HEADING_CHARS and all(ch == st[0] for ch in st),
                          bool(rest.strip()), rest.strip()[-2:] == '::'])
        return [feats, [[tagc[t.tag], t.startline] for t in toks],
                [[kinds.get(e.descr(), 1 if e.descr().startswith('Possible heading typo') else 9), e._linenum] for e in errs]]
    if op == 'descr':
        system = mk_system(0)
        mod = model.Module(system, 'pkg', source_path=Path(c['mod_path']) if c['mod_path'] else None)
        system.addObject(mod)
        o = model.Function(system, 'f', mod, source_path=Path(c['own_path']) if c['own_path'] else None)
        o.parentMod = mod
        if c['own_path'] is None:
            o.source_path = None
        return o.description
    if op == 'rstconsol':
        from pydoctor.epydoc.markup import restructuredtext as rst
        errs = []
        rst.parse_docstring(c['doc'], errs)
        mine = [e for e in errs if 'Unable to split consolidated field' in e.descr()]
        e = mine[0]
        return [e._linenum, (e.linenum() or 1) - 1]
    if op == 'attrline':
        opts = Options.defaults()
        opts.verbosity = -1
        opts.docformat = c['fmt']
        system = model.System(opts)
        b = system.systemBuilder(system)
        b.addModuleString(c['src'], 'mod')
        _, out = capture(b.buildModules)
        cls = system.allobjects[c['cls']]
        attr = system.allobjects.get(c['cls'] + '.' + c['attr'])
        if attr is None:
            return [cls.docstring_lineno, None, None]
        return [cls.docstring_lineno, int(attr.linenumber), int(attr.docstring_lineno)]
    raise ValueError(op)


if __name__ == '__main__':
    cases = json.load(sys.stdin)
    out = []
    for c in cases:
        try:
            out.append(run_case(c))
        except Exception as e:   # an exception is an observation too
            out.append({'exception': type(e).__name__ + ': ' + str(e)[:300]})
    json.dump(out, sys.stdout)
