"""Value-level adapter of C03: for each literal source text runs the REAL pydoctor.astutils.infer_type on its AST and
evaluates the literal with CPython.
stdin : JSON list of source texts;  stdout: JSON list of [annotation text | None, [type name, sorted elem types, sorted dict value types]]"""
import ast
import json
import sys
from pydoctor import astutils


def ty_of(v):
    elems, vals = [], []
    if isinstance(v, (list, tuple, set, frozenset)):
        elems = sorted({type(x).__name__ for x in v})
    elif isinstance(v, dict):
        elems = sorted({type(x).__name__ for x in v.keys()})
        vals = sorted({type(x).__name__ for x in v.values()})
    return [type(v).__name__, elems, vals]


def one(src):
    expr = ast.parse(src, mode='eval').body
    a = astutils.infer_type(expr)
    return [None if a is None else ast.unparse(a).strip(), ty_of(ast.literal_eval(src))]


if __name__ == '__main__':
    json.dump([one(s) for s in json.load(sys.stdin)], sys.stdout)
