"""C10 whole-run worker: builds tiny projects in scratch directories, runs the REAL pydoctor driver with
--make-html on them and reports, for every *.html written, whether it is well-formed XML once characters
illegal in XML are set aside, and the multiset of element names, (element, attribute) names and entity
references found in it.

stdin : JSON list of jobs {files: {relpath: text}, root: relpath, docformat: str, args: [...]}
stdout: JSON list of {status, exc, pages: {file: {wf, err, ctx, illegal, elems: {name: n}, attrs: {"elem@attr": n},
                                                  entities: {name: n}, handlers: [...]}}}

How HTML specifics are handled: pydoctor pages are XHTML (XML declaration + DOCTYPE with an external DTD).
expat does not read the external DTD; an entity reference that is not predefined in XML (&nbsp; ...) is then
not a well-formedness error but is reported to SkippedEntityHandler: it is counted in `entities` so that the
caller can require that the payload introduces none.  `handlers` lists attributes whose name starts with "on"
and href/src/action values starting with "javascript:" (case-insensitively, after trimming)."""
import io, json, os, re, shutil, sys, tempfile, contextlib
import xml.parsers.expat as expat

ILLEGAL = re.compile('[^\\x09\\x0a\\x0d\\x20-\\ud7ff\\ue000-\\ufffd\\U00010000-\\U0010ffff]')


def scan(data: bytes) -> dict:
    try:
        text = data.decode('utf-8')
        undecodable = False
    except UnicodeDecodeError:
        text = data.decode('utf-8', 'replace')
        undecodable = True
    clean, nillegal = ILLEGAL.subn('', text)
    elems, attrs, ents, handlers = {}, {}, {}, []

    def start(name, a):
        elems[name] = elems.get(name, 0) + 1
        for i in range(0, len(a), 2):
            k = name + '@' + a[i]
            attrs[k] = attrs.get(k, 0) + 1
            if a[i].lower().startswith('on'):
                handlers.append(k)
            if a[i].lower() in ('href', 'src', 'action', 'formaction', 'data') and \
                    re.sub(r'[\x00-\x20]', '', a[i + 1]).lower().startswith(('javascript:', 'vbscript:', 'data:text/html')):
                handlers.append(k + '=' + a[i + 1][:40])

    def skipped(name, is_pe):
        ents[name] = ents.get(name, 0) + 1
    p = expat.ParserCreate()
    p.ordered_attributes = True
    p.StartElementHandler = start
    p.SkippedEntityHandler = skipped
    p.UseForeignDTD(False)
    res = {'wf': True, 'err': None, 'ctx': None, 'illegal': nillegal, 'undecodable': undecodable}
    try:
        p.Parse(clean.encode('utf-8'), True)
    except expat.ExpatError as e:
        lines = clean.split('\n')
        line = lines[e.lineno - 1] if 0 < e.lineno <= len(lines) else ''
        res.update(wf=False, err=str(e), ctx=line[max(0, e.offset - 80):e.offset + 80])
    res.update(elems=elems, attrs=attrs, entities=ents, handlers=handlers)
    return res


def run_job(job: dict) -> dict:
    from pydoctor import driver
    d = tempfile.mkdtemp(prefix='verif_c10_')
    try:
        src = os.path.join(d, 'src')
        out = os.path.join(d, 'out')
        for rel, content in job['files'].items():
            p = os.path.join(src, rel)
            os.makedirs(os.path.dirname(p), exist_ok=True)
            with open(p, 'w', encoding='utf-8', errors='surrogatepass', newline='') as f:
                f.write(content)
        args = ['--make-html', '--html-output', out, '--docformat', job.get('docformat', 'epytext'),
                '--project-name', job.get('project_name', 'proj')] + list(job.get('args', [])) + [os.path.join(src, job['root'])]
        buf = io.StringIO()
        status, exc = None, None
        try:
            with contextlib.redirect_stdout(buf), contextlib.redirect_stderr(buf):
                status = driver.main(args)
        except SystemExit as e:
            status = e.code if isinstance(e.code, int) else 1
        except BaseException as e:  # noqa
            import traceback
            exc = type(e).__name__ + ': ' + str(e)[:300] + '\n' + traceback.format_exc()[-800:]
        pages = {}
        if os.path.isdir(out):
            for root, _, files in os.walk(out):
                for fn in sorted(files):
                    if fn.endswith('.html'):
                        full = os.path.join(root, fn)
                        if os.path.islink(full):
                            continue
                        with open(full, 'rb') as f:
                            pages[os.path.relpath(full, out)] = scan(f.read())
        return {'status': status, 'exc': exc, 'pages': pages, 'log': buf.getvalue()[-1500:]}
    finally:
        shutil.rmtree(d, ignore_errors=True)


if __name__ == '__main__':
    jobs = json.load(sys.stdin)
    real_stdout = sys.stdout
    sys.stdout = sys.stderr
    out = [run_job(j) for j in jobs]
    json.dump(out, real_stdout)
