"""Renders whole docstrings with the REAL pydoctor: model.System + systemBuilder.addModuleString, options.docformat set,
epydoc2stan.format_docstring(obj) -> stanutils.flatten.

stdin : JSON list of {"docformat": str, "source": python source of module m, "target": full name of the documented object,
                      "also": [names of attributes whose own rendering is wanted (class/module variables)]}
stdout: JSON list of {"html": str, "msgs": [[section, message], ...], "docstring": the docstring pydoctor saw,
                      "attrs": {name: {"html": str, "type": str|null, "kind": str|null}}, "exc": null|str}"""
import json, sys, traceback
from pydoctor import model, epydoc2stan
from pydoctor.stanutils import flatten


def run_case(case):
    obs = {'html': None, 'msgs': [], 'docstring': None, 'attrs': {}, 'exc': None}
    try:
        system = model.System()
        system.options.docformat = case['docformat']
        msgs = obs['msgs']

        def msg(section, m, thresh=0, topthresh=100, nonl=False, wantsnl=True, once=False):
            msgs.append([section, str(m)])
        system.msg = msg
        b = system.systemBuilder(system)
        b.addModuleString(case['source'], modname='m')
        b.buildModules()
        obj = system.allobjects[case['target']]
        obs['docstring'] = obj.docstring
        obs['html'] = flatten(epydoc2stan.format_docstring(obj))
        for name in case.get('also', []):
            a = system.allobjects.get(case['target'] + '.' + name)
            if a is None:
                obs['attrs'][name] = None
                continue
            ty = epydoc2stan.type2stan(a)
            obs['attrs'][name] = {'html': flatten(epydoc2stan.format_docstring(a)),
                                  'type': None if ty is None else flatten(ty),
                                  'kind': a.kind.name if a.kind is not None else None}
    except Exception as e:  # noqa
        obs['exc'] = '%s: %s\n%s' % (type(e).__name__, e, traceback.format_exc()[-1200:])
    return obs


if __name__ == '__main__':
    cases = json.load(sys.stdin)
    json.dump([run_case(c) for c in cases], sys.stdout)
