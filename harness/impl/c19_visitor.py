"""Runs the real pydoctor.visitor.Visitor on (fn, exts, prunes, tree) cases and records the event trace.
stdin: JSON list of cases; stdout: JSON list of [escaped(0/1/2), [[who, dir, node], ...]]
  escaped: 0 = returned, 1 = SkipSiblings escaped, 2 = another exception escaped (string appended)."""
import json, sys
from pydoctor import visitor as V

class ClassDef:
    """node class with upper-case letters in its name: visit_ClassDef / visit_classdef dispatch both apply"""
    def __init__(self, spec):
        self.id = spec[0]
        self.kids = [ClassDef(k) for k in spec[1:]]
T = ClassDef

ACTIONS = {1: 'SkipChildren', 2: 'SkipSiblings', 3: 'SkipNode', 4: 'SkipDeparture'}
WHENS = {0: V.When.BEFORE, 1: V.When.AFTER, 2: V.When.INNER, 3: V.When.OUTTER}
# handler styles: how a participant spells its handlers for the node class `ClassDef`
STYLES = {0: ('unknown_visit', 'unknown_departure'), 1: ('visit_ClassDef', 'depart_ClassDef'),
          2: ('visit_classdef', 'depart_classdef')}

def make_visitor(exts, prune, trace, style):
    vname, dname = STYLES[style]
    def main_visit(self, ob):
        trace.append([0, 0, ob.id])
        a = prune.get(ob.id, 0)
        if a:
            raise getattr(self, ACTIONS[a])()
    def main_depart(self, ob):
        trace.append([0, 1, ob.id])
    Main = type('Main', (V.Visitor,), {
        'get_children': classmethod(lambda cls, ob: ob.kids), vname: main_visit, dname: main_depart})
    return Main(V.ExtList(*[make_ext(eid, when, trace, style) for eid, when in exts]))

def make_ext(eid, when, trace, style):
    vname, dname = STYLES[style]
    return type('E%d' % eid, (V.VisitorExt,), {
        'when': WHENS[when],
        vname: (lambda self, ob: trace.append([eid, 0, ob.id])),
        dname: (lambda self, ob: trace.append([eid, 1, ob.id]))})

def one_walk(m, fn, tree, trace):
    esc = 0
    try:
        if fn == 1:
            m.walk(T(tree))
        else:
            m.walkabout(T(tree))
    except V.Visitor.SkipSiblings:
        esc = 1
    except Exception as e:  # noqa
        return [2, list(trace), type(e).__name__]
    return [esc, list(trace)]

def run_case(case):
    if case[0] == 'seq':
        # ['seq', style, [[fn, exts_added_before_this_walk, prunes, tree], ...]] : ONE visitor, several walks,
        # extensions registered between the walks (ExtList.add + attach_visitor, as ASTBuilder.processModuleAST does)
        _, style, steps = case
        trace = []
        prune = {}
        m = make_visitor([], prune, trace, style)
        out = []
        for fn, add, prunes, tree in steps:
            if add:
                m.extensions.add(*[make_ext(eid, when, trace, style) for eid, when in add])
                m.extensions.attach_visitor(m)
            prune.clear(); prune.update({n: a for n, a in prunes})
            del trace[:]
            out.append(one_walk(m, fn, tree, trace))
        return out
    fn, exts, prunes, tree = case[:4]
    style = case[4] if len(case) > 4 else 0
    trace = []
    m = make_visitor(exts, {n: a for n, a in prunes}, trace, style)
    return one_walk(m, fn, tree, trace)

if __name__ == '__main__':
    cases = json.load(sys.stdin)
    json.dump([run_case(c) for c in cases], sys.stdout)
