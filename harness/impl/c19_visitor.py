"""Runs the real pydoctor.visitor.Visitor on (fn, exts, prunes, tree) cases and records the event trace.
stdin: JSON list of cases; stdout: JSON list of [escaped(0/1/2), [[who, dir, node], ...]]
  escaped: 0 = returned, 1 = SkipSiblings escaped, 2 = another exception escaped (string appended)."""
import json, sys
from pydoctor import visitor as V

class T:
    def __init__(self, spec):
        self.id = spec[0]
        self.kids = [T(k) for k in spec[1:]]

ACTIONS = {1: 'SkipChildren', 2: 'SkipSiblings', 3: 'SkipNode', 4: 'SkipDeparture'}
WHENS = {0: V.When.BEFORE, 1: V.When.AFTER, 2: V.When.INNER, 3: V.When.OUTTER}

def run_case(case):
    fn, exts, prunes, tree = case
    trace = []
    prune = {n: a for n, a in prunes}

    class Main(V.Visitor):
        @classmethod
        def get_children(cls, ob):
            return ob.kids
        def unknown_visit(self, ob):
            trace.append([0, 0, ob.id])
            a = prune.get(ob.id, 0)
            if a:
                raise getattr(self, ACTIONS[a])()
        def unknown_departure(self, ob):
            trace.append([0, 1, ob.id])

    classes = []
    for eid, when in exts:
        def mk(eid, when):
            class E(V.VisitorExt):
                pass
            E.when = WHENS[when]
            E.unknown_visit = lambda self, ob: trace.append([eid, 0, ob.id])
            E.unknown_departure = lambda self, ob: trace.append([eid, 1, ob.id])
            return E
        classes.append(mk(eid, when))
    m = Main(V.ExtList(*classes))
    esc = 0
    try:
        if fn == 1:
            m.walk(T(tree))
        else:
            m.walkabout(T(tree))
    except V.Visitor.SkipSiblings:
        esc = 1
    except Exception as e:  # noqa
        return [2, trace, type(e).__name__]
    return [esc, trace]

if __name__ == '__main__':
    cases = json.load(sys.stdin)
    json.dump([run_case(c) for c in cases], sys.stdout)
