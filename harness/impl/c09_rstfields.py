"""Runs the REAL restructuredtext.parse_docstring and records what its _SplitFieldsTranslator was given and what it made.

stdin : JSON list of reST docstrings
stdout: JSON list of {"in": [[field name, [body node, ...]], ...]   the field nodes of the parsed document, in document order,
                      "lowers": [[tagname, tagname.lower()], ...], "nested": bool (a field list inside a field body),
                      "out": [[tag, arg|null, [body node, ...], newfield], ...], "errors": [[code, n], ...], "exc": null|str}
   node := [0, text] | [1, tagcode, kid, ...]"""
import json, re, sys, traceback
from docutils import nodes
from pydoctor.epydoc.markup import restructuredtext as R
from pydoctor.epydoc.markup.plaintext import ParsedPlaintextDocstring

TAGS = {'paragraph': 0, 'title_reference': 1, 'bullet_list': 2, 'list_item': 3, 'definition_list': 4, 'definition_list_item': 5,
        'term': 6, 'classifier': 7, 'definition': 8}
OTHER = ['emphasis', 'strong', 'literal', 'reference', 'literal_block', 'doctest_block', 'enumerated_list', 'field_list', 'field',
         'field_name', 'field_body', 'block_quote', 'target', 'system_message', 'problematic', 'note', 'inline', 'math',
         'footnote_reference', 'substitution_reference', 'comment', 'line_block', 'line', 'section', 'title', 'transition']
ERRS = [(r'does not contain a single list\.', 1), (r'bad bulleted list \(bad child (\d+)\)', 2),
        (r'list item (\d+) contains a definition list', 3), (r'list item (\d+) is not well formed', 4),
        (r'does not contain a bulleted list or definition list\.', 5), (r'does not contain a bulleted list\.', 6),
        (r'bad definition list \(bad child (\d+)\)', 7), (r'item (\d+) is not well formed', 8)]


def ser(n):
    if isinstance(n, nodes.Text):
        return [0, str(n)]
    code = TAGS.get(n.tagname)
    if code is None:
        code = 10 + OTHER.index(n.tagname) if n.tagname in OTHER else 99
    return [1, code] + [ser(c) for c in n.children]


def run_case(docstring):
    obs = {'in': [], 'lowers': [], 'nested': False, 'out': [], 'errors': [], 'exc': None}
    real = R._SplitFieldsTranslator

    class Recording(real):
        def __init__(self, document, errors):
            super().__init__(document, errors)
            for f in document.findall(nodes.field):
                p = f.parent
                while p is not None:
                    if isinstance(p, nodes.field_body):
                        obs['nested'] = True
                    p = p.parent
                name = f[0].astext()
                obs['in'].append([name, [ser(c) for c in f[1].children]])
                tag = name.split(None, 1)
                if tag:
                    obs['lowers'].append([tag[0], tag[0].lower()])
            self._n_before = len(errors)

    try:
        R._SplitFieldsTranslator = Recording
        errs = []
        parsed = R.parse_docstring(docstring, errs)
    except Exception as e:  # noqa
        obs['exc'] = '%s: %s\n%s' % (type(e).__name__, e, traceback.format_exc()[-600:])
        return obs
    finally:
        R._SplitFieldsTranslator = real
    for f in parsed.fields:
        body = f.body()
        if isinstance(body, ParsedPlaintextDocstring):
            obs['out'].append([f.tag(), f.arg(), [[0, body._text]], True])
        else:
            obs['out'].append([f.tag(), f.arg(), [ser(c) for c in body.to_node().children], False])
    for e in errs:
        d = e.descr()
        if not d.startswith('Unable to split consolidated field'):
            continue
        for rx, code in ERRS:
            m = re.search(rx, d)
            if m:
                obs['errors'].append([code, int(m.group(1)) if m.groups() else 0])
                break
        else:
            obs['errors'].append([-1, 0])
    return obs


if __name__ == '__main__':
    cases = json.load(sys.stdin)
    json.dump([run_case(c) for c in cases], sys.stdout)
