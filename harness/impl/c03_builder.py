"""Adapter 1 of C03: builds generated packages with the REAL pydoctor (model.System + systemBuilder.addModule on a
scratch directory) and dumps what is documented in every module / class namespace.

stdin : JSON list of cases {"pkg": name, "files": {relpath: source}}
stdout: JSON list of {"modules": {fullname: MOD}} or {"error": "..."}
  MOD   = {"doc": str|None, "c": [ENTRY...], "old": [[basename, tag]...]}
  ENTRY = {"n": key, "t": "F"|"C"|"A", "k": kind name, "async": bool|None, "doc": str|None, "ann": str|None,
           "ok": bool (key == obj.name and system.allobjects[obj.fullName()] is obj),
           "c": [...], "old": [...] (classes only)}
Module objects inside a package's contents are skipped (sub-modules are not definitions)."""
import ast
import json
import shutil
import sys
import tempfile
from pathlib import Path

from pydoctor import model


def ann_text(a):
    if a is None:
        return None
    try:
        return ast.unparse(a).strip()
    except Exception:
        import astor
        return astor.to_source(a).strip()


def dump_ns(system, o, children_of):
    out = []
    for key, c in o.contents.items():
        if isinstance(c, model.Module):
            continue
        t = 'F' if isinstance(c, model.Function) else 'C' if isinstance(c, model.Class) else 'A'
        e = {'n': key, 't': t, 'k': c.kind.name if c.kind is not None else None,
             'async': bool(getattr(c, 'is_async', False)) if t == 'F' else None,
             'doc': c.docstring, 'ann': ann_text(getattr(c, 'annotation', None)) if t == 'A' else None,
             'ok': key == c.name and system.allobjects.get(c.fullName()) is c}
        if t == 'C':
            e['c'], e['old'] = dump_ns(system, c, children_of), old_of(c, children_of)
        elif c.contents:
            e['c'] = dump_ns(system, c, children_of)        # something documented inside a function / attribute
        out.append(e)
    return out


def old_of(o, children_of):
    res = []
    for c in children_of.get(id(o), []):
        if ' ' in c.name:
            t = 0 if isinstance(c, model.Function) else 1 if isinstance(c, model.Class) else 2
            res.append([c.name.rsplit(' ', 1)[0], t])
    return res


def run_case(case):
    d = Path(tempfile.mkdtemp(prefix='verif_c03a_'))
    try:
        for rel, src in case['files'].items():
            p = d / rel
            p.parent.mkdir(parents=True, exist_ok=True)
            p.write_text(src, encoding='utf-8')
        system = model.System()
        system.options.verbosity = -10
        builder = system.systemBuilder(system)
        builder.addModule(d / case['pkg'])
        builder.buildModules()
        # every object ever registered, in registration order, grouped by parent (superseded ones keep their parent)
        children_of = {}
        seen = set()
        for o in list(system.allobjects.values()):
            if id(o) in seen:
                continue
            seen.add(id(o))
            if o.parent is not None:
                children_of.setdefault(id(o.parent), []).append(o)
        mods = {}
        for o in system.allobjects.values():
            if isinstance(o, model.Module):
                mods[o.fullName()] = {'doc': o.docstring, 'c': dump_ns(system, o, children_of), 'old': old_of(o, children_of)}
        return {'modules': mods}
    except Exception as e:  # noqa
        import traceback
        return {'error': '%s: %s\n%s' % (type(e).__name__, e, traceback.format_exc()[-1500:])}
    finally:
        shutil.rmtree(d, ignore_errors=True)


if __name__ == '__main__':
    cases = json.load(sys.stdin)
    real_stdout = sys.stdout
    sys.stdout = sys.stderr            # pydoctor may print
    res = [run_case(c) for c in cases]
    json.dump(res, real_stdout)
