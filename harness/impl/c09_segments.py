"""Runs the REAL pydoctor.epydoc.doctest colourisers on code / doctest bodies.

stdin : JSON list of cases {"fn": 0 (colorize_codeblock_body) | 1 (colorize_doctest_body), "s": text}
stdout: JSON list of observations
   {"status": 0 ok | 1 AssertionError | 2 other exception, "exc": str,
    "segs": [[style, text], ...]            what the generator yielded (style 0 = plain str, 1.. = css class)
    "tables": [[text, [[start, end, kind], ...]], ...]   DOCTEST_RE.finditer on every text the coloriser scans
    "exs": [[start, src_end, end], ...]     DOCTEST_EXAMPLE_RE.finditer(s)            (fn 1)
    "excepts": [want, ...]                  the want blocks EXCEPT_RE matches         (fn 1)
    "words": [...], "spaces": [...]         code points of s matching \\w / \\s
    "visible": text                         text content of flatten(colorize_codeblock(s) / colorize_doctest(s))}
The spans are recorded from the real compiled regexes, so the model is fed exactly what `re` returned."""
import html, json, re, sys
from twisted.web.template import Tag
from pydoctor.epydoc import doctest as D
from pydoctor.stanutils import flatten

KINDS = ['STRING', 'COMMENT', 'DEFINE', 'KEYWORD', 'BUILTIN', 'PROMPT1', 'PROMPT2', 'EOS']
STYLES = {'py-prompt': 1, 'py-more': 2, 'py-keyword': 3, 'py-builtin': 4, 'py-comment': 5, 'py-string': 6,
          'py-defname': 7, 'py-output': 8, 'py-except': 9}
WORD = re.compile(r'\w')
SPACE = re.compile(r'\s')
TAGS = re.compile(r'<[^>]*>')


def spans(text):
    out = []
    for m in D.DOCTEST_RE.finditer(text):
        ks = [i for i, k in enumerate(KINDS) if m.group(k) is not None]
        out.append([m.start(), m.end(), ks[0] if len(ks) == 1 else -1 - len(ks)])
    return out


def seg_of(item):
    if isinstance(item, str):
        return [0, item]
    if isinstance(item, Tag):
        cls = item.attributes.get('class')
        txt = ''.join(c if isinstance(c, str) else '\x00<non-str child>' for c in item.children)
        if item.tagName != 'span':
            return [-1, txt]
        return [STYLES.get(cls, -2), txt]
    return [-3, repr(item)]


def visible(stan):
    h = flatten(stan)
    return html.unescape(TAGS.sub('', h))


def run_case(case):
    fn, s = case['fn'], case['s']
    obs = {'status': 0, 'exc': '', 'segs': [], 'tables': [], 'exs': [], 'excepts': [], 'visible': None}
    obs['words'] = sorted({ord(c) for c in s if WORD.match(c)})
    obs['spaces'] = sorted({ord(c) for c in s if SPACE.match(c)})
    try:
        if fn == 0:
            obs['tables'] = [[s, spans(s)]]
            gen = D.colorize_codeblock_body(s)
        else:
            seen = {}
            for m in D.DOCTEST_EXAMPLE_RE.finditer(s):
                obs['exs'].append([m.start(), m.end('source'), m.end()])
                src, want = m.group('source', 'want')
                if src not in seen:
                    seen[src] = spans(src)
                if want and D.EXCEPT_RE.match(want) and want not in obs['excepts']:
                    obs['excepts'].append(want)
            obs['tables'] = [[k, v] for k, v in seen.items()]
            gen = D.colorize_doctest_body(s)
        for item in gen:
            obs['segs'].append(seg_of(item))
    except AssertionError as e:
        obs['status'] = 1
        obs['exc'] = 'AssertionError: %s' % e
    except Exception as e:  # noqa
        obs['status'] = 2
        obs['exc'] = '%s: %s' % (type(e).__name__, e)
    try:
        obs['visible'] = visible(D.colorize_codeblock(s) if fn == 0 else D.colorize_doctest(s))
    except Exception as e:  # noqa
        obs['visible'] = None
        obs['visible_exc'] = '%s: %s' % (type(e).__name__, e)
    return obs


if __name__ == '__main__':
    cases = json.load(sys.stdin)
    json.dump([run_case(c) for c in cases], sys.stdout)
