"""C18 worker: the byte-for-byte differential.
stdin  {"cases": [case...], "seeds": [s...], "jobs": J, "keep": false}
  case = {"files": {relpath: text}, "dirs": [relpath...], "roots": [relpath...], "args": [...], "time": "epoch"|"buildtime",
          "templates": {relpath: text} (optional custom --template-dir)}
For every case the project is written to ONE scratch location (recreated before each run with the directory entries
created in a different order), and `python c18_wrapper.py <shuffle> <args> --html-output <out>` is run in a SEPARATE
PROCESS per seed (PYTHONHASHSEED=seed, listing shuffle=seed, seed of the first run: listings untouched) into a fresh
output directory each; then once more into the first run's output directory (REUSED) with the second seed.
Oracle: all output trees are byte-identical (symlinks compared by target).
stdout: list of {"equal": bool, "rc": [...], "diff": {...first differing file, byte offset...}, "observed": {...}}."""
import hashlib, json, os, random, shutil, subprocess, sys, tempfile, time
from concurrent.futures import ThreadPoolExecutor
from pathlib import Path

HERE = Path(__file__).resolve().parent
WRAPPER = str(HERE / 'c18_wrapper.py')
EPOCH = '1234567890'
BUILDTIME = '2009-02-13 23:31:30'


REPO = Path(os.environ.get('PYTHONPATH', '/repo').split(':')[0])


def materialise(base: Path, case: dict, order_seed: int) -> None:
    if 'external' in case:
        base.mkdir(parents=True, exist_ok=True)
        return
    if base.exists():
        shutil.rmtree(base)
    base.mkdir(parents=True)
    items = [('d', d, None) for d in case.get('dirs', [])] + [('f', f, t) for f, t in case['files'].items()]
    items += [('f', 'templates_dir/' + f, t) for f, t in case.get('templates', {}).items()]
    rng = random.Random(order_seed)
    items.sort(key=lambda x: x[1])
    if order_seed:
        rng.shuffle(items)
    for kind, rel, text in items:
        p = base / rel
        if kind == 'd':
            p.mkdir(parents=True, exist_ok=True)
        else:
            p.parent.mkdir(parents=True, exist_ok=True)
            p.write_text(text, encoding='utf-8')


def tree(out: Path) -> dict:
    res = {}
    for dirpath, dirnames, filenames in os.walk(out, followlinks=False):
        for n in sorted(dirnames + filenames):
            p = Path(dirpath) / n
            rel = p.relative_to(out).as_posix()
            if p.is_symlink():
                res[rel] = ['l', os.readlink(p)]
            elif p.is_dir():
                res[rel] = ['d', '']
            else:
                res[rel] = ['f', hashlib.sha256(p.read_bytes()).hexdigest()]
    return res


def first_diff(a: Path, b: Path, ta: dict, tb: dict) -> dict:
    for rel in sorted(set(ta) | set(tb)):
        if rel not in ta or rel not in tb:
            return {'file': rel, 'what': 'present only in %s' % ('second' if rel not in ta else 'first')}
        if ta[rel] != tb[rel]:
            if ta[rel][0] != tb[rel][0] or ta[rel][0] == 'l':
                return {'file': rel, 'what': 'entry kind/target differs', 'first': ta[rel], 'second': tb[rel]}
            da, db = (a / rel).read_bytes(), (b / rel).read_bytes()
            off = next((i for i, (x, y) in enumerate(zip(da, db)) if x != y), min(len(da), len(db)))
            return {'file': rel, 'offset': off, 'what': 'content differs',
                    'first': da[max(0, off - 40):off + 60].decode('utf-8', 'replace'),
                    'second': db[max(0, off - 40):off + 60].decode('utf-8', 'replace')}
    return {}


def run_once(base: Path, case: dict, out: Path, seed: int, shuffle: int) -> tuple:
    env = dict(os.environ)
    env['PYTHONHASHSEED'] = str(seed)
    env.pop('SOURCE_DATE_EPOCH', None)
    for k in ('http_proxy', 'HTTP_PROXY', 'https_proxy', 'HTTPS_PROXY', 'all_proxy', 'ALL_PROXY'):
        env.pop(k, None)
    env['NO_PROXY'] = env['no_proxy'] = '127.0.0.1,localhost'
    args = [a.replace('{SRC}', str(base)) for a in case['args']]
    t = case.get('time', 'epoch')
    if t.startswith('epoch'):
        env['SOURCE_DATE_EPOCH'] = t.split(':', 1)[1] if ':' in t else EPOCH
    else:
        args.append('--buildtime=' + BUILDTIME)
    if case.get('templates'):
        args.append('--template-dir=' + str(base / 'templates_dir'))
    cmd = [sys.executable, WRAPPER, str(shuffle)] + args + ['--html-output=' + str(out)] + \
          ([str(REPO / case['external'])] if 'external' in case else [str(base / r) for r in case['roots']])
    try:
        pr = subprocess.run(cmd, stdout=subprocess.PIPE, stderr=subprocess.STDOUT, timeout=600, env=env, cwd=str(base))
        return pr.returncode, pr.stdout.decode('utf-8', 'replace')
    except subprocess.TimeoutExpired:
        return 124, 'timeout'


def observe(out: Path, t: dict, case: dict = {}) -> dict:
    obs = {'symlinks': {k: v[1] for k, v in t.items() if v[0] == 'l'}, 'files': len(t),
           'has_index_page': None, 'project': None}
    import re
    page = out / 'moduleIndex.html'
    obs['buildtime'] = None
    if page.exists():
        m = re.search(r' at (\d{4}-\d\d-\d\d \d\d:\d\d:\d\d)', page.read_text(encoding='utf-8', errors='replace'))
        obs['buildtime'] = m.group(1) if m else None
    if case.get('inventories'):
        obs['ext_links'] = sum(p.read_text(encoding='utf-8', errors='replace').count('http://127.0.0.1')
                               for p in out.glob('*.html') if not p.is_symlink())
    inv = out / 'objects.inv'
    if inv.exists():
        for line in inv.read_bytes().split(b'\n')[:4]:
            if line.startswith(b'# Project: '):
                obs['project'] = line[len(b'# Project: '):].decode('utf-8', 'replace')
    return obs


def make_inventory(project: str, lines: list) -> bytes:
    import zlib
    header = ('# Sphinx inventory version 2\n# Project: %s\n# Version: 1.0\n'
              '# The rest of this file is compressed with zlib.\n' % project).encode()
    return header + zlib.compress(''.join(l + '\n' for l in lines).encode())


def serve_inventories(case: dict):
    """a local HTTP server (127.0.0.1, ephemeral port) for the case's intersphinx inventories; ONE server for all runs
    of the case so that the URLs (which end up in the pages) are the same in every run"""
    import http.server, threading
    data = {path: make_inventory(proj, lines) for path, (proj, lines) in case['inventories'].items()}

    class Handler(http.server.BaseHTTPRequestHandler):
        def do_GET(self):
            body = data.get(self.path)
            if body is None:
                self.send_error(404)
                return
            self.send_response(200)
            self.send_header('Content-Type', 'application/octet-stream')
            self.send_header('Content-Length', str(len(body)))
            self.end_headers()
            self.wfile.write(body)

        def log_message(self, *a):
            pass
    server = http.server.ThreadingHTTPServer(('127.0.0.1', 0), Handler)
    threading.Thread(target=server.serve_forever, daemon=True).start()
    return server, 'http://127.0.0.1:%d' % server.server_address[1]


def run_case(arg) -> dict:
    case, seeds, keep = arg
    seeds = case.get('seeds', seeds)          # a case may ask for more hash seeds than the batch
    d = Path(tempfile.mkdtemp(prefix='verif_c18_'))
    server = None
    if case.get('inventories'):
        server, base_url = serve_inventories(case)
        case = dict(case, args=[a.replace('{INV}', base_url) for a in case['args']])
    try:
        src = d / 'src'
        outs, trees, rcs, logs = [], [], [], []
        for i, s in enumerate(seeds):
            materialise(src, case, 0 if i == 0 else s + 1)
            if i == 1 and case.get('gap'):
                time.sleep(case['gap'])          # so that a build time taken from the clock cannot coincide
            out = d / ('out%d' % i)
            rc, log = run_once(src, case, out, s, -1 if i == 0 else s)
            outs.append(out); rcs.append(rc); logs.append(log[-1500:])
            trees.append(tree(out) if out.exists() else {})
        res = {'equal': True, 'rc': rcs, 'runs': len(seeds) + 1, 'observed': observe(outs[0], trees[0], case)}
        if any(rc not in (0, 2, 3) for rc in rcs):
            res['crash'] = logs[[rc not in (0, 2, 3) for rc in rcs].index(True)]
        for i in range(1, len(seeds)):
            if trees[i] != trees[0] or rcs[i] != rcs[0]:
                res['equal'] = False
                res['diff'] = dict(first_diff(outs[0], outs[i], trees[0], trees[i]), mode='fresh',
                                   first_run={'hashseed': seeds[0], 'shuffle': -1},
                                   second_run={'hashseed': seeds[i], 'shuffle': seeds[i]}, rc=[rcs[0], rcs[i]])
                break
        # reused output directory: run again over a copy of the first result
        if res['equal'] and trees[0]:
            reused = d / 'reused'
            shutil.copytree(outs[0], reused, symlinks=True)
            s = seeds[1] if len(seeds) > 1 else seeds[0]
            materialise(src, case, s + 101)
            rc, log = run_once(src, case, reused, s, s)
            t2 = tree(reused)
            if t2 != trees[0] or rc != rcs[0]:
                res['equal'] = False
                res['diff'] = dict(first_diff(outs[0], reused, trees[0], t2), mode='reused',
                                   first_run={'hashseed': seeds[0], 'shuffle': -1, 'outdir': 'fresh'},
                                   second_run={'hashseed': s, 'shuffle': s, 'outdir': 'holds the result of the first run'},
                                   rc=[rcs[0], rc])
        return res
    finally:
        if server is not None:
            server.shutdown()
            server.server_close()
        if not keep:
            shutil.rmtree(d, ignore_errors=True)


def run_history(case: dict) -> dict:
    """a HISTORY of two different commands into the same output directory:
       run 1 = case['first'] (roots, args) into D; run 2 = the case's own roots/args into D again and into a fresh F.
       Observation: every entry of F (what run 2 produces) compared with the same name in D; what only D holds is a
       leftover of run 1 (pydoctor never cleans the output directory) and is reported separately."""
    d = Path(tempfile.mkdtemp(prefix='verif_c18h_'))
    try:
        src = d / 'src'
        materialise(src, case, 0)
        first = dict(case, roots=case['first']['roots'], args=case['first']['args'])
        D, F = d / 'D', d / 'F'
        rc1, _ = run_once(src, first, D, 0, -1)
        prev = tree(D) if D.exists() else {}
        rc2, log2 = run_once(src, case, D, 0, -1)
        rc3, _ = run_once(src, case, F, 0, -1)
        tD, tF = tree(D), tree(F)
        res = {'equal': True, 'rc': [rc1, rc2, rc3], 'runs': 3,
               'leftovers': sorted(k for k in tD if k not in tF),
               'prev_symlinks': {k: v[1] for k, v in prev.items() if v[0] == 'l'}}
        if rc2 not in (0, 2, 3):
            res['crash'] = log2[-1500:]
        sub = {k: tD.get(k) for k in tF}
        if sub != tF or rc2 != rc3:
            res['equal'] = False
            res['diff'] = dict(first_diff(F, D, tF, {k: v for k, v in tD.items() if k in tF}), mode='history',
                               first_run='fresh directory', second_run='directory that held the result of run 1', rc=[rc3, rc2])
        return res
    finally:
        shutil.rmtree(d, ignore_errors=True)


def main() -> None:
    req = json.load(sys.stdin)
    if req.get('mode') == 'history':
        with ThreadPoolExecutor(max_workers=req.get('jobs', 4)) as ex:
            json.dump(list(ex.map(run_history, req['cases'])), sys.stdout)
        return
    cases = req['cases']
    seeds = req.get('seeds', [0, 1, 2])
    with ThreadPoolExecutor(max_workers=req.get('jobs', 8)) as ex:
        out = list(ex.map(run_case, [(c, seeds, req.get('keep', False)) for c in cases]))
    json.dump(out, sys.stdout)


main()
