"""C18 worker: in-process observations of the REAL pydoctor code that Model/Determinism.v mirrors.
stdin: list of cases {"kind": ...}; stdout: list of observations.
  fs       {"roots": [[pid, node]...]}   node = [0, name] | [1, name, child...] in LISTING order.
           The tree is created in a scratch directory, Path.iterdir is wrapped to return the entries of each directory
           in exactly the given order, System.analyzeModule is wrapped to record its calls, and
           SystemBuilder.addModule is called for each root in order (no processing).
           -> {"events": [[parentpath, name, is_pkg]|[-1]], "unproc": [[path, is_pkg]], "roots": [names], "rootkinds": [values]}
  sort     {"modules": {name: source}, "order": ...}: builds the system from text and, for every module / class, returns the
           attributes the sort keys read and the order the real key functions produce
  roots    {"roots": [file names], "project_name": str|None, "probe": name}: driver.get_system on scratch modules
  counters {"files": {...}, "roots": [...]}: two complete driver.main runs in THIS process; ids handed out
  ops      {"files": {...}, "roots": [...], "prev": "none"|"same"|"stale"}: one driver.main run with the file operations on
           the output directory recorded"""
import builtins, hashlib, io, json, os, pathlib, shutil, sys, tempfile
from pathlib import Path


def quiet():
    sys.stdout = io.StringIO()


def build_tree(base: Path, node, listing: dict) -> None:
    if node[0] == 0:
        (base / node[1]).write_text('"""doc"""\n')
        return
    d = base / node[1]
    d.mkdir()
    listing[str(d)] = [c[1] for c in node[2:]]
    for c in node[2:]:
        build_tree(d, c, listing)


def path_of(o) -> list:
    out = []
    while o is not None:
        out.insert(0, o.name)
        o = o.parent
    return out


def do_fs(case) -> dict:
    from pydoctor import model
    d = Path(tempfile.mkdtemp(prefix='verif_c18fs_'))
    listing: dict = {}
    orig_iterdir = pathlib.Path.iterdir
    orig_analyze = model.System.analyzeModule
    events = []
    try:
        roots = []
        seen = {}
        for pid, node in case['roots']:
            if pid not in seen:
                rd = d / ('r%d' % pid)
                rd.mkdir()
                build_tree(rd, node, listing)
                seen[pid] = rd / node[1]
            roots.append(seen[pid])

        def iterdir(self):
            key = str(self)
            if key in listing:
                real = {p.name for p in orig_iterdir(self)}
                assert real == set(listing[key]), (real, listing[key])
                return iter([self / n for n in listing[key]])
            return orig_iterdir(self)
        pathlib.Path.iterdir = iterdir

        def analyze(self, modpath, modname, parentPackage=None, is_package=False):
            parent = path_of(parentPackage)
            events.append([parent, modname, 1 if is_package else 0])
            return orig_analyze(self, modpath, modname, parentPackage, is_package)
        model.System.analyzeModule = analyze
        system = model.System()
        builder = system.systemBuilder(system)
        try:
            for r in roots:
                builder.addModule(r)
        except model.SystemBuildingError:
            events.append([-1])
        except Exception as e:              # a crash of pydoctor itself (C01 territory): reported as a mismatch
            events.append([-3, type(e).__name__])
        return {'events': events,
                'unproc': [[path_of(m), 1 if isinstance(m, model.Package) else 0]
                           for m in system.unprocessed_modules],
                'roots': [o.name for o in system.rootobjects],
                'rootkinds': [o.kind.value for o in system.rootobjects]}
    finally:
        pathlib.Path.iterdir = orig_iterdir
        model.System.analyzeModule = orig_analyze
        shutil.rmtree(d, ignore_errors=True)


def do_templates(case) -> dict:
    from pydoctor.templatewriter import TemplateLookup, StaticTemplate
    d = Path(tempfile.mkdtemp(prefix='verif_c18tpl_'))
    orig_iterdir = pathlib.Path.iterdir
    listing = {}
    try:
        for sub, key in (('base', 'base'), ('custom', 'files')):
            (d / sub).mkdir()
            for name, content in case[key]:
                (d / sub / name).write_text(str(content))
            listing[str(d / sub)] = [n for n, _ in case[key]]

        def iterdir(self):
            k = str(self)
            if k in listing:
                assert {p.name for p in orig_iterdir(self)} == set(listing[k])
                return iter([self / n for n in listing[k]])
            return orig_iterdir(self)
        pathlib.Path.iterdir = iterdir
        try:
            lookup = TemplateLookup(d / 'base')
            lookup.add_templatedir(d / 'custom')
        except Exception as e:
            return {'error': type(e).__name__}
        return {'templates': [[t.name, int(t.data.decode())] for t in lookup.templates if isinstance(t, StaticTemplate)]}
    finally:
        pathlib.Path.iterdir = orig_iterdir
        shutil.rmtree(d, ignore_errors=True)


def attrs_of(o) -> list:
    from pydoctor import model
    return [o.privacyClass.value, o.kind.value if o.kind else 0, o.fullName(), o.linenumber or 0,
            1 if isinstance(o, model.Module) else 0]


def do_sort(case) -> dict:
    from pydoctor import model
    from pydoctor.templatewriter import util, summary
    system = model.System()
    system.options.privacy = [(model.PrivacyClass[k], v) for k, v in case.get('privacy', [])]
    builder = system.systemBuilder(system)
    for name, src in case['modules'].items():
        parent = name.rsplit('.', 1)[0] if '.' in name else None
        builder.addModuleString(src, name.rsplit('.', 1)[-1], parent_name=parent, is_package=name in case.get('packages', []))
    builder.buildModules()
    out = []
    for ob in list(system.allobjects.values()):
        if isinstance(ob, (model.Module, model.Class)) and ob.contents:
            kids = list(ob.contents.values())
            for which, fn in ((0, util.objects_order('alphabetical')), (1, util.objects_order('source'))):
                got = sorted(range(len(kids)), key=lambda i: fn(kids[i]))
                out.append({'which': which, 'objs': [attrs_of(k) for k in kids], 'order': got, 'of': ob.fullName()})
    classes = list(system.objectsOfType(model.Class))
    if classes:
        got = sorted(range(len(classes)), key=lambda i: summary._lckey(classes[i]))
        out.append({'which': 2, 'objs': [attrs_of(k) for k in classes], 'order': got, 'of': '<all classes>'})
        # what the pages do with a class's subclasses (a list in post-processing order)
        for c in classes:
            if len(c.subclasses) > 1:
                got = sorted(range(len(c.subclasses)), key=lambda i: summary._lckey(c.subclasses[i]))
                out.append({'which': 2, 'objs': [attrs_of(k) for k in c.subclasses], 'order': got, 'of': c.fullName() + ' subclasses'})
    return {'sorts': out}


def do_roots(case) -> dict:
    from pydoctor import model, driver
    from pydoctor.options import Options
    from pydoctor.templatewriter import summary, TemplateLookup
    from twisted.web.template import tags
    import importlib.resources as ir
    d = Path(tempfile.mkdtemp(prefix='verif_c18roots_'))
    try:
        paths = []
        for i, r in enumerate(case['roots']):
            sub = d / ('d%d' % (i if case.get('distinct_dirs', True) else 0))
            sub.mkdir(exist_ok=True)
            if r.endswith('/'):
                p = sub / r[:-1]
                p.mkdir(exist_ok=True)
                (p / '__init__.py').write_text('"""pkg"""\n')
            else:
                p = sub / (r + '.py')
                p.write_text('"""mod"""\nclass K: pass\n')
            paths.append(str(p))
        args = ['-q', '--html-output=' + str(d / 'out')] + paths
        if case.get('project_name') is not None:
            args.insert(0, '--project-name=' + case['project_name'])
        quiet()
        options = Options.from_args(args)
        system = driver.get_system(options)
        names = [o.name for o in system.rootobjects]
        lookup = TemplateLookup(ir.files('pydoctor.themes') / 'base')
        pages = [p.__name__ for p in summary.summaryPages(system)]
        rk = summary.IndexPage(system=system, template_lookup=lookup).rootkind(None, tags.span())
        rk_text = ''.join(str(c) for c in rk.children)
        probe = case.get('probe', '')
        return {'project': system.projectname, 'roots': names, 'rootkinds': [o.kind.value for o in system.rootobjects],
                'url_is_index': [1 if o.url == 'index.html' else 0 for o in system.rootobjects],
                'has_index_page': 1 if 'IndexPage' in pages else 0,
                'is_root': 1 if probe in system.root_names else 0,
                'rootkind_text': rk_text}
    finally:
        sys.stdout = sys.__stdout__
        shutil.rmtree(d, ignore_errors=True)


def write_project(d: Path, case) -> list:
    for rel, text in case['files'].items():
        p = d / 'src' / rel
        p.parent.mkdir(parents=True, exist_ok=True)
        p.write_text(text)
    return [str(d / 'src' / r) for r in case['roots']]


def do_counters(case) -> dict:
    from pydoctor import driver
    from pydoctor.templatewriter.pages import table, sidebar
    d = Path(tempfile.mkdtemp(prefix='verif_c18cnt_'))
    logs = {'table': [], 'side': []}
    o1, o2 = table.ChildTable.__init__, sidebar.ExpandableItem.__init__
    try:
        paths = write_project(d, case)

        def t_init(self, *a, **k):
            o1(self, *a, **k)
            logs['table'].append(self._id)

        def s_init(self, *a, **k):
            o2(self, *a, **k)
            logs['side'].append(self._id)
        table.ChildTable.__init__ = t_init
        sidebar.ExpandableItem.__init__ = s_init
        start = [table.ChildTable.last_id, sidebar.ExpandableItem.last_ExpandableItem_id]
        quiet()
        runs = []
        for k in range(2):
            logs['table'].clear(); logs['side'].clear()
            os.environ['SOURCE_DATE_EPOCH'] = '1234567890'
            rc = driver.main(['-q', '--project-name=p', '--html-output=' + str(d / ('out%d' % k))] + paths)
            runs.append({'table': list(logs['table']), 'side': list(logs['side']), 'rc': rc})
        same_pages = all((d / 'out0' / f).read_bytes() == (d / 'out1' / f).read_bytes()
                         for f in os.listdir(d / 'out0') if f.endswith('.html') and not (d / 'out0' / f).is_symlink())
        return {'start': start, 'runs': runs, 'second_run_pages_equal': same_pages}
    finally:
        sys.stdout = sys.__stdout__
        table.ChildTable.__init__, sidebar.ExpandableItem.__init__ = o1, o2
        shutil.rmtree(d, ignore_errors=True)


def snapshot(out: Path) -> list:
    res = []
    for dirpath, dirnames, filenames in os.walk(out, followlinks=False):
        for n in sorted(dirnames + filenames):
            p = Path(dirpath) / n
            rel = p.relative_to(out).as_posix()
            if p.is_symlink():
                res.append([rel, 1, os.readlink(p)])
            elif p.is_file():
                res.append([rel, 0, hashlib.sha256(p.read_bytes()).hexdigest()])
    return res


def do_ops(case) -> dict:
    from pydoctor import driver
    d = Path(tempfile.mkdtemp(prefix='verif_c18ops_'))
    out = d / 'out'
    ops = []
    modes = {}
    o_open, o_unlink, o_symlink, b_open = pathlib.Path.open, pathlib.Path.unlink, pathlib.Path.symlink_to, builtins.open
    o_islink = pathlib.Path.is_symlink
    try:
        paths = write_project(d, case)
        args = ['-q', '--html-output=' + str(out)] + list(case.get('args', [])) + paths
        os.environ['SOURCE_DATE_EPOCH'] = '1234567890'
        quiet()
        if case.get('prev') in ('same', 'stale', 'symlink', 'pagelink'):
            # the previous run is a SEPARATE process (the class-level counters make a second in-process run differ)
            import subprocess
            subprocess.run([sys.executable, '-m', 'pydoctor'] + args, stdout=subprocess.DEVNULL, stderr=subprocess.DEVNULL,
                           env=dict(os.environ), timeout=600)
            if case['prev'] == 'stale':
                (out / 'stale.module.html').write_text('left over from an older run')
            if case['prev'] == 'symlink':
                (out / 'nameIndex.html').unlink()
                (out / 'nameIndex.html').symlink_to('elsewhere.html')
            if case['prev'] == 'pagelink':        # what a single-root run of another project leaves: <page>.html -> index.html
                victim = sorted(p.name for p in out.glob('*.*.html'))[0]
                (out / victim).unlink()
                (out / victim).symlink_to('index.html')
        prev = snapshot(out) if out.exists() else []

        def rel(p):
            try:
                return Path(os.path.abspath(str(p))).relative_to(out).as_posix()
            except ValueError:
                return None

        def note_open(p, mode):
            r = rel(p)
            if r is not None and any(c in mode for c in 'wax+'):
                ops.append([0, r])
                modes[mode] = modes.get(mode, 0) + 1

        def p_open(self, mode='r', *a, **k):
            note_open(self, mode)
            return o_open(self, mode, *a, **k)

        def bi_open(file, mode='r', *a, **k):
            if isinstance(file, (str, os.PathLike)):
                note_open(file, mode)
            return b_open(file, mode, *a, **k)

        def p_unlink(self, *a, **k):
            r = rel(self)
            try:
                res = o_unlink(self, *a, **k)
            except FileNotFoundError:
                if r is not None:
                    ops.append([2, r, 'missing'])
                raise
            if r is not None:
                ops.append([2, r, 'removed'])
            return res

        def p_islink(self):
            r = rel(self)
            if r is not None:
                ops.append([3, r])                 # the code asks whether a link sits there (before writing a page)
            return o_islink(self)

        def p_symlink(self, target, *a, **k):
            r = rel(self)
            if r is not None:
                ops.append([1, r, str(target)])
            return o_symlink(self, target, *a, **k)
        pathlib.Path.open, pathlib.Path.unlink, pathlib.Path.symlink_to, builtins.open = p_open, p_unlink, p_symlink, bi_open
        pathlib.Path.is_symlink = p_islink
        rc = driver.main(args)
        pathlib.Path.open, pathlib.Path.unlink, pathlib.Path.symlink_to, builtins.open = o_open, o_unlink, o_symlink, b_open
        pathlib.Path.is_symlink = o_islink
        final = snapshot(out)
        return {'rc': rc, 'ops': ops, 'modes': modes, 'prev': prev, 'final': final}
    finally:
        pathlib.Path.open, pathlib.Path.unlink, pathlib.Path.symlink_to, builtins.open = o_open, o_unlink, o_symlink, b_open
        pathlib.Path.is_symlink = o_islink
        sys.stdout = sys.__stdout__
        shutil.rmtree(d, ignore_errors=True)


def main() -> None:
    cases = json.load(sys.stdin)
    real_stdout = sys.stdout
    out = []
    for c in cases:
        quiet()
        fn = {'fs': do_fs, 'templates': do_templates, 'sort': do_sort, 'roots': do_roots, 'counters': do_counters, 'ops': do_ops}[c['kind']]
        try:
            out.append(fn(c))
        except SystemExit as e:
            sys.stdout = real_stdout
            out.append({'exit': str(e.code)})
        finally:
            sys.stdout = real_stdout
    json.dump(out, real_stdout)


main()
