"""C15 worker: runs the REAL pydoctor value colouriser on encoded expressions.

stdin : JSON list of cases [[expr, linelen, maxlines, linebreakok, ctx], ...]   (linelen -1 = colorize_inline_pyval)
        or a JSON list of strings "d<text>" / "t<text>": the text is parsed with CPython's own reader; answer: normalised
        ast.dump ("d") or the tree in the wire encoding ("t", spec validation), null when CPython rejects the text
stdout: JSON list, one observation per case.

Expression encoding (nested JSON lists, the same shape the Coq model reads):
  [0, kind, payload]  constant   kind 0 number (payload: literal source text), 1 str (code points), 2 bytes (byte values),
                                 3 None, 4 True, 5 False, 6 Ellipsis
  [1, name]  [2, e, attr]  [3, uop, e]  [4, bop, l, r]  [5, boolop, [e..]]
  [6, [e..]] tuple  [7, [e..]] list  [8, [e..]] set  [9, [[k|None, v]..]] dict
  [10, value, slice]  [11, func, [args], [[name|None, v]..]]  [12, e] starred
  [13, gkind, ...]   forms pydoctor hands to astor (built here, rendered by the real code):
       0 Compare [ops] left [comparators] | 1 IfExp t b o | 2 Lambda [argnames] body | 3 Slice lo hi step (None = absent)
       4 Await e | 5 Yield e|None | 6 NamedExpr name e | 7 ListComp elt target iter [ifs] | 8 GeneratorExp (same)
       9 JoinedStr [str-or-expr..] | 10 SetComp | 11 DictComp k v target iter | 12 YieldFrom e
ctx (how the displayed node sits in a tree that already has .parent links, as in a real pydoctor run):
  0 fresh node (no .parent at all: unit-test style call)      1 value of `x = <e>` in a module processed by Parentage
  2 value of keyword `f(k=<e>)` of a parented tree             3 right operand of `x - <e>`    4 operand of `-<e>`
  5 value of `x and <e>`                                       6 default value in `def f(a=<e>): pass` (parent: ast.arguments)
Observation: {"nodes": [[kind, text]..], "complete": bool, "text": gettext-joined, "warnings": n, "mexpr": the expression as
  the Coq model reads it (delegated forms replaced by astor's text), "canon": bool (source tree is one CPython's parser can produce), "dump": ast.dump of the
  normalised source tree, "lw_mutated": bool}
node kinds: 0 Text, 1 quote inline, 2 string inline, 3 ellipsis-tagged inline (the `...` constant), 4 reference (link),
  5 wbr, 6 LINEWRAP marker, 7 ELLIPSIS marker, 8 UNKNOWN marker, 9 other inline
"""
import ast
import json
import sys
import warnings

warnings.simplefilter('ignore')

UOPS = [ast.USub, ast.UAdd, ast.Not, ast.Invert]
BOPS = [ast.Sub, ast.Add, ast.Mult, ast.Div, ast.FloorDiv, ast.Mod, ast.Pow, ast.LShift, ast.RShift, ast.BitOr,
        ast.BitXor, ast.BitAnd, ast.MatMult]
BOOLOPS = [ast.And, ast.Or]
CMPOPS = [ast.Eq, ast.NotEq, ast.Lt, ast.LtE, ast.Gt, ast.GtE, ast.Is, ast.IsNot, ast.In, ast.NotIn]


def const_value(kind, payload):
    if kind == 0:
        v = ast.parse(payload, mode='eval').body
        if not isinstance(v, ast.Constant):
            raise ValueError('number literal expected: %r' % (payload,))
        return v.value
    if kind == 1:
        return ''.join(chr(c) for c in payload)
    if kind == 2:
        return bytes(payload)
    return {3: None, 4: True, 5: False, 6: Ellipsis}[kind]


def build(x):
    t = x[0]
    if t == 0:
        return ast.Constant(value=const_value(x[1], x[2] if len(x) > 2 else None))
    if t == 1:
        return ast.Name(id=x[1], ctx=ast.Load())
    if t == 2:
        return ast.Attribute(value=build(x[1]), attr=x[2], ctx=ast.Load())
    if t == 3:
        return ast.UnaryOp(op=UOPS[x[1]](), operand=build(x[2]))
    if t == 4:
        return ast.BinOp(left=build(x[2]), op=BOPS[x[1]](), right=build(x[3]))
    if t == 5:
        return ast.BoolOp(op=BOOLOPS[x[1]](), values=[build(v) for v in x[2]])
    if t == 6:
        return ast.Tuple(elts=[build(v) for v in x[1]], ctx=ast.Load())
    if t == 7:
        return ast.List(elts=[build(v) for v in x[1]], ctx=ast.Load())
    if t == 8:
        return ast.Set(elts=[build(v) for v in x[1]])
    if t == 9:
        return ast.Dict(keys=[None if k is None else build(k) for k, _ in x[1]], values=[build(v) for _, v in x[1]])
    if t == 10:
        return ast.Subscript(value=build(x[1]), slice=build(x[2]), ctx=ast.Load())
    if t == 11:
        return ast.Call(func=build(x[1]), args=[build(a) for a in x[2]],
                        keywords=[ast.keyword(arg=k, value=build(v)) for k, v in x[3]])
    if t == 12:
        return ast.Starred(value=build(x[1]), ctx=ast.Load())
    if t == 13:
        g = x[1]
        opt = lambda y: None if y is None else build(y)
        if g == 0:
            return ast.Compare(left=build(x[3]), ops=[CMPOPS[o]() for o in x[2]], comparators=[build(c) for c in x[4]])
        if g == 1:
            return ast.IfExp(test=build(x[2]), body=build(x[3]), orelse=build(x[4]))
        if g == 2:
            return ast.Lambda(args=ast.arguments(posonlyargs=[], args=[ast.arg(arg=a) for a in x[2]], vararg=None,
                                                 kwonlyargs=[], kw_defaults=[], kwarg=None, defaults=[]), body=build(x[3]))
        if g == 3:
            return ast.Slice(lower=opt(x[2]), upper=opt(x[3]), step=opt(x[4]))
        if g == 4:
            return ast.Await(value=build(x[2]))
        if g == 5:
            return ast.Yield(value=opt(x[2]))
        if g == 6:
            return ast.NamedExpr(target=ast.Name(id=x[2], ctx=ast.Store()), value=build(x[3]))
        if g in (7, 8, 10):
            cls = {7: ast.ListComp, 8: ast.GeneratorExp, 10: ast.SetComp}[g]
            return cls(elt=build(x[2]), generators=[ast.comprehension(target=store(build(x[3])), iter=build(x[4]),
                                                                       ifs=[build(i) for i in x[5]], is_async=0)])
        if g == 9:
            vals = []
            for p in x[2]:
                if isinstance(p, str):
                    vals.append(ast.Constant(value=p))
                else:
                    vals.append(ast.FormattedValue(value=build(p), conversion=-1, format_spec=None))
            return ast.JoinedStr(values=vals)
        if g == 11:
            return ast.DictComp(key=build(x[2]), value=build(x[3]),
                                generators=[ast.comprehension(target=store(build(x[4])), iter=build(x[5]), ifs=[], is_async=0)])
        if g == 12:
            return ast.YieldFrom(value=build(x[2]))
    raise ValueError('bad expression encoding: %r' % (x,))


def store(n):
    for m in ast.walk(n):
        if hasattr(m, 'ctx'):
            m.ctx = ast.Store()
    return n


class SetSpelling(ast.NodeTransformer):
    """The one documented structural spelling change: a set display is shown as set([...])."""
    def visit_Set(self, node):
        self.generic_visit(node)
        return ast.Call(func=ast.Name(id='set', ctx=ast.Load()), args=[ast.List(elts=node.elts, ctx=ast.Load())], keywords=[])


def norm_dump(tree):
    return ast.dump(SetSpelling().visit(tree))


def embed(node, ctx):
    """Puts the node to display into a tree that carries .parent links (or not)."""
    from pydoctor.astutils import Parentage
    if ctx == 0:
        return
    if ctx == 1:
        root = ast.Module(body=[ast.Assign(targets=[ast.Name(id='x', ctx=ast.Store())], value=node)], type_ignores=[])
    elif ctx == 2:
        root = ast.Module(body=[ast.Expr(value=ast.Call(func=ast.Name(id='f', ctx=ast.Load()), args=[],
                                                          keywords=[ast.keyword(arg='k', value=node)]))], type_ignores=[])
    elif ctx == 3:
        root = ast.Module(body=[ast.Expr(value=ast.BinOp(left=ast.Name(id='x', ctx=ast.Load()), op=ast.Sub(), right=node))],
                          type_ignores=[])
    elif ctx == 4:
        root = ast.Module(body=[ast.Expr(value=ast.UnaryOp(op=ast.USub(), operand=node))], type_ignores=[])
    elif ctx == 5:
        root = ast.Module(body=[ast.Expr(value=ast.BoolOp(op=ast.And(), values=[ast.Name(id='x', ctx=ast.Load()), node]))],
                          type_ignores=[])
    elif ctx == 6:
        root = ast.Module(body=[ast.FunctionDef(
            name='f', args=ast.arguments(posonlyargs=[], args=[ast.arg(arg='a')], vararg=None, kwonlyargs=[],
                                         kw_defaults=[], kwarg=None, defaults=[node]),
            body=[ast.Pass()], decorator_list=[], returns=None, type_params=[])], type_ignores=[])
    else:
        raise ValueError('ctx')
    ast.fix_missing_locations(root)
    Parentage().visit(root)


def astor_text(x):
    """What astor.to_source gives for this (sub)tree, on a fresh copy (astor leaves _pp attributes on what it prints)."""
    import astor
    t = build(x)
    ast.fix_missing_locations(t)
    return astor.to_source(t).strip()


def to_model(x):
    """The expression as the Coq model reads it: the forms pydoctor delegates to astor become (13 text) leaves and every
    Attribute node carries astor's text of itself (the model decides whether it is a dotted name)."""
    t = x[0]
    if t == 0 and x[1] == 0:
        return [0, 0, str(const_value(0, x[2]))]     # the oracle str(number)
    if t in (0, 1):
        return x
    if t == 13:
        return [13, astor_text(x)]
    if t == 2:
        return [2, to_model(x[1]), x[2], astor_text(x)]
    if t == 3:
        return [3, x[1], to_model(x[2])]
    if t == 4:
        return [4, x[1], to_model(x[2]), to_model(x[3])]
    if t == 5:
        return [5, x[1], [to_model(v) for v in x[2]]]
    if t in (6, 7, 8):
        return [t, [to_model(v) for v in x[1]]]
    if t == 9:
        return [9, [[None if k is None else to_model(k), to_model(v)] for k, v in x[1]]]
    if t == 10:
        return [10, to_model(x[1]), to_model(x[2])]
    if t == 11:
        return [11, to_model(x[1]), [to_model(a) for a in x[2]], [[k, to_model(v)] for k, v in x[3]]]
    if t == 12:
        return [12, to_model(x[1])]
    raise ValueError('bad expression encoding: %r' % (x,))


def is_re_compile_call(x):
    return x[0] == 11 and x[1] == [2, [1, 're'], 'compile']


def re_oracle(expr):
    """For a call to re.compile displayed on its own: what the regex colouriser (an oracle of the Coq model) does with the
    bound pattern: {"pieces": [[text, kind], ..]} = the _output calls of _colorize_re_pattern, {"raised": ..} = it raised
    ValueError / sre error, {} = not reached (arguments do not bind, pattern not a str/bytes constant, or multi-line)."""
    from pydoctor.epydoc.markup import _pyval_repr as R
    from pydoctor.epydoc import sre_constants36
    from pydoctor.astutils import bind_args
    node = build(expr)
    try:
        args = bind_args(R.PyvalColorizer.RE_COMPILE_SIGNATURE, node)
    except TypeError:
        return {}
    pn = args.arguments['pattern']
    if not isinstance(pn, ast.Constant) or not isinstance(pn.value, (str, bytes)):
        return {}
    pat = pn.value
    if (b'\n' if isinstance(pat, bytes) else '\n') in pat:
        return {}
    col = R.PyvalColorizer(linelen=None, maxlines=0, linebreakok=False)
    state = R._ColorizerState()
    state.linebreakok = False
    log = []
    orig = col._output

    def rec(s_, css_class, state_, link=False):
        t = R.decode_with_backslashreplace(s_) if isinstance(s_, bytes) else s_
        log.append([t, {None: 0, 'variable-quote': 1}.get(css_class, 9)])
        return orig(s_, css_class, state_, link)
    col._output = rec
    try:
        col._colorize_re_pattern_str(pat, state)
    except (ValueError, sre_constants36.error) as e:
        return {'raised': str(e)}
    return {'pieces': log}


def re_meaning(expr, text):
    """The property for a displayed re.compile call: same function, same regular expression (compared as parsed by the
    standard library), same flags argument, same ** unpackings; None = holds."""
    import inspect
    import re
    src = build(expr)
    try:
        shown = ast.parse(text, mode='eval').body
    except Exception:  # noqa
        return 'meaning: the displayed text %r is not a Python expression' % (text[:200],)
    if not isinstance(shown, ast.Call) or ast.dump(shown.func) != ast.dump(src.func):
        return 'meaning: the displayed text %r is not a call of the same function' % (text[:200],)
    sig = inspect.signature(re.compile)

    def bound(call):
        kw = {k.arg: k.value for k in call.keywords if k.arg is not None}
        try:
            return sig.bind(*call.args, **kw).arguments
        except TypeError:
            return None
    a, b = bound(src), bound(shown)
    stars = lambda call: [ast.dump(k.value) for k in call.keywords if k.arg is None]
    if a is None or b is None:
        return None if norm_dump(src) == norm_dump(shown) else 'meaning: the displayed text %r reads back as a different call' % (text[:200],)
    if stars(src) != stars(shown):
        return 'meaning: the displayed text %r lost a ** argument of the call' % (text[:200],)
    if ('flags' in a) != ('flags' in b) or ('flags' in a and norm_dump(a['flags']) != norm_dump(b['flags'])):
        return 'meaning: the displayed text %r has a different flags argument' % (text[:200],)
    pa, pb = a['pattern'], b['pattern']
    if isinstance(pa, ast.Constant) and isinstance(pb, ast.Constant) and isinstance(pa.value, (str, bytes)) \
            and type(pa.value) is type(pb.value):
        try:
            ta = re._parser.parse(pa.value)
        except Exception:  # noqa
            return None            # the source pattern is not a regular expression for this Python: nothing to compare
        try:
            tb = re._parser.parse(pb.value)
        except Exception:  # noqa
            return 'meaning: the displayed pattern %r is not a regular expression' % (text[:200],)
        U = re.UNICODE.value
        same = repr(ta) == repr(tb) and (ta.state.flags | U) == (tb.state.flags | U)
        return None if same else 'meaning: the displayed pattern %r is a different regular expression' % (text[:200],)
    return None if norm_dump(pa) == norm_dump(pb) else 'meaning: the displayed text %r has a different pattern argument' % (text[:200],)


def classify(n, C, nodes_mod, wbr_cls, ref_cls):
    if n is C.LINEWRAP:
        return [6, n.astext()]
    if n is C.ELLIPSIS:
        return [7, n.astext()]
    if n is C.UNKNOWN_REPR:
        return [8, n.astext()]
    if isinstance(n, wbr_cls):
        return [5, n.astext()]
    if isinstance(n, ref_cls):
        return [4, n.astext()]
    if isinstance(n, nodes_mod.inline):
        cl = n.get('classes', [])
        k = {'variable-quote': 1, 'variable-string': 2, 'variable-ellipsis': 3}.get(cl[0] if cl else '', 9)
        return [k, n.astext()]
    if isinstance(n, nodes_mod.Text):
        return [0, n.astext()]
    return [9, n.astext()]


def colorize_cases(cases):
    from docutils import nodes
    from pydoctor.epydoc.markup import _pyval_repr as R
    from pydoctor.epydoc.docutils import wbr, obj_reference
    from pydoctor.node2stan import gettext
    C = R.PyvalColorizer
    LW = chr(8629)
    out = []
    for expr, linelen, maxlines, lb, ctx in cases:
        try:
            tree = build(expr)
            ast.fix_missing_locations(tree)
        except Exception as e:  # noqa
            out.append({'error': 'build: %s: %s' % (type(e).__name__, e)})
            continue
        # is the tree one that CPython's parser can produce?  (the property speaks about source expressions)
        try:
            src = ast.unparse(tree)
            canon = ast.dump(ast.parse(src, mode='eval').body) == ast.dump(tree)
        except Exception:  # noqa
            canon = False
        dump = norm_dump(build(expr))
        try:
            mexpr = to_model(expr)
        except Exception as e:  # noqa
            out.append({'error': 'astor: %s: %s' % (type(e).__name__, e)})
            continue
        try:
            embed(tree, ctx)
            if linelen == -1:
                r = R.colorize_inline_pyval(tree)
            else:
                r = R.colorize_pyval(tree, linelen, maxlines, bool(lb))
            doc = r.to_node()
            obs = {'nodes': [classify(n, C, nodes, wbr, obj_reference) for n in doc.children],
                   'complete': bool(r.is_complete), 'text': ''.join(gettext(doc)), 'warnings': len(r.warnings)}
        except Exception as e:  # noqa
            obs = {'error': 'colorize: %s: %s' % (type(e).__name__, e)}
        obs['mexpr'] = mexpr
        if is_re_compile_call(expr):
            try:
                obs['re'] = re_oracle(expr)
            except Exception as e:  # noqa
                obs['re'] = {'error': '%s: %s' % (type(e).__name__, e)}
        obs['canon'] = canon
        obs['dump'] = dump
        # _trim_result may write into the shared class-level LINEWRAP node; detect and repair so later cases are unaffected
        if (linelen, maxlines, lb) == (0, 0, 0) and 'text' in obs:
            obs['toks'] = py_tokens(obs['text'])
        mutated = C.LINEWRAP.astext() != LW
        obs['lw_mutated'] = mutated
        if mutated:
            C.LINEWRAP = nodes.inline('', LW, classes=[C.LINEWRAP_TAG])
        out.append(obs)
    return out


def py_tokens(text):
    """CPython's tokenizer on the displayed text: the token strings (layout tokens dropped), or None."""
    import io
    import tokenize
    skip = (tokenize.NEWLINE, tokenize.NL, tokenize.ENDMARKER, tokenize.INDENT, tokenize.DEDENT, tokenize.COMMENT)
    try:
        return [t.string for t in tokenize.generate_tokens(io.StringIO(text).readline) if t.type not in skip]
    except Exception:  # noqa
        return None


def py_tokens_lenient(text):
    """Like py_tokens, but unbalanced brackets (which tokenize reports at the end of the text, after all tokens) are not an
    error of the lexical analysis."""
    import io
    import tokenize
    skip = (tokenize.NEWLINE, tokenize.NL, tokenize.ENDMARKER, tokenize.INDENT, tokenize.DEDENT, tokenize.COMMENT)
    got = []
    try:
        for t in tokenize.generate_tokens(io.StringIO(text).readline):
            if t.type not in skip:
                got.append(t.string)
    except tokenize.TokenError as e:
        if 'EOF in multi-line' in str(e.args[0]):
            return got
        return None
    except Exception:  # noqa
        return None
    return got


def unbuild(n):
    """ast -> encoding, for the forms the spec reader knows (spec validation); raises on anything else."""
    if isinstance(n, ast.Constant):
        v = n.value
        if v is None:
            return [0, 3, None]
        if v is True:
            return [0, 4, None]
        if v is False:
            return [0, 5, None]
        if v is Ellipsis:
            return [0, 6, None]
        if isinstance(v, (int, float, complex)):
            return [0, 0, str(v)]
        if isinstance(v, str):
            return [0, 1, [ord(c) for c in v]]
        if isinstance(v, bytes):
            return [0, 2, list(v)]
        raise ValueError('constant')
    if isinstance(n, ast.Name):
        return [1, n.id]
    if isinstance(n, ast.Attribute):
        return [2, unbuild(n.value), n.attr, '']
    if isinstance(n, ast.UnaryOp):
        return [3, UOPS.index(type(n.op)), unbuild(n.operand)]
    if isinstance(n, ast.BinOp):
        return [4, BOPS.index(type(n.op)), unbuild(n.left), unbuild(n.right)]
    if isinstance(n, ast.BoolOp):
        return [5, BOOLOPS.index(type(n.op)), [unbuild(v) for v in n.values]]
    if isinstance(n, ast.Tuple):
        return [6, [unbuild(v) for v in n.elts]]
    if isinstance(n, ast.List):
        return [7, [unbuild(v) for v in n.elts]]
    if isinstance(n, ast.Set):
        return [8, [unbuild(v) for v in n.elts]]
    if isinstance(n, ast.Dict):
        return [9, [[None if k is None else unbuild(k), unbuild(v)] for k, v in zip(n.keys, n.values)]]
    if isinstance(n, ast.Subscript):
        return [10, unbuild(n.value), unbuild(n.slice)]
    if isinstance(n, ast.Call):
        return [11, unbuild(n.func), [unbuild(a) for a in n.args], [[k.arg, unbuild(k.value)] for k in n.keywords]]
    if isinstance(n, ast.Starred):
        return [12, unbuild(n.value)]
    raise ValueError('form outside the spec reader: ' + type(n).__name__)


def parse_texts(texts):
    """Each request is "d<text>" (answer: normalised ast.dump or null), "t<text>" (answer: tree in the wire encoding,
    null when CPython rejects the text, "?" when the tree uses a form the spec reader does not know) or "k<text>"
    (answer: CPython's token strings, or null)."""
    out = []
    for req in texts:
        kind, t = req[0], req[1:]
        if kind == 'k':
            out.append(py_tokens_lenient(t))
            continue
        if kind == 'r':
            expr, text = json.loads(t)
            out.append(re_meaning(expr, text))
            continue
        try:
            tree = ast.parse(t, mode='eval').body
        except Exception:  # noqa
            out.append(None)
            continue
        if kind == 'd':
            out.append(norm_dump(tree))
        else:
            try:
                out.append(unbuild(tree))
            except ValueError:
                out.append('?')
    return out


if __name__ == '__main__':
    req = json.load(sys.stdin)
    if req and isinstance(req[0], str):
        json.dump(parse_texts(req), sys.stdout)
    else:
        json.dump(colorize_cases(req), sys.stdout)
