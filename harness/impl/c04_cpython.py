"""C04 worker 2: CPython itself.  Imports every module of a generated project and reports, for every name bound
in every module and class namespace (and for dotted continuations that exist at run time), which object it denotes.

case = {"files": {relpath: source}, "modules": [module full names], "seed": int, "max_queries": int, "depth": int}
out  = {"ok": True, "queries": [[module, qualname_list, dotted, value], ...]}   value = ["mod", name] | ["obj", module, qualname]
       or {"ok": False, "error": "..."} when the project does not import (such projects are outside C04's quantifier)."""
import importlib, json, os, random, shutil, sys, tempfile, types
from pathlib import Path

sys.dont_write_bytecode = True
DUNDER = lambda k: k.startswith('__') and k.endswith('__')


def run_case(case):
    d = tempfile.mkdtemp(prefix='verif_c04py_')
    mods = list(case['modules'])
    modset = set(mods)
    tops = set(m.split('.')[0] for m in mods)
    try:
        for rel, src in case['files'].items():
            p = Path(d) / rel
            p.parent.mkdir(parents=True, exist_ok=True)
            p.write_text(src)
        sys.path.insert(0, d)
        importlib.invalidate_caches()
        loaded = {}
        try:
            for m in sorted(mods):
                loaded[m] = importlib.import_module(m)
        except BaseException as e:  # noqa
            return {'ok': False, 'error': '%s: %s' % (type(e).__name__, e)}

        def val(v):
            if isinstance(v, types.ModuleType):
                return ['mod', v.__name__] if v.__name__ in modset else None
            if isinstance(v, (type, types.FunctionType)):
                if getattr(v, '__module__', None) in modset:
                    return ['obj', v.__module__, v.__qualname__]
            return None

        def ns_names(v):
            if isinstance(v, types.ModuleType):
                return [k for k, x in vars(v).items() if not DUNDER(k) and val(x) is not None]
            if isinstance(v, type):
                out = []
                for k in dir(v):
                    if DUNDER(k):
                        continue
                    try:
                        x = getattr(v, k)
                    except AttributeError:
                        continue
                    if val(x) is not None:
                        out.append(k)
                return out
            return []

        rng = random.Random(case.get('seed', 0))
        depth = case.get('depth', 3)
        cap = case.get('max_queries', 600)
        scopes = []     # (module name, qual list, namespace dict)
        for m in sorted(mods):
            mod = loaded[m]
            scopes.append((m, [], vars(mod)))

            def classes(nsd, qual):
                for k, x in list(nsd.items()):
                    if isinstance(x, type) and x.__module__ == m and x.__qualname__ == '.'.join(qual + [k]):
                        scopes.append((m, qual + [k], vars(x)))
                        classes(vars(x), qual + [k])
            classes(vars(mod), [])
        queries = []
        for m, qual, nsd in scopes:
            mine = []
            frontier = []
            for k, x in nsd.items():
                if DUNDER(k):
                    continue
                v = val(x)
                if v is None:
                    continue
                mine.append([m, qual, k, v])
                frontier.append(([k], x))
            for _ in range(depth - 1):
                nxt = []
                for parts, x in frontier:
                    for a in ns_names(x):
                        y = getattr(x, a)
                        v = val(y)
                        if v is None:
                            continue
                        mine.append([m, qual, '.'.join(parts + [a]), v])
                        nxt.append((parts + [a], y))
                if len(nxt) > 60:
                    nxt = rng.sample(nxt, 60)
                frontier = nxt
            queries.extend(mine)
        if len(queries) > cap:
            # keep every single-part name, sample the dotted ones
            single = [q for q in queries if '.' not in q[2]]
            dotted = [q for q in queries if '.' in q[2]]
            keep = max(0, cap - len(single))
            if len(dotted) > keep:
                dotted = rng.sample(dotted, keep)
            queries = single + dotted
        return {'ok': True, 'queries': queries}
    finally:
        if sys.path and sys.path[0] == d:
            sys.path.pop(0)
        for k in list(sys.modules):
            if k.split('.')[0] in tops:
                del sys.modules[k]
        importlib.invalidate_caches()
        shutil.rmtree(d, ignore_errors=True)


def resolve_cases(cases):
    """spec validation of resolve_relative: importlib._bootstrap._resolve_name itself.
    case = [package, level, name] -> resolved dotted name or None (ImportError)."""
    import importlib._bootstrap as b
    out = []
    for package, level, name in cases:
        try:
            if not package:
                raise ImportError('no known parent package')
            out.append(b._resolve_name(name, package, level))
        except ImportError:
            out.append(None)
    return out


if __name__ == '__main__':
    payload = json.load(sys.stdin)
    if isinstance(payload, dict) and 'resolve' in payload:
        json.dump(resolve_cases(payload['resolve']), sys.stdout)
    else:
        json.dump([run_case(c) for c in payload], sys.stdout)
