"""C10 unit-level worker: runs the REAL escaping code on cases [fn, arg] (same numbering as Model/StanRun.v).
stdin: JSON list of cases; stdout: JSON list of observations, shaped like the decoded model output but with
Python strings for text.

  0 flatten stan           -> [1, html, xml]  | [0]          stan := [0, text] | [1, name, [[k, v]...], [kids]]
                              xml = what expat reads in the html (after dropping characters illegal in XML):
                              ['ok', forest] | ['err', msg];  forest node := [0, text] | [1, name, [[k, v]], kids]
  3 expat on text          -> ['ok', forest, features] | ['err', msg]      (spec validation of Spec/Xml.v)
  5 docutils encode text   -> text          6 attval text -> text
  7 starttag               -> [1, text] | [0] (AssertionError)
  8 html2stan text         -> [1, stan] | [0] (SAXParseException)
  9 validate_identifier    -> 0/1   (observed through deprecatedToUsefulText's package guard)
 10 deprecation            -> [1, text, doc] | [0] (ValueError)  + rendered html of the real reST pipeline
 13 html2stan(encode text) -> as 8, the re-parse path of signatures / colourised values
 14 node2stan over a docutils inline/Text node holding text with classes -> [1, html, stan] | [0]
 16 python source of a default value -> [1, stan of format_signature(def f(a=<expr>, *, k=<expr>))] | [0, '(...)']
 15 node2stan(children of a reference: [[0, text] Text | [1, text, classes] inline ...]) -> [1, stan] | [0]
"""
import ast, json, re, sys
import xml.parsers.expat as expat
from collections import OrderedDict

from twisted.web.template import Tag
from pydoctor import stanutils, node2stan, model
from docutils import nodes, utils

ILLEGAL = re.compile('[^\\x09\\x0a\\x0d\\x20-\\ud7ff\\ue000-\\ufffd\\U00010000-\\U0010ffff]')


def mk_stan(s):
    if s[0] == 0:
        return s[1]
    t = Tag(s[1], attributes=OrderedDict((k, v) for k, v in s[2]), children=[mk_stan(k) for k in s[3]])
    return t


def canon_stan(x):
    """Tag/str -> [1, name, attrs, kids] / [0, text]; adjacent strings merged, empty strings dropped."""
    if isinstance(x, str):
        return [0, x]
    if isinstance(x, bytes):
        return [0, x.decode('utf8')]
    if isinstance(x, Tag):
        kids = []
        for k in x.children:
            c = canon_stan(k)
            if c[0] == 0:
                if not c[1]:
                    continue
                if kids and kids[-1][0] == 0:
                    kids[-1] = [0, kids[-1][1] + c[1]]
                    continue
            kids.append(c)
        return [1, x.tagName, [[k, v] for k, v in x.attributes.items()], kids]
    return [2, type(x).__name__]


def expat_forest(data, fragment=True):
    """Literal tree as expat reads it. features: set of constructs outside the subset of Spec/Xml.v."""
    feats = set()
    root = [1, None, [], []]
    stack = [root]

    def start(name, attrs):
        node = [1, name, [[attrs[i], attrs[i + 1]] for i in range(0, len(attrs), 2)], []]
        stack[-1][3].append(node)
        stack.append(node)

    def end(name):
        stack.pop()

    def chars(d):
        k = stack[-1][3]
        if k and k[-1][0] == 0:
            k[-1][1] += d
        else:
            k.append([0, d])
    p = expat.ParserCreate()
    p.ordered_attributes = True
    p.buffer_text = True
    p.StartElementHandler = start
    p.EndElementHandler = end
    p.CharacterDataHandler = chars
    p.CommentHandler = lambda d: feats.add('comment')
    p.ProcessingInstructionHandler = lambda t, d: feats.add('pi')
    p.StartCdataSectionHandler = lambda: feats.add('cdata')
    p.StartDoctypeDeclHandler = lambda *a: feats.add('doctype')
    p.XmlDeclHandler = lambda *a: feats.add('xmldecl')
    p.SkippedEntityHandler = lambda name, is_pe: feats.add('entity:' + name)
    try:
        p.Parse(data.encode('utf-8', 'surrogatepass') if isinstance(data, str) else data, True)
    except expat.ExpatError as e:
        return ['err', str(e)]
    except UnicodeEncodeError as e:
        return ['err', 'unicode']
    return ['ok', root[3], sorted(feats)]


_TR = None


def translator():
    global _TR
    if _TR is None:
        doc = utils.new_document('c10')
        _TR = node2stan.HTMLTranslator(doc, None)
    return _TR


_CTX = None


def ctx():
    global _CTX
    if _CTX is None:
        from pydoctor.test.test_astbuilder import fromText  # noqa: the public test helper
        s = model.System()
        s.options.docformat = 'restructuredtext'
        _CTX = fromText('from twisted.python.deprecate import deprecated\nfrom incremental import Version\n'
                        'def f():\n    "doc"\n', modname='c10mod', system=s)
    return _CTX


def depr_call(package, replacement):
    src = 'deprecated(Version(%r, 1, 2, 3)%s)' % (package, '' if replacement is None else ', replacement=%r' % (replacement,))
    return ast.parse(src, mode='eval').body


def run_case(case):
    fn, arg = case
    if fn == 0:
        from twisted.web.error import FlattenerError
        try:
            html = stanutils.flatten(mk_stan(arg))
        except UnicodeEncodeError:
            return [0]
        except FlattenerError as e:
            # flattenString wraps the exception raised while flattening
            if isinstance(e._exception, UnicodeEncodeError):
                return [0]
            raise
        clean = ILLEGAL.sub('', html)
        return [1, html, expat_forest('<c10root>' + clean + '</c10root>')]
    if fn == 3:
        return expat_forest(arg)
    if fn == 5:
        return translator().encode(arg)
    if fn == 6:
        return translator().attval(arg)
    if fn == 7:
        tag, ncls, nids, inline_first, empty, suffix, attrs = arg
        node = (nodes.bullet_list if inline_first else nodes.inline)('', classes=list(ncls), ids=list(nids))
        kw = {}
        for k, kind, v in attrs:
            kw[k] = list(v) if kind else v
        try:
            return [1, translator().starttag(node, tag, suffix, empty=bool(empty), **kw)]
        except AssertionError:
            return [0]
    if fn in (8, 13):
        from xml.sax import SAXParseException
        html = arg if fn == 8 else translator().encode(arg)
        try:
            st = stanutils.html2stan(html)
        except SAXParseException:
            return [0]
        except UnicodeEncodeError:
            return [3]
        return [1, canon_stan(st)]
    if fn == 9:
        from pydoctor.extensions import deprecate
        try:
            deprecate.deprecatedToUsefulText(ctx(), 'f', depr_call(arg, None))
            return 1
        except ValueError as e:
            if 'Invalid package name' in str(e):
                return 0
            raise
    if fn == 10:
        from pydoctor.extensions import deprecate
        from pydoctor import epydoc2stan
        name, package, version, repl = arg
        repl = repl[0] if repl else None
        c = ctx()
        f = c.contents['f']
        f.extra_info = []
        seen = []
        real = epydoc2stan.parse_docstring

        def rec(obj, doc, source, markup=None, section='docstring'):
            seen.append(doc)
            return real(obj, doc, source, markup=markup, section=section)
        epydoc2stan.parse_docstring = rec
        old_name = f.name
        f.name = name
        try:
            try:
                v, text = deprecate.deprecatedToUsefulText(f, name, depr_call(package, repl))
            except ValueError as e:
                if 'Invalid package name' in str(e):
                    return [0]
                raise
            deprecate.getDeprecated(f, [depr_call(package, repl)])
        finally:
            epydoc2stan.parse_docstring = real
            f.name = old_name
        html = ''
        for p in f.extra_info:
            html += stanutils.flatten(epydoc2stan.safe_to_stan(
                p, f.docstring_linker, f, fallback=lambda errs, doc, ctx_: Tag('fallback'), report=False,
                section='deprecation text'))
        f.extra_info = []
        return [1, text, seen[0] if seen else None, v, html,
                expat_forest('<c10root>' + ILLEGAL.sub('', html) + '</c10root>')]
    if fn == 14:
        text, classes = arg
        doc = utils.new_document('c10')
        if classes is None:
            n = nodes.Text(text)
            para = nodes.inline('', '', n)
        else:
            para = nodes.inline('', text, classes=list(classes))
        para.document = doc
        try:
            htmls = node2stan.node2html(para, None)
        except Exception as e:  # noqa
            return [2, type(e).__name__]
        html = ''.join(htmls)
        from xml.sax import SAXParseException
        try:
            st = stanutils.html2stan(html)
        except SAXParseException:
            return [0, html]
        except UnicodeEncodeError:
            return [3, html]
        return [1, html, canon_stan(st)]
    if fn == 15:
        # node2stan over the CHILDREN of a reference (the label of a cross-reference): Text leaves and inline nodes
        doc = utils.new_document('c10')
        para = nodes.paragraph('', '')
        doc += para
        ref = nodes.title_reference('', '')
        para += ref
        for kind, text, classes in arg:
            if kind == 0:
                ref += nodes.Text(text)
            else:
                ref += nodes.inline('', text, classes=list(classes))
        from xml.sax import SAXParseException
        try:
            st = node2stan.node2stan(ref.children, None)
        except SAXParseException:
            return [0]
        except UnicodeEncodeError:
            return [3]
        return [1, canon_stan(st)]
    if fn == 16:
        # the signature of  def f(a=<expr>, *, k=<expr>) -> None  as pages.format_signature renders it
        from pydoctor.test.test_astbuilder import fromText
        from pydoctor.templatewriter import pages
        res = []
        for expr in arg[:2]:      # [the expression, the same expression with a harmless payload, ...]
            sysm = model.System()
            sysm.options.docformat = 'plaintext'
            mod = fromText('def f(a=%s, *, k=%s) -> None:\n    pass\n' % (expr, expr), modname='c10sig', system=sysm)
            sig = pages.format_signature(mod.contents['f'])
            res.append([0, sig] if isinstance(sig, str) else [1, canon_stan(sig)])
        return res
    raise ValueError('unknown fn %r' % fn)


if __name__ == '__main__':
    cases = json.load(sys.stdin)
    real_stdout = sys.stdout
    sys.stdout = sys.stderr          # pydoctor reports on stdout
    out = []
    for c in cases:
        try:
            out.append(run_case(c))
        except Exception as e:  # noqa
            import traceback
            out.append(['exc', type(e).__name__, traceback.format_exc()[-600:]])
    json.dump(out, real_stdout)
