"""Runs the REAL pydoctor.epydoc.markup.epytext._colorize on the text of one paragraph token.

stdin : JSON list of texts
stdout: JSON list of {"tree": nested tree, "errors": [[code, charnum], ...], "visible": str|null,
                      "splits": [[queried, matched, txt, tgt], ...], "targets": [[tag, target, ok, cleaned], ...], "exc": null|str}
   tree := [0, text] | [1, tagcode, kid, ...]
The two regex oracles of the model are recorded from the real code: _TARGET_RE.match is wrapped for the duration of the
call; the clean-up / validity test of a target is obtained by calling the real _colorize_link on a one-child element."""
import json, sys
from pydoctor.epydoc.markup import epytext as E

TAGS = {'para': 0, 'code': 1, 'math': 2, 'italic': 3, 'bold': 4, 'uri': 5, 'link': 6, 'escape': 7, 'symbol': 8, 'unknown': 9,
        'litbrace': 10, 'name': 11, 'target': 12}
ERR = {"Unknown inline markup tag.": 1, "Unbalanced '}'.": 2, "Invalid symbol code.": 3, "Invalid escape code.": 4,
       "Bad link target.": 5, "Bad uri target.": 5, "Unbalanced '{'.": 7}


class Recorder:
    def __init__(self, rx):
        self.rx = rx
        self.calls = []

    def match(self, s):
        m = self.rx.match(s)
        self.calls.append([s, 1 if m else 0] + (list(m.groups()) if m else ['', '']))
        return m


def tree_of(el):
    if isinstance(el, str):
        return [0, el]
    return [1, TAGS.get(el.tag, -1)] + [tree_of(c) for c in el.children]


def target_probe(tag, target):
    tok = E.Token(E.Token.PARA, 0, target, 0)
    link = E.Element(tag, target)
    errs = []
    E._colorize_link(link, tok, 0, errs)
    if errs or len(link.children) != 2 or getattr(link.children[1], 'tag', None) != 'target':
        return [0 if tag == 'link' else 1, target, 0, '']
    return [0 if tag == 'link' else 1, target, 1, link.children[1].children[0]]


def run_case(text):
    obs = {'tree': None, 'errors': [], 'visible': None, 'splits': [], 'targets': [], 'exc': None}
    real = E._TARGET_RE
    rec = Recorder(real)
    try:
        E._TARGET_RE = rec
        tok = E.Token(E.Token.PARA, 0, text, 0)
        errs = []
        tree = E._colorize(tok, errs, 'para')
    except Exception as e:  # noqa
        obs['exc'] = '%s: %s' % (type(e).__name__, e)
        return obs
    finally:
        E._TARGET_RE = real
    obs['tree'] = tree_of(tree)
    obs['errors'] = [[ERR.get(e._descr, -1), e.charnum] for e in errs]
    obs['splits'] = rec.calls
    seen = set()
    for s, matched, txt, tgt in rec.calls:
        cand = tgt if matched else s
        for tag in ('link', 'uri'):
            if (tag, cand) not in seen and not real.match(cand):
                seen.add((tag, cand))
                obs['targets'].append(target_probe(tag, cand))
    try:
        if not errs:
            doc = E.ParsedEpytextDocstring(E.Element('epytext', tree), ())
            obs['visible'] = doc.to_node().astext()
    except Exception as e:  # noqa
        obs['visible_exc'] = '%s: %s' % (type(e).__name__, e)
    return obs


if __name__ == '__main__':
    cases = json.load(sys.stdin)
    json.dump([run_case(c) for c in cases], sys.stdout)
