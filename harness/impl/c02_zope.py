"""C02 worker (iii): the REAL zopeinterface.postProcess on constructed classes.
case = {"objs": [[isinterface(0/1), [target index | None ...]], ...], "order": [indices]}
  object k is a class `m.C<k>` of one module m (a ZopeInterfaceClass); implements_directly of k = the full names of its
  targets (None -> the external name 'ext.Missing<j>'); `order` = the order in which the classes are added to the
  system (= allobjects order = the order of the implementers).
out = [[implementedby_directly of object k as indices], ...]"""
import io, json, sys, contextlib
from pydoctor import model
from pydoctor.extensions import zopeinterface

_OPTS = None


def options():
    global _OPTS
    if _OPTS is None:
        from pydoctor.options import Options
        _OPTS = Options.defaults()
        _OPTS.verbosity = -10
        from pydoctor import extensions
        model.System.extensions = list(extensions.get_extensions())
    return _OPTS


def run_case(case):
    system = model.System(options())
    mod = system.Module(system, 'm')
    mod._py_string = ''
    system._addUnprocessedModule(mod)
    n = len(case['objs'])
    objs = [None] * n
    for k in case['order']:
        c = system.Class(system, 'C%d' % k, mod)
        c.parentMod = mod
        system.addObject(c)
        objs[k] = c
    for k, (isif, targets) in enumerate(case['objs']):
        c = objs[k]
        if c is None:
            continue
        if isif:
            c.isinterface = True
            c.implementedby_directly = []
        c.implements_directly = ['ext.Missing%d' % j if t is None else 'm.C%d' % t for j, t in enumerate(targets)]
    zopeinterface.postProcess(system)
    index = {id(o): k for k, o in enumerate(objs) if o is not None}
    out = []
    for k in range(n):
        c = objs[k]
        if c is not None and c.isinterface:
            out.append([index[id(x)] for x in c.implementedby_directly])
        else:
            out.append([])
    return out


if __name__ == '__main__':
    cases = json.load(sys.stdin)
    res = []
    with contextlib.redirect_stdout(io.StringIO()):
        for c in cases:
            res.append(run_case(c))
    json.dump(res, sys.stdout)
