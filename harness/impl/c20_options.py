"""C20 worker: runs the REAL pydoctor option machinery (and, for spec validation, the running CPython).
stdin: JSON list of cases; stdout: JSON list of observations (same order).

case kinds
  {"k": "quote", "t": str, "triple": bool}
      -> {"dq": bool, "sq": bool, "tre": bool, "isq": bool, "unq": [tag, str]}
         dq/sq: which alternative of _QUOTED_STR_REGEX matched; tre: _TRIPLE_QUOTED_STR_REGEX matched;
         isq = is_quoted(t, triple); unq = unquote_str(t, triple): [0, value] | [1, ""] ValueError | [3, name] other exception
  {"k": "pyspec", "t": str}          (CPython only, validates Spec/PyStrLit.v and Spec/PyListLit.v)
      -> {"lit": [tag, str], "list": [tag, [str]], "repr": str, "printable": [code points of t that are printable and >= 128]}
  {"k": "ini", "text": str}
      -> {"view": [[section, [[key, value]...]]...] | null, "parse": {"ok": pairs} | {"err": str}}
         view = what configparser made of the text; parse = IniConfigParser(CONFIG_SECTIONS, split).parse
  {"k": "toml", "text": str}
      -> {"view": tree | null, "parse": ...}     parse = TomlConfigParser(CONFIG_SECTIONS).parse
  {"k": "validate", "data": pairs}
      -> {"ok": pairs, "warnings": [str]}        ValidatorParser(<parser returning data>, get_parser()).parse
  {"k": "e2e" | "ns", "files": {name: text}, "runs": [argv...], "nofile_runs": [argv...]}
      In a scratch cwd (mkdtemp outside /repo and /verif, removed afterwards) holding `files`:
      Options.from_args(argv) ("e2e") or options.parse_args(argv) ("ns", the raw namespace) for every argv of "runs";
      then the files are removed and the same for every argv of "nofile_runs" in the SAME cwd.
      -> {"runs": [outcome...], "nofile_runs": [outcome...], "views": {name: {"toml": tree|null, "ini": view|null}}}
      outcome = {"exit": null | int, "exc": null | str, "opts": {attr: canonical} | null, "warnings": [str], "stderr": str}
  {"k": "seq", "steps": [{"files": {name: text}, "argv": [...]}, ...], "fn": "e2e" | "ns"}
      every step in its own scratch cwd, ALL steps one after the other in ONE process -> {"steps": [outcome...], "views": [...]}

Isolation: a "seq" case, and an e2e / ns case with "isolate": true, runs in a forked child of the worker.  The
harness sends such cases in payloads of their own, so the worker has imported pydoctor but parsed nothing when it
forks: every child starts from the state a fresh `pydoctor` process has.  Ordinary e2e / ns cases share the worker
process (a fork per case is too slow for thousands of cases).
"""
import contextlib
import enum
import io
import json
import os
import shutil
import sys
import tempfile
import warnings
from pathlib import Path


def canon(v, cwd):
    if v is None or isinstance(v, (bool, int, str)):
        return v
    if isinstance(v, float):
        return ['float', repr(v)]
    if isinstance(v, Path):
        s = str(v)
        if s == cwd:
            return ['path', '.']
        if s.startswith(cwd + os.sep):
            return ['path', s[len(cwd) + 1:]]
        return ['abspath', s]
    if isinstance(v, enum.Enum):
        return ['enum', v.name]
    if isinstance(v, type):
        return ['class', v.__module__ + '.' + v.__qualname__]
    if isinstance(v, (list, tuple)):
        return [canon(x, cwd) for x in v]
    return ['object', type(v).__name__]


def one_run(fn, argv, cwd):
    out = {'exit': None, 'exc': None, 'opts': None, 'warnings': [], 'stderr': ''}
    err = io.StringIO()
    so = io.StringIO()
    with warnings.catch_warnings(record=True) as caught:
        warnings.simplefilter('always')
        try:
            with contextlib.redirect_stderr(err), contextlib.redirect_stdout(so):
                res = fn(list(argv))
            if hasattr(res, '__attrs_attrs__'):
                d = {a.name: getattr(res, a.name) for a in res.__attrs_attrs__}
            else:
                d = dict(vars(res))
            out['opts'] = {k: canon(v, cwd) for k, v in sorted(d.items())}
        except SystemExit as e:
            out['exit'] = e.code if isinstance(e.code, int) else (0 if e.code is None else 1)
        except BaseException as e:  # noqa
            out['exc'] = type(e).__name__ + ': ' + str(e)[:300]
    out['warnings'] = [str(w.message) for w in caught
                       if not issubclass(w.category, (SyntaxWarning, DeprecationWarning))]
    out['stderr'] = err.getvalue()[-400:]
    return out


def toml_tree(v, inside_list=False):
    if isinstance(v, bool):
        return [2, 1 if v else 0]
    if isinstance(v, int) and abs(v) < 2 ** 60:
        return [1, v]
    if isinstance(v, str):
        return [0, v]
    if isinstance(v, list) and not inside_list:
        return [3, [toml_tree(x, True) for x in v]]
    if isinstance(v, dict) and not inside_list:
        return [4, [[k, toml_tree(x)] for k, x in v.items()]]
    return [5, 1 if v else 0, str(v)]


def toml_view(text):
    import toml
    try:
        data = toml.loads(text)
    except Exception:
        return None
    return [[k, toml_tree(x)] for k, x in data.items()]


def ini_view(text):
    import configparser
    cp = configparser.ConfigParser()
    try:
        cp.read_string(text)
        return [[sec, [[k, v] for k, v in cp[sec].items()]] for sec in cp.sections()]
    except Exception:
        return None


def run_e2e(case):
    from pydoctor import options
    fn = options.Options.from_args if case['k'] == 'e2e' else options.parse_args
    d = tempfile.mkdtemp(prefix='verif_c20_')
    d = os.path.realpath(d)
    assert not d.startswith('/repo') and not d.startswith('/verif')
    old = os.getcwd()
    try:
        os.chdir(d)
        views = {}
        for name, text in case.get('files', {}).items():
            with open(os.path.join(d, name), 'w', encoding='utf-8', newline='') as f:
                f.write(text)
            views[name] = {'toml': toml_view(text), 'ini': ini_view(text)}
        r1 = [one_run(fn, argv, d) for argv in case.get('runs', [])]
        for name in case.get('files', {}):
            os.unlink(os.path.join(d, name))
        r2 = [one_run(fn, argv, d) for argv in case.get('nofile_runs', [])]
        return {'runs': r1, 'nofile_runs': r2, 'views': views}
    finally:
        os.chdir(old)
        shutil.rmtree(d, ignore_errors=True)


def run_seq(case):
    from pydoctor import options
    fn = options.Options.from_args if case.get('fn', 'e2e') == 'e2e' else options.parse_args
    outs, views = [], []
    old = os.getcwd()
    for st in case['steps']:
        d = os.path.realpath(tempfile.mkdtemp(prefix='verif_c20_'))
        assert not d.startswith('/repo') and not d.startswith('/verif')
        try:
            os.chdir(d)
            v = {}
            for name, text in st.get('files', {}).items():
                with open(os.path.join(d, name), 'w', encoding='utf-8', newline='') as f:
                    f.write(text)
                v[name] = {'toml': toml_view(text), 'ini': ini_view(text)}
            views.append(v)
            outs.append(one_run(fn, st.get('argv', []), d))
        finally:
            os.chdir(old)
            shutil.rmtree(d, ignore_errors=True)
    return {'steps': outs, 'views': views}


def isolated(fn, case):
    """runs fn(case) in a forked child of this (pristine) process and returns its JSON result"""
    r, w = os.pipe()
    pid = os.fork()
    if pid == 0:
        code = 0
        try:
            os.close(r)
            data = json.dumps(fn(case)).encode('ascii')
            with os.fdopen(w, 'wb') as f:
                f.write(data)
        except BaseException:  # noqa
            import traceback
            traceback.print_exc()
            code = 3
        finally:
            os._exit(code)
    os.close(w)
    with os.fdopen(r, 'rb') as f:
        data = f.read()
    _, status = os.waitpid(pid, 0)
    if status != 0 or not data:
        raise SystemExit('isolated child failed for case kind %r (status %r)' % (case.get('k'), status))
    return json.loads(data)


def pairs(d):
    return [[k, v] for k, v in d.items()]


def run_parse(case):
    from pydoctor import options, _configparser as C
    text = case['text']
    if case['k'] == 'ini':
        view = ini_view(text)
        p = C.IniConfigParser(options.CONFIG_SECTIONS, split_ml_text_to_list=True)
    else:
        view = toml_view(text)
        p = C.TomlConfigParser(options.CONFIG_SECTIONS)
    with warnings.catch_warnings():
        warnings.simplefilter('ignore')
        try:
            res = {'ok': pairs(p.parse(io.StringIO(text)))}
        except BaseException as e:  # noqa
            res = {'err': type(e).__name__ + ': ' + str(e)[:200]}
    return {'view': view, 'parse': res}


def run_validate(case):
    from pydoctor import options, _configparser as C
    from configargparse import ConfigFileParser
    data = dict((k, v) for k, v in case['data'])

    class Fixed(ConfigFileParser):
        def parse(self, stream):
            return dict(data)

        def get_syntax_description(self):
            return ''
    vp = C.ValidatorParser(Fixed(), options.get_parser())
    with warnings.catch_warnings(record=True) as caught:
        warnings.simplefilter('always')
        try:
            out = {'ok': pairs(vp.parse(io.StringIO('')))}
        except BaseException as e:  # noqa
            out = {'err': type(e).__name__ + ': ' + str(e)[:200]}
    out['warnings'] = [str(w.message) for w in caught]
    return out


def run_quote(case):
    from pydoctor import _configparser as C
    t = case['t']
    triple = bool(case.get('triple', True))
    m = C._QUOTED_STR_REGEX.match(t)
    out = {'dq': bool(m and m.group(1) is not None), 'sq': bool(m and m.group(2) is not None),
           'tre': bool(C._TRIPLE_QUOTED_STR_REGEX.match(t))}
    out['isq'] = bool(C.is_quoted(t, triple=triple))
    with warnings.catch_warnings():
        warnings.simplefilter('ignore')
        try:
            out['unq'] = [0, C.unquote_str(t, triple=triple)]
        except ValueError:
            out['unq'] = [1, '']
        except BaseException as e:  # noqa
            out['unq'] = [3, type(e).__name__]
    return out


def run_pyspec(case):
    from ast import literal_eval
    t = case['t']
    out = {}
    with warnings.catch_warnings():
        warnings.simplefilter('ignore')
        try:
            v = literal_eval(t)
            out['lit'] = [0, v] if isinstance(v, str) else [2, '']
            out['list'] = [0, [str(i) for i in v]] if isinstance(v, list) else [2, []]
        except BaseException:  # noqa
            out['lit'] = [1, '']
            out['list'] = [1, []]
    out['repr'] = repr(t)
    out['printable'] = sorted(set(ord(c) for c in t if ord(c) >= 128 and c.isprintable()))
    return out


def main():
    cases = json.load(sys.stdin)
    import pydoctor.options  # noqa: imported once, before any fork; nothing is parsed in this process
    import toml, configparser  # noqa
    res = []
    for c in cases:
        k = c['k']
        if k in ('e2e', 'ns'):
            res.append(isolated(run_e2e, c) if c.get("isolate") else run_e2e(c))
        elif k == 'seq':
            res.append(isolated(run_seq, c))
        elif k in ('ini', 'toml'):
            res.append(run_parse(c))
        elif k == 'validate':
            res.append(run_validate(c))
        elif k == 'quote':
            res.append(run_quote(c))
        elif k == 'pyspec':
            res.append(run_pyspec(c))
        else:
            raise SystemExit('unknown case kind %r' % (k,))
    json.dump(res, sys.stdout)


if __name__ == '__main__':
    main()
