"""C20 worker: runs the REAL pydoctor option machinery.
stdin: JSON list of cases; stdout: JSON list of observations (same order).

case kinds
  {"k": "e2e", "files": {name: text}, "runs": [argv, ...], "nofile_runs": [argv, ...]}
      In a scratch cwd (mkdtemp outside /repo and /verif, removed afterwards) holding `files`,
      Options.from_args(argv) for every argv of "runs"; then the files are removed and
      Options.from_args(argv) for every argv of "nofile_runs" in the SAME cwd (so that paths resolve alike).
      -> {"runs": [outcome...], "nofile_runs": [outcome...]}
      outcome = {"exit": null | int | str, "exc": null | str, "opts": {attr: canonical} | null,
                 "warnings": [str], "stderr": str}
  {"k": "ns", ...same...}   like e2e but observes options.parse_args(argv) (the raw namespace, before the
      typed container) -> outcome with "opts" = canonical vars(namespace)
  {"k": "parse", "text": str}   PydoctorConfigParser.parse(StringIO(text)) (TOML then INI, sections looked up)
      -> {"ok": {key: str | [str]}} (insertion order kept as list of pairs) | {"err": str}
  {"k": "validate", "text": str}  the ValidatorParser of a fresh get_parser() on the text
      -> {"ok": pairs, "warnings": [...]} | {"err": ...}
"""
import contextlib
import enum
import io
import json
import os
import shutil
import sys
import tempfile
import warnings
from pathlib import Path


def canon(v, cwd):
    if v is None or isinstance(v, (bool, int, str)):
        return v
    if isinstance(v, float):
        return ['float', repr(v)]
    if isinstance(v, Path):
        s = str(v)
        if s == cwd:
            return ['path', '.']
        if s.startswith(cwd + os.sep):
            return ['path', s[len(cwd) + 1:]]
        return ['abspath', s]
    if isinstance(v, enum.Enum):
        return ['enum', v.name]
    if isinstance(v, type):
        return ['class', v.__module__ + '.' + v.__qualname__]
    if isinstance(v, (list, tuple)):
        return [canon(x, cwd) for x in v]
    return ['object', type(v).__name__]


def one_run(fn, argv, cwd):
    out = {'exit': None, 'exc': None, 'opts': None, 'warnings': [], 'stderr': ''}
    err = io.StringIO()
    so = io.StringIO()
    with warnings.catch_warnings(record=True) as caught:
        warnings.simplefilter('always')
        try:
            with contextlib.redirect_stderr(err), contextlib.redirect_stdout(so):
                res = fn(list(argv))
            if hasattr(res, '__attrs_attrs__'):
                d = {a.name: getattr(res, a.name) for a in res.__attrs_attrs__}
            else:
                d = dict(vars(res))
            out['opts'] = {k: canon(v, cwd) for k, v in sorted(d.items())}
        except SystemExit as e:
            out['exit'] = e.code if isinstance(e.code, int) or e.code is None else str(e.code)
            if e.code is None:
                out['exit'] = 0
        except BaseException as e:  # noqa
            out['exc'] = type(e).__name__ + ': ' + str(e)[:300]
    out['warnings'] = [str(w.message) for w in caught
                       if not issubclass(w.category, (SyntaxWarning, DeprecationWarning))]
    out['stderr'] = err.getvalue()[-400:]
    return out


def run_e2e(case):
    from pydoctor import options
    fn = options.Options.from_args if case['k'] == 'e2e' else options.parse_args
    d = tempfile.mkdtemp(prefix='verif_c20_')
    d = os.path.realpath(d)
    assert not d.startswith('/repo') and not d.startswith('/verif')
    old = os.getcwd()
    try:
        os.chdir(d)
        for name, text in case.get('files', {}).items():
            with open(os.path.join(d, name), 'w', encoding='utf-8', newline='') as f:
                f.write(text)
        r1 = [one_run(fn, argv, d) for argv in case.get('runs', [])]
        for name in case.get('files', {}):
            os.unlink(os.path.join(d, name))
        r2 = [one_run(fn, argv, d) for argv in case.get('nofile_runs', [])]
        return {'runs': r1, 'nofile_runs': r2}
    finally:
        os.chdir(old)
        shutil.rmtree(d, ignore_errors=True)


def pairs(d):
    return [[k, v] for k, v in d.items()]


def run_parse(case):
    from pydoctor import options
    with warnings.catch_warnings(record=True) as caught:
        warnings.simplefilter('always')
        try:
            if case['k'] == 'parse':
                p = options.PydoctorConfigParser()
            else:
                p = options.get_parser()._config_file_parser
            data = p.parse(io.StringIO(case['text']))
            out = {'ok': pairs(data)}
        except BaseException as e:  # noqa
            out = {'err': type(e).__name__ + ': ' + str(e)[:300]}
    out['warnings'] = [str(w.message) for w in caught
                       if not issubclass(w.category, (SyntaxWarning, DeprecationWarning))]
    return out


def main():
    cases = json.load(sys.stdin)
    res = []
    for c in cases:
        if c['k'] in ('e2e', 'ns'):
            res.append(run_e2e(c))
        elif c['k'] in ('parse', 'validate'):
            res.append(run_parse(c))
        else:
            raise SystemExit('unknown case kind %r' % (c['k'],))
    json.dump(res, sys.stdout)


if __name__ == '__main__':
    main()
