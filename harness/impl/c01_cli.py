"""C01 worker D: token/line-mutated real source files through `python -m pydoctor` in a subprocess.
Oracle: exit status in {0,2,3}, no Traceback on stderr/stdout, finishes within the limit, every file that CPython
can parse has its module page, every file that cannot is named in a 'cannot parse' message, and the index,
search index and inventory are written.
stdin {"projects": N, "seed": S, "jobs": J} or {"replay": case}."""
import ast, json, os, random, shutil, subprocess, sys, tempfile
from concurrent.futures import ThreadPoolExecutor
from pathlib import Path

REPO = Path(os.environ.get('PYTHONPATH', '/repo').split(':')[0])
SITE = Path('/venv/lib/python3.12/site-packages')
DOCFORMATS = ['epytext', 'restructuredtext', 'google', 'numpy', 'plaintext']

def source_pool():
    pool = sorted((REPO / 'pydoctor').glob('*.py')) + sorted((REPO / 'pydoctor' / 'epydoc').rglob('*.py'))
    for pkg in ('attr', 'docutils/utils', 'requests', 'toml'):
        pool += sorted((SITE / pkg).glob('*.py'))
    return [p for p in pool if p.stat().st_size < 60000]

def mutate(rng, text):
    lines = text.split('\n')
    kind = rng.choice(['none', 'none', 'del_line', 'dup_line', 'swap_lines', 'garbage', 'truncate', 'unbalance',
                       'indent', 'nul', 'docstring_garbage', 'unicode'])
    if not lines:
        return text, kind
    i = rng.randrange(len(lines))
    if kind == 'del_line':
        del lines[i]
    elif kind == 'dup_line':
        lines.insert(i, lines[i])
    elif kind == 'swap_lines' and len(lines) > 1:
        j = rng.randrange(len(lines)); lines[i], lines[j] = lines[j], lines[i]
    elif kind == 'garbage':
        lines[i] = lines[i] + rng.choice([' ???', ' (', ' """', ' lambda', ' \\', ' @'])
    elif kind == 'truncate':
        lines = lines[:i]
    elif kind == 'unbalance':
        lines[i] = lines[i].replace(')', '', 1) if ')' in lines[i] else lines[i] + ')'
    elif kind == 'indent':
        lines[i] = '   ' + lines[i]
    elif kind == 'nul':
        lines[i] = lines[i] + '\x00'
    elif kind == 'docstring_garbage':
        lines.insert(i, '    """L{unclosed @param: `x <y>`_ :nosuch:`z` E{bad} {{ |sub| \x01 \udcff"""'.replace('\udcff', ''))
    elif kind == 'unicode':
        lines[i] = lines[i] + ' # ‮\u0000￾'.replace('\u0000', '')
    return '\n'.join(lines), kind

# fixed corpus: one docstring per known way a markup parser complains (with and without a line number), run once per docformat
TORTURE_DOCSTRINGS = [
    "Some text with an `anonymous`__ reference and no target.",
    "`a link`__ and `another`__ but only one target.\n\n__ https://example.org/",
    "Unknown role :nosuchrole:`x` and unknown directive:\n\n.. nosuchdirective:: y\n",
    "Title\n==\nunderline too short\n\nDuplicate target_\n\n.. _target: a\n.. _target: b\n",
    "Unbalanced L{brace and I{nested B{deep} markup",
    "@param: missing name\n@nosuchfield x: y\n@return: a\n@return: b\n@type zzz: int",
    "  - list item\n over-dedented\n    1. ordered\n  3. wrong number",
    "Args:\n    x (int: unbalanced\n  bad indent\nReturns:\nRaises:\n    : nothing",
    "Parameters\n----------\nx : int, optional, default\n\nReturns\n---\n\nSee Also\n--------\n:broken",
    ">>> print(1\n... )\n1\n>>> \n",
    "|substitution| [1]_ [#]_ footnote_ `phrase reference`_ *unclosed emphasis",
    ".. include:: /etc/passwd\n\n.. raw:: html\n\n   <b>x</b>\n",
    "E{lb}E{rb}E{nosuch} U{http://x<y>} X{index} M{math} C{code} S{nosymbol}",
    "\x0c form feed, \x0b vertical tab, tab\there, NBSP\u00a0, ZWJ\u200d, RTL \u202e, astral \U0001f600",
    ":param x: reST field in any format\n:type x: `unclosed\n:raises ValueError:\n:returns",
    "lone surrogate SURROGATE_ESC in the text and in a field\n\n@param x: SURROGATE_ESC",
    "",
    "   \n\n   ",
]

def torture_project(docformat):
    lines = ['"""Torture module for %s."""' % docformat]
    for i, d in enumerate(TORTURE_DOCSTRINGS):
        body = d.replace('\\', '\\\\').replace('"""', '\\"\\"\\"')
        lines.append('def f%d(x, y=1):\n    """\n    %s\n    """\n' % (i, body.replace('\n', '\n    ')))
        lines.append('class K%d:\n    """%s"""\n    a%d = 1\n    """%s"""\n' % (i, body, i, body))
    lines = [l.replace('SURROGATE_ESC', '\\udc80') for l in lines]
    return {'files': [['torture_%s.py' % docformat, '\n'.join(lines) + '\n'], ['good.py', '"""Fine."""\ndef ok():\n    """ok"""\n']],
            'docformat': docformat}

def parses(text):
    """what pydoctor itself hands to the parser: the bytes of the file plus a newline (astbuilder.parseFile), so a file
    ending in a backslash-newline, which Python rejects, is parsed by pydoctor"""
    try:
        ast.parse(text.encode('utf-8', 'surrogateescape') + b'\n')
        return True
    except (SyntaxError, ValueError, RecursionError, MemoryError):
        return False

def run_project(case):
    d = Path(tempfile.mkdtemp(prefix='verif_c01cli_'))
    try:
        files = []
        for name, text in case['files']:
            p = d / name
            p.parent.mkdir(parents=True, exist_ok=True)
            p.write_text(text, encoding='utf-8', errors='surrogateescape')
            files.append(p)
        if case.get('roots'):
            files = [d / r for r in case['roots']]      # directories / a chosen subset are handed to pydoctor
        out = d / 'out'
        env = dict(os.environ)
        cmd = [sys.executable, '-m', 'pydoctor', '--project-name=proj', '--html-output=%s' % out,
               '--docformat=%s' % case['docformat'], '-q'] + list(case.get('args', [])) + [str(p) for p in files]
        try:
            pr = subprocess.run(cmd, stdout=subprocess.PIPE, stderr=subprocess.PIPE, timeout=240, env=env, cwd=str(d))
        except subprocess.TimeoutExpired:
            return {'what': 'pydoctor did not finish within 240 s (hang)', 'case': case}, None
        so, se = pr.stdout.decode('utf-8', 'replace'), pr.stderr.decode('utf-8', 'replace')
        if pr.returncode not in (0, 2, 3):
            return {'what': 'exit status %d is not one of 0, 2, 3' % pr.returncode, 'case': case,
                    'observed': (se[-1500:] or so[-1500:])}, pr.returncode
        if 'Traceback (most recent call last)' in se or 'Traceback (most recent call last)' in so:
            return {'what': 'uncaught exception traceback in output', 'case': case, 'observed': se[-1500:]}, pr.returncode
        for name, text in case['files']:
            if case.get('roots'):
                break                                   # package layouts: only status / traceback / summary files are judged
            modname = name[:-3]
            if ('--privacy=HIDDEN:%s' % modname) in case.get('args', []):
                continue      # hidden modules have no page
            if parses(text):
                if modname.isidentifier() and not (out / (modname + '.html')).exists() and not (len(case['files']) == 1 and (out / 'index.html').exists()):
                    return {'what': 'parseable module %s has no page' % name, 'case': case, 'observed': so[-800:]}, pr.returncode
            else:
                if name not in so and name not in se:
                    return {'what': 'unparsable file %s is not named in any message' % name, 'case': case,
                            'observed': so[-800:]}, pr.returncode
        need_files = ['objects.inv', 'searchindex.json', 'all-documents.html', 'moduleIndex.html']
        if case.get('tag') != 'all_hidden':
            need_files.append('index.html')     # with a single HIDDEN root there is no index page to write
        for need in need_files:
            if not (out / need).exists():
                return {'what': 'output file %s missing' % need, 'case': case, 'observed': so[-800:]}, pr.returncode
        return None, pr.returncode
    finally:
        shutil.rmtree(d, ignore_errors=True)

def main():
    req = json.load(sys.stdin)
    if 'replay' in req:
        f, st = run_project(req['replay'])
        json.dump({'failures': [f] if f else [], 'status': st}, sys.stdout)
        return
    rng = random.Random(req['seed'])
    pool = source_pool()
    cases = []
    nfiles = 0
    unparsable = 0
    for k in range(req['projects']):
        n = rng.randint(1, 3)
        files = []
        used = set()
        for i in range(n):
            src = rng.choice(pool)
            text = src.read_text(encoding='utf-8', errors='replace')
            text, kind = mutate(rng, text)
            name = 'f%d_%s' % (i, src.name.replace('__', 'u'))
            if name in used:
                continue
            used.add(name)
            files.append([name, text])
            nfiles += 1
            if not parses(text):
                unparsable += 1
        case = {'files': files, 'docformat': rng.choice(DOCFORMATS)}
        if rng.random() < 0.4:
            # privacy rules that never match a root module (last segment starts with an upper-case letter / underscore)
            lo = rng.choice('ABCDEFGHIJKLMNOPQRSTUVWXYZ')      # [lo-Z_]: never an inverted range (that is C13's known finding)
            case['args'] = ['--privacy=%s:**.[%s-Z_]*' % (rng.choice(['HIDDEN', 'HIDDEN', 'PRIVATE', 'PUBLIC']), lo)
                            for _ in range(rng.randint(1, 2))]
        cases.append(case)
    for df in DOCFORMATS:
        cases.append(torture_project(df))
    # boundary projects: root names that coincide with generated pages, a lone empty module, deep nesting
    for name in ('index.py', 'moduleIndex.py', 'classIndex.py', 'nameIndex.py', 'undoccedSummary.py', 'all-documents.py'):
        cases.append({'files': [[name, 'class K:\n    """doc"""\n']], 'docformat': 'epytext', 'single_root_named_like_page': True})
    cases.append({'files': [['empty.py', '']], 'docformat': 'epytext'})
    # valid but unusual class bodies (each once aborted the builder or is a near miss of such a case)
    cases.append({'files': [['rewrap.py', 'class C:\n    @staticmethod\n    def f(): pass\n    f = staticmethod(f)\n'
                                          '    @classmethod\n    def g(cls): pass\n    g = classmethod(g)\n    g = staticmethod(g)\n'
                                          '    def h(self): pass\n    h = staticmethod(h)\n    h = classmethod(h)\n'
                                          '    @property\n    def p(self): return 1\n    """string after property"""\n'
                                          '    def m(self):\n        self.p = 2\n        self.f = 3\n'
                                          'f = staticmethod(len)\n']], 'docformat': 'epytext'})
    # inputs that once aborted the run (each has a `fixed:` entry in known_findings/C01.json) and near misses of them
    cases.append({'files': [['rx.py', 'import re\nA = re.compile("a{99999999999999}")\nB = re.compile("(")\nC = re.compile(b"[z-a]")\n'
                                      'D = re.compile("a" * 3)\nE = re.compile("(?P<n>x)(?P=n)\\\\1{2,1}")\n']], 'docformat': 'epytext'})
    cases.append({'files': [['docassign.py', 'class C:\n    pass\nC.__doc__ = "doc \\udc80"\ndef f(): pass\nf.__doc__ = "x \\udfff y"\n'
                                             'C.__doc__, f.__doc__ = "a", "b"\nC.nosuch.__doc__ = "z"\n']], 'docformat': 'restructuredtext'})
    for bad in ('_types', '__init__', '_napoleon', 'nosuchformat', 'epytext.x', '', 'plaintext '):
        cases.append({'files': [['df.py', '__docformat__ = %r\ndef f():\n    \'\'\'doc L{x}\'\'\'\n' % bad]], 'docformat': 'epytext'})
    cases.append({'files': [['a.py', 'import b\n'], ['b.py', 'x = 1\n'], ['c.py', 'from a import b\n__all__ = [\'b\']\n']], 'docformat': 'epytext'})
    cases.append({'files': [['m.py', 'from fake import x\nfrom fake.m import y\nimport fake\nz = 1\n']], 'docformat': 'epytext',
                  'args': ['--prepend-package=fake']})
    cases.append({'files': [['trip.py', 'import sys\ndef opener(): pass\nif sys.platform:\n    def opener(): pass\nif not sys.platform:\n    def opener(): pass\n'
                                        'class K:\n    x = 1\n    x = 2\n    x = 3\n    def m(self): pass\n    def m(self): pass\n    def m(self): pass\n    def m(self): pass\n']],
                  'docformat': 'epytext'})
    cases.append({'files': [['pkgx.py', 'from _implx import Public, lazy_thing\n__all__ = [\'Public\', \'lazy_thing\', \'nosuch\']\n'],
                            ['_implx.py', 'class Public: pass\ndef __getattr__(name): return 1\n']], 'docformat': 'epytext'})
    # duplicate module names with different parents + a second root of the same name (KeyError in System._remove, fixed a9f163d)
    cases.append({'files': [['p/__init__.py', ''], ['p/a/__init__.py', ''], ['p/a/b.py', 'x = 1\n'], ['p/a.b/__init__.py', 'y = 2\n'],
                            ['q/p/__init__.py', 'z = 3\n']], 'roots': ['p', 'q/p'], 'docformat': 'epytext'})
    cases.append({'files': [['p/__init__.py', ''], ['p/m.py', 'x = 1\n'], ['p/m/__init__.py', 'y = 2\n'], ['q/p/__init__.py', ''],
                            ['q/p/m.py', 'class K: pass\n']], 'roots': ['p', 'q/p', 'p'], 'docformat': 'epytext'})
    # every object hidden (nothing to index)
    cases.append({'files': [['solo.py', 'class K:\n    """doc"""\n']], 'docformat': 'epytext', 'args': ['--privacy=HIDDEN:solo'],
                  'tag': 'all_hidden'})
    cases.append({'files': [['solo.py', 'class K:\n    """doc"""\n'], ['other.py', 'x = 1\n']], 'docformat': 'epytext',
                  'args': ['--privacy=HIDDEN:solo']})
    # listings whose every entry is hidden (known subclasses, zope implementers / provided interfaces, bases, overrides)
    hid = ('class Base:\n    """doc"""\n    def m(self): pass\nclass _H1(Base):\n    def m(self): pass\nclass _H2(Base): pass\n'
           'class Mixed(Base): pass\nclass _H3(Mixed, _H1): pass\n'
           'from zope.interface import Interface, implementer, Attribute\nclass IThing(Interface):\n    a = Attribute("a")\n    def m(): pass\n'
           '@implementer(IThing)\nclass _HImpl:\n    def m(self): pass\nclass IHidden(Interface): pass\n@implementer(IHidden)\nclass Shown: pass\n')
    for rules in (['--privacy=HIDDEN:hid._H*'], ['--privacy=HIDDEN:hid._H*', '--privacy=HIDDEN:hid.IHidden'], ['--privacy=HIDDEN:hid.Base'],
                  ['--privacy=HIDDEN:hid.*'], ['--privacy=HIDDEN:**.m'], ['--privacy=PRIVATE:hid._H*', '--privacy=HIDDEN:hid.Mixed'],
                  ['--privacy=PUBLIC:**', '--privacy=HIDDEN:hid._H1', '--privacy=HIDDEN:hid._H2', '--privacy=HIDDEN:hid.Mixed']):
        cases.append({'files': [['hid.py', hid], ['other.py', 'from hid import Base\nclass Far(Base): pass\n']], 'docformat': 'epytext', 'args': rules})
    # definitions that are not stored under their AST name in the scope being visited when the node is departed
    cases.append({'files': [['props.py', 'class Base:\n    @property\n    def value(self): return 1\n    @value.setter\n    def value(self, v): pass\n'
                                         'class Sub(Base):\n    @Base.value.setter\n    def value(self, v): pass\n    @Base.value.deleter\n    def value(self): pass\n'
                                         '    @nosuch.other.setter\n    def other(self, v): pass\n    @Base.value.getter\n    def third(self): pass\n'
                                         'def outer():\n    class Inner:\n        def m(self): pass\n    def inner(): pass\n    return Inner, inner\n'
                                         'class A:\n    class B:\n        class C:\n            def f(self):\n                def g(): pass\n']],
                  'docformat': 'epytext'})
    # an object reparented (re-exported by a module imported from inside its body) while it is still being visited
    cases.append({'files': [['amov.py', 'class K:\n    import bmov\n    def m(self): pass\ndef f():\n    import bmov\n'
                                        'class L:\n    from bmov import z\n    class M: pass\n'],
                            ['bmov.py', 'from amov import K, L, f\n__all__ = ["K", "L", "f"]\nz = 1\n']], 'docformat': 'epytext'})
    cases.append({'files': [['zmov.py', 'class K:\n    import bmov2\n    class N:\n        def m(self): pass\n'],
                            ['bmov2.py', 'from zmov import K\n__all__ = ["K"]\n']], 'docformat': 'epytext'})
    # signatures that cannot be re-parsed (NBSP -> &nbsp;, non-XML code points) on every kind of function object:
    # plain, method, overloads (FunctionOverload is not a Documentable), property setter, class with such a constructor
    weird = ("from typing import overload, Literal\n"
             "def plain(a='x\u00a0y', b: Literal['\uffff'] = '\uffff'): pass\n"
             "@overload\ndef ov(a: int = 1, s='\u00a0') -> int: ...\n"
             "@overload\ndef ov(a: str, s: Literal['\uffff'] = '\uffff') -> str: ...\n"
             "def ov(a, s=None): return a\n"
             "class K:\n    def __init__(self, a='\u00a0', *args: 'Literal[\"\uffff\"]', **kw): pass\n"
             "    @overload\n    def m(self, a: int = 1, s='\u00a0\x0c') -> int: ...\n"
             "    @overload\n    def m(self, a: str, s='\ufffe') -> str: ...\n"
             "    def m(self, a, s=None): return a\n"
             "    @property\n    def p(self) -> 'Literal[\"\u00a0\"]': return 1\n"
             "    @p.setter\n    def p(self, v='\u00a0'): pass\n"
             "    @staticmethod\n    @overload\n    def st(a=b'\\xa0\\xff') -> int: ...\n"
             "    @staticmethod\n    def st(a=None): pass\n"
             "CONST = '\u00a0\uffff\x0c'\n")
    for df in ('epytext', 'restructuredtext', 'plaintext'):
        cases.append({'files': [['weird.py', weird]], 'docformat': df})
    cases.append({'files': [['deep.py', 'x = ' + '[' * 60 + ']' * 60 + '\n' + 'y = ' + '(' * 150 + '1' + ')' * 150 + '\n']], 'docformat': 'epytext'})
    failures = []
    hist = {}
    with ThreadPoolExecutor(max_workers=req.get('jobs', 8)) as ex:
        for f, st in ex.map(run_project, cases):
            hist[str(st)] = hist.get(str(st), 0) + 1
            if f:
                failures.append(f)
    sample = {'docformat': cases[0]['docformat'], 'files': [[n, t[:200] + '...'] for n, t in cases[0]['files']]} if cases else None
    json.dump({'projects': len(cases), 'files': nfiles, 'unparsable': unparsable, 'status_hist': hist,
               'failures': failures, 'sample': sample}, sys.stdout)

main()
