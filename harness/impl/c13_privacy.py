"""Runs the REAL System.privacyClass / Documentable.privacyClass on a tiny real System.
stdin: JSON list of cases {'rules': [[level, pattern], ...], 'queries': [query, ...]}
   query = ['obj', fullName]                  ob.privacyClass of an object built by the AST builder
         | ['vis', fullName]                  ob.isVisible     (result [0, 0/1])
         | ['isp', fullName]                  ob.isPrivate     (result [0, 0/1])
         | ['ghost', parentFullName, name]    a bare model.Documentable (kind is None) under parent
stdout: JSON list (one per case) of lists (one per query, in order, same System = same cache) of
   [fullName, name, has_kind, is_module, result, kind, parents]   result = [0, level] | [1, errcode];
   kind 0 privacyClass 1 isVisible 2 isPrivate; parents = [[fullName, name, has_kind, is_module], ...] nearest first
level: 0 HIDDEN, 1 PRIVATE, 2 PUBLIC.  errcode as in c13_qnmatch.py.
Special case {'objects': 1} -> [[fullName, name, is_module], ...] of the fixed System.
A case with a key 'history' runs a System that changes between the queries (see run_history).
An optional key 'system': 'main' (default) | 'shapes' selects the System: 'shapes' holds functions, classes, methods,
attributes, class attributes and modules whose short names enumerate every underscore shape."""
import json, re, sys, warnings
warnings.simplefilter('ignore')
from pydoctor import model

MODULES = [
    # (source, modname, parent, is_package)
    ('', 'pkg', None, True),
    ('class Cls:\n    def _p(self): pass\n    def __d__(self): pass\n    x = 1\n    class _In: pass\n'
     '_v = 2\ndef f(): pass\ndef __(): pass\ndef ___(): pass\ndef _(): pass\ndef __x(): pass\ndef x__(): pass\n', 'mod', 'pkg', False),
    ('def run(): pass\n', '__main__', 'pkg', False),
    ('class A: pass\n', '_priv', 'pkg', False),
    ('', 'sub', 'pkg', True),
    ('def __main__(): pass\n', 'deep', 'pkg.sub', False),
    ('', '__main__', None, False),
    ('def mod(): pass\nclass pkg: pass\n', 'pkg', 'pkg', False),     # pkg.pkg, pkg.pkg.mod, pkg.pkg.pkg: names that are other objects' full names
    ('_p = 1\n', 'Cls', None, False),
    ('def inside(): pass\n', '__main__', 'pkg.sub', True),     # a PACKAGE named __main__ (Package is a Module)
]


def shape_names():
    """every short-name shape: {0,1,2,3 leading underscores} x {0,1,2,3 trailing underscores} x {empty, non-empty core}"""
    out = []
    for lead in range(4):
        for trail in range(4):
            for core in ('', 'x'):
                n = '_' * lead + core + '_' * trail
                if n and n not in out:
                    out.append(n)
    return out


def shape_modules():
    names = shape_names()
    mods = [('', 'shp', None, True)]
    mods.append((''.join('def %s(): pass\n' % n for n in names), 'funcs', 'shp', False))
    mods.append((''.join('class %s: pass\n' % n for n in names), 'classes', 'shp', False))
    mods.append((''.join('%s = 1\n' % n for n in names), 'attrs', 'shp', False))
    mods.append(('class K:\n' + ''.join('    def %s(self): pass\n' % n for n in names), 'meths', 'shp', False))
    mods.append(('class K:\n' + ''.join('    %s = 1\n' % n for n in names), 'cattrs', 'shp', False))
    mods.append(('', 'mods', 'shp', True))
    for n in names:
        mods.append(('', n, 'shp.mods', False))
    return mods


SYSTEMS = {'main': lambda: MODULES, 'shapes': shape_modules}

LEVEL = {model.PrivacyClass.HIDDEN: 0, model.PrivacyClass.PRIVATE: 1, model.PrivacyClass.PUBLIC: 2}


def errcode(e):
    if isinstance(e, re.error):
        return 1 if 'bad character range' in str(e) else 2
    if isinstance(e, IndexError):
        return 5
    return [9, type(e).__name__]


def build(rules, which='main'):
    s = model.System()
    s.options.privacy = [(model.PrivacyClass(l), p) for l, p in rules]
    b = s.systemBuilder(s)
    for src, name, parent, ispkg in SYSTEMS[which]():
        b.addModuleString(src, name, parent_name=parent, is_package=ispkg)
    b.buildModules()
    return s


def run_history(c):
    """a System that changes between queries: c['history'] = {'modules': [(src, modname, parent, is_package), ...],
    'steps': [step, ...]} with step =
        ['queryall']                          ob.privacyClass of every object of system.allobjects, sorted by full name
        ['query', fullName]                   one object (skipped when no object has that name now)
        ['reparent', fullName, newModule, newName]   Documentable.reparent()
        ['module', src, modname]              a further module is added and built (an __all__ re-export moves objects)
    Returns the rows of the queries, in order (same System, same cache)."""
    h = c['history']
    s = model.System()
    s.options.privacy = [(model.PrivacyClass(l), p) for l, p in c['rules']]
    b = s.systemBuilder(s)
    for src, name, parent, ispkg in h['modules']:
        b.addModuleString(src, name, parent_name=parent, is_package=ispkg)
    b.buildModules()
    out = []

    def row(o):
        try:
            r = [0, LEVEL[o.privacyClass]]
        except Exception as e:  # noqa
            r = [1, errcode(e)]
        parents = []
        p = o.parent
        while p is not None:
            parents.append([p.fullName(), p.name, int(p.kind is not None), int(isinstance(p, model.Module))])
            p = p.parent
        out.append([o.fullName(), o.name, int(o.kind is not None), int(isinstance(o, model.Module)), r, 0, parents])
    for st in h['steps']:
        if st[0] == 'queryall':
            for k in sorted(s.allobjects):
                row(s.allobjects[k])
        elif st[0] == 'query':
            if st[1] in s.allobjects:
                row(s.allobjects[st[1]])
        elif st[0] == 'reparent':
            s.allobjects[st[1]].reparent(s.allobjects[st[2]], st[3])
        elif st[0] == 'module':
            b2 = s.systemBuilder(s)
            b2.addModuleString(st[1], st[2])
            b2.buildModules()
        else:
            raise ValueError(st)
    return out


def run_case(c):
    if 'history' in c:
        return run_history(c)
    if 'objects' in c:
        s = build([], c.get('system', 'main'))
        return [[o.fullName(), o.name, int(isinstance(o, model.Module))] for o in s.allobjects.values()]
    s = build(c['rules'], c.get('system', 'main'))
    out = []

    def desc(o):
        return [o.fullName(), o.name, int(o.kind is not None), int(isinstance(o, model.Module))]
    for q in c['queries']:
        if q[0] == 'ghost':
            o = model.Documentable(s, q[2], s.allobjects[q[1]])
        else:
            o = s.allobjects[q[1]]
        try:
            if q[0] == 'vis':
                v = o.isVisible
                r = [0, int(v)] if isinstance(v, bool) else [1, [9, 'non-bool']]
            elif q[0] == 'isp':
                v = o.isPrivate
                r = [0, int(v)] if isinstance(v, bool) else [1, [9, 'non-bool']]
            else:
                r = [0, LEVEL[o.privacyClass]]
        except Exception as e:  # noqa
            r = [1, errcode(e)]
        parents = []
        p = o.parent
        while p is not None:
            parents.append(desc(p))
            p = p.parent
        out.append(desc(o) + [r, {'vis': 1, 'isp': 2}.get(q[0], 0), parents])
    return out


if __name__ == '__main__':
    cases = json.load(sys.stdin)
    real_stdout = sys.stdout
    sys.stdout = sys.stderr              # pydoctor reports ("moving 'impl.Klass' into 'api'") on stdout
    res = [run_case(c) for c in cases]
    sys.stdout = real_stdout
    json.dump(res, sys.stdout)
