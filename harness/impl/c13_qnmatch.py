"""Runs the REAL pydoctor.qnmatch / utils.parse_privacy_tuple / re on C13 cases.
stdin: JSON list of cases [op, args...]; stdout: JSON list of observations.
  ['tr', pat]                      -> [0, regex_text] | [1, errcode]
  ['qn', pat, alphabet, maxlen]    -> [0, [packed ints]] | [1, errcode]     qnmatch(name, pat) for every name
  ['qn1', pat, name]               -> [0, 0/1] | [1, errcode]
  ['esc', text]                    -> [re.escape(c) for c in text]
  ['re', regex, name]              -> [0, 0/1] | [1, errcode]               re.compile(regex).match(name)
  ['parse', value]                 -> [0, level, pattern] | [1, kind, stderr text, exit code]   kind 1 malformatted, 2 unknown level
  ['chars', text]                  -> [[upper(c) for c], [isspace(c) for c]]
errcode: 1 re.error bad character range, 2 other re.error, 5 IndexError, [9, name] anything else."""
import io, itertools, json, re, sys, warnings, contextlib
warnings.simplefilter('ignore')          # FutureWarning "Possible set difference" etc. is not an outcome
from pydoctor import qnmatch as Q
from pydoctor import utils as U
from pydoctor import model as M


def errcode(e):
    if isinstance(e, re.error):
        return 1 if 'bad character range' in str(e) else 2
    if isinstance(e, IndexError):
        return 5
    return [9, type(e).__name__]


def pack(bs):
    out, acc, w, k = [], 0, 1, 59
    for b in bs:
        if b:
            acc += w
        if k == 0:
            out.append(acc)
            acc, w, k = 0, 1, 59
        else:
            w *= 2
            k -= 1
    out.append(acc)
    return out


_names = {}


def all_names(alpha, maxlen):
    key = (alpha, maxlen)
    if key not in _names:
        _names[key] = [''.join(t) for k in range(maxlen + 1) for t in itertools.product(alpha, repeat=k)]
    return _names[key]


def run_case(c):
    op = c[0]
    try:
        if op == 'tr':
            return [0, Q.translate(c[1])]
        if op == 'qn':
            pat = c[1]
            return [0, pack([Q.qnmatch(n, pat) for n in all_names(c[2], c[3])])]
        if op == 'qn1':
            r = Q.qnmatch(c[2], c[1])
            if not isinstance(r, bool):
                return [1, [9, 'non-bool ' + type(r).__name__]]
            return [0, int(r)]
        if op == 'esc':
            return [re.escape(ch) for ch in c[1]]
        if op == 're':
            return [0, int(re.compile(c[1]).match(c[2]) is not None)]
        if op == 'parse':
            err = io.StringIO()
            try:
                with contextlib.redirect_stderr(err), contextlib.redirect_stdout(io.StringIO()):
                    p, m = U.parse_privacy_tuple(c[1], '--privacy')
            except SystemExit as e:
                msg = err.getvalue()
                kind = 1 if 'malformatted value' in msg else 2 if 'unknown privacy value' in msg else 0
                return [1, kind, msg, e.code]
            return [0, {M.PrivacyClass.HIDDEN: 0, M.PrivacyClass.PRIVATE: 1, M.PrivacyClass.PUBLIC: 2}[p], m]
        if op == 'chars':
            return [[ch.upper() for ch in c[1]], [int(ch.isspace()) for ch in c[1]]]
        raise ValueError(op)
    except Exception as e:  # noqa
        return [1, errcode(e)]


if __name__ == '__main__':
    cases = json.load(sys.stdin)
    json.dump([run_case(c) for c in cases], sys.stdout)
