"""C01 worker A: the real System work-list machine on abstract import graphs.
case = {"mods": [[name, parse_ok, [import statements as [target_module, imported_name]], is_package, parent|None], ...],
        "order": [names]}   (order = desired order of system.unprocessed_modules)
out  = {"kind": 0, "states": [[name, st]], "reports": [names], "trace": [[tag, name]], "unproc": [...], "stack": [...]}
       or {"kind": 3, "exc": "..."} when an exception escaped process()."""
import json, sys
from pydoctor import model

ST = {model.ProcessingState.UNPROCESSED: 0, model.ProcessingState.PROCESSING: 1, model.ProcessingState.PROCESSED: 2}

def run_case(case):
    system = model.System()
    system.options.verbosity = -10
    trace = []
    reports = []
    orig_pm = system.processModule
    def pm(mod):
        trace.append([0, mod.fullName()])
        try:
            return orig_pm(mod)
        finally:
            trace.append([1, mod.fullName()])
    system.processModule = pm
    orig_msg = system.msg
    builder = system.systemBuilder(system)
    for name, ok, imps, is_pkg, parent in case['mods']:
        lines = []
        for tgt, nm in imps:
            lines.append('from %s import %s' % (tgt, nm))
        lines.append('x = 1')
        if not ok:
            lines.append('def broken(:')
        short = name.rsplit('.', 1)[-1]
        builder.addModuleString('\n'.join(lines) + '\n', short, is_package=bool(is_pkg), parent_name=parent)
    # impose the order
    byname = {m.fullName(): m for m in system.unprocessed_modules}
    system.unprocessed_modules[:] = [byname[n] for n in case['order']]
    # observe reports
    for m in byname.values():
        def mk(m):
            orig = m.report
            def rep(descr, *a, **k):
                if 'cannot parse' in descr:
                    reports.append(m.fullName())
                return orig(descr, *a, **k)
            return rep
        m.report = mk(m)
    try:
        system.process()
    except BaseException as e:  # noqa
        return {'kind': 3, 'exc': '%s: %s' % (type(e).__name__, e), 'trace': trace}
    return {'kind': 0,
            'states': [[n, ST[byname[n].state]] for n, *_ in case['mods']],
            'reports': reports, 'trace': trace,
            'unproc': [m.fullName() for m in system.unprocessed_modules],
            'stack': list(system.processing_modules)}

if __name__ == '__main__':
    import io, contextlib
    cases = json.load(sys.stdin)
    out = []
    buf = io.StringIO()
    with contextlib.redirect_stdout(buf):
        for c in cases:
            out.append(run_case(c))
    json.dump(out, sys.stdout)
