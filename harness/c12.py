"""C12 -- hidden objects leave no trace; private objects are always marked private."""
from __future__ import annotations
from c11_check import SiteCheck


class Check(SiteCheck):
    id = 'C12'
    which = 'C12'
    props_module = 'Props.C12'
    manifest = {
        'text': ('Theorems over Model/Site.v and the listing skeleton REGENERATED from /repo on every run (Gen/Listings.v): isVisible o '
                 '<-> no ancestor-or-self is HIDDEN, fuel never runs out on a well-founded tree (C12_visibility_inherits); an object '
                 'that is not visible has no page, no member anchor/detail block and no entry in any listing fed by a filtered loop '
                 '(C12_hidden_no_page_anchor_row, every producer; per-producer invariant proved once for every table with table_ok, '
                 'instantiated by listings_checked = vm_compute on the regenerated table; C12_hidden_root_row_old_refuted for the '
                 'root listings before 989b1ee); no href targets an object that '
                 'is not visible now that taglink drops it (C12_no_link_targets_hidden; C12_taglink_old_refuted for the code before '
                 'fd84d91; covers docstring cross references, whose resolver is an oracle that may return hidden objects); a `__main__` module '
                 'is PRIVATE whatever the rules say and carries the marker everywhere (C12_main_module_private, '
                 'C12_main_module_rule_ignored); every member-table row, member detail block, sidebar item, module-index item and search document of a '
                 'PRIVATE object carries the private marker (C12_private_marked, from markers_checked). Tie: set-for-set '
                 'correspondence with a crawl of the real output + an oracle that greps the whole output (files, ids, hrefs, rows '
                 'without link, all-documents, searchindex.json, objects.inv) for every hidden object and checks the marker of every '
                 'entry of every PRIVATE object.'),
        'note': ('System.privacyClass(obj) (what the --privacy rules mean: C13) is an input; Module.privacyClass (the __main__ rule) is '
                 'modelled and pinned by the translator. A hidden base named as plain text in a class '
                 'signature / classIndex external-base node / "overrides" note is not counted as an entry. Trusted: Coq kernel, '
                 'gen_listings.py, extraction, harness + crawler.'),
        'tie': 'C1x_code_*_is_model: bodies of fullName/privacyClass/isVisible/isPrivate/page_object/url/taglink translated from the current source (Gen/SiteCode.v) and proved equal to the model',
        'technique': 'Coq proof (per-producer invariant over a regenerated listing skeleton) + crawl correspondence',
    }
