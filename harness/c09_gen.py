"""Generators for C09 (no pydoctor import here): code / doctest bodies, field lists, structured documents."""
from __future__ import annotations
import itertools, random
from typing import Any, Dict, List, Optional, Tuple

# ------------------------------------------------------------------------------------------------ bodies
KEYWORDS = ['and', 'as', 'assert', 'async', 'await', 'break', 'class', 'continue', 'def', 'del', 'elif', 'else',
            'except', 'finally', 'for', 'from', 'global', 'if', 'import', 'in', 'is', 'lambda', 'nonlocal', 'not',
            'or', 'pass', 'raise', 'return', 'try', 'while', 'with', 'yield']
BUILTINS = ['abs', 'all', 'any', 'print', 'len', 'range', 'str', 'int', 'ValueError', 'dict', 'list', 'open', 'type']
IDENTS = ['x', 'y', 'foo', 'bar_1', 'Cls', 'self', 'héllo', 'αβ', 'n2', '_p', 'deffered', 'classy', 'printer',
          'x.print', 'a.len', 'None', 'True']
OPS = ['=', '==', '+', '-', '*', '(', ')', '[', ']', '{', '}', ':', ',', '.', '->', '<', '>', '>>', '%', '@', '\\']
NUMS = ['0', '1', '42', '3.14', '0x1f', '1e-3']
SMALL_ALPHABET = ['"', "'", '\n', '.', ' ', 'a', '#', '>', 'd', '\t']


def rand_string_lit(rng: random.Random) -> str:
    q = rng.choice(['"', "'", '"""', "'''", '"', "'"])
    inner_pool = ['a', 'b c', '\\n', '\\\\', '\\' + q[0], ' ', '#no', '>>> x', '...', 'it' + ("'" if q[0] == '"' else '"') + 's',
                  'é', '{0}', '%s', '']
    parts = [rng.choice(inner_pool) for _ in range(rng.randint(0, 4))]
    if len(q) == 3 and rng.random() < 0.7:
        lines = []
        for _ in range(rng.randint(1, 4)):
            pre = rng.choice(['', '', '    ', '... ', '    ... ', '...', '\t...\t', '....', '... ...'])
            lines.append(pre + ' '.join(rng.choice(inner_pool) for _ in range(rng.randint(0, 3))))
        body = '\n'.join(lines)
        if rng.random() < 0.3:
            body += '\n'
        return q + body + q
    s = q + ''.join(parts) + q
    if rng.random() < 0.08:
        s = s[:-len(q)]          # unterminated
    return s


def rand_code_line(rng: random.Random) -> str:
    r = rng.random()
    indent = rng.choice(['', '', '    ', '        ', '\t'])
    if r < 0.15:
        kw = rng.choice(['def', 'class', 'async def'])
        sp = rng.choice([' ', '  ', '\t', ' \t '])
        name = rng.choice(IDENTS + ['__init__', 'C2', 'über'])
        tail = rng.choice(['():', '(self, x=1):', ':', '(Base):', '', '(a,\n        b):'])
        return indent + kw + sp + name + tail
    if r < 0.25:
        return indent + '#' + rng.choice(['', ' comment', ' doctest: +SKIP', ' "quoted" in comment', " it's", ' éè'])
    toks = []
    for _ in range(rng.randint(1, 7)):
        k = rng.random()
        if k < 0.2:
            toks.append(rng.choice(KEYWORDS))
        elif k < 0.35:
            toks.append(rng.choice(BUILTINS))
        elif k < 0.55:
            toks.append(rng.choice(IDENTS))
        elif k < 0.7:
            toks.append(rng.choice(OPS))
        elif k < 0.8:
            toks.append(rng.choice(NUMS))
        else:
            toks.append(rand_string_lit(rng))
    sep = rng.choice([' ', ' ', '', '  '])
    line = indent + sep.join(toks)
    if rng.random() < 0.2:
        line += rng.choice(['  # trailing', ' #', '  ', '\t'])
    return line


def rand_codeblock(rng: random.Random) -> str:
    n = rng.randint(0, 8)
    lines = []
    for _ in range(n):
        if rng.random() < 0.1:
            lines.append('')
        elif rng.random() < 0.1:
            lines.append(rng.choice(['>>> ', '... ', '>>>', '...', '  >>> x', '  ... y']) + rand_code_line(rng).strip())
        else:
            lines.append(rand_code_line(rng))
    s = '\n'.join(lines)
    if rng.random() < 0.5:
        s += '\n'
    return s


def rand_doctest(rng: random.Random) -> str:
    out: List[str] = []
    for _ in range(rng.randint(1, 4)):
        if rng.random() < 0.4:
            out.append(rng.choice(['Some text before.', '', 'Example:', '   indented words', '  ']))
        ind = rng.choice(['', '', '    ', '  '])
        out.append(ind + '>>> ' + rand_code_line(rng).strip())
        for _ in range(rng.randint(0, 2)):
            out.append(ind + rng.choice(['... ', '...', '...  ']) + rand_code_line(rng).strip())
        k = rng.random()
        if k < 0.25:
            pass
        elif k < 0.45:
            out.append(ind + 'Traceback (most recent call last):')
            out.append(ind + '    ...')
            out.append(ind + 'ValueError: bad ' + rng.choice(['value', '"x"', '<tag> & more']))
        else:
            for _ in range(rng.randint(1, 3)):
                out.append(ind + rng.choice(['42', "'text'", '[1, 2, 3]', '<object at 0x1>', 'a  b', 'x &amp; y', 'été',
                                             '...', 'trailing   ', 'tab\tsep', '\tonlytab', '{}']))
        if rng.random() < 0.25:
            out[-1] = out[-1] + rng.choice(['  ', '\t', ' \t '])
        if rng.random() < 0.5:
            out.append('')
    s = '\n'.join(out)
    if rng.random() < 0.5:
        s += rng.choice(['\n', '\n\n', '  \n'])
    return s


def rand_junk(rng: random.Random, n: int) -> str:
    pool = SMALL_ALPHABET + ['e', 'f', ' ', '\n', '(', ':', '\\', 'é', 'class', 'def', '>>>', '...', '"""', "'''",
                             'print', 'in', '\r', '\x0c', ' ', 'Traceback (most recent call last):']
    return ''.join(rng.choice(pool) for _ in range(n))


def small_strings(maxlen: int, alphabet: List[str]) -> List[str]:
    out = ['']
    for n in range(1, maxlen + 1):
        for t in itertools.product(alphabet, repeat=n):
            out.append(''.join(t))
    return out


BODY_CORPUS = [
    (0, ''), (0, '\n'), (0, 'x'), (0, 'def f(): pass'), (0, 'class  Cé(Base):\n    pass\n'), (0, 'def\tf'),
    (0, '"""doc\n... more\n    ... again\n\n"""'), (0, "'''a\n...\n...b\n... c'''"), (0, '"unterminated'), (0, "'"),
    (0, 'x = "a" "b" # c\n'), (0, '# only comment'), (0, 'print(len(x)) if x in y else None'), (0, 'a.print(b.len)'),
    (0, '>>> x\n... y\nout\n'), (0, 'def'), (0, 'class'), (0, 'def 1x'), (0, 'undefined = classy'),
    (0, 's = """\n"""'), (0, 's = """\n\n"""'), (0, '"""..."""'), (0, '"""\n...\n"""'), (0, '"""\n... \n"""'),
    (0, 'def f(a,\n      b):\n    return """x\n    ... y"""\n'), (0, 'x\r\ny'), (0, ' "a b"'),
    (1, ''), (1, '>>> 1\n1\n'), (1, '>>> 1\n1'), (1, '>>> 1\n1  \n'), (1, '>>> 1\n1\n\n\n'), (1, 'text\n>>> f()\n... g()\nout\n\nmore text\n'),
    (1, '    >>> raise E\n    Traceback (most recent call last):\n        ...\n    E: x\n'), (1, '>>> a\n\tb\n'), (1, '>>> a\n1\n\t\n'),
    (1, '>>>'), (1, '>>> '), (1, '>>>x'), (1, 'no example at all\n'), (1, '>>> s = """a\n... b"""\n>>> s\n\'a\\nb\'\n'),
    (1, '>>> def f():\n...     pass\n>>> class C: pass\n'), (1, '>>> x\n<b>&amp;</b>\n'), (1, '  >>> a\n  1\n>>> b\n2\n'),
    (1, '>>> a\nout  \n'), (1, '>>> a\nout\x0c\n'), (1, '>>> a\nout\n  \n>>> b\n'),
]

# ------------------------------------------------------------------------------------------------ field lists
FIELD_TAGS = ['arg', 'author', 'cvar', 'except', 'ivar', 'keyword', 'note', 'param', 'raise', 'raises', 'return', 'returns',
              'returntype', 'rtype', 'see', 'seealso', 'since', 'type', 'var', 'warn', 'warns', 'yield', 'yields',
              'yieldtype', 'ytype']
UNKNOWN_TAGS = ['custom', 'todo', 'newfield', 'Param', 'd_elsewhere', 'le_param', 'returns_']
PARAM_POOL = ['a', 'b', 'c', 'x', 'self', 'cls', 'args', 'kw', 'value', 'né']


def rand_sig(rng: random.Random, method: int) -> List[List[Any]]:
    names = rng.sample(PARAM_POOL, rng.randint(0, 5))
    if method == 1 and rng.random() < 0.8:
        names = ['self'] + [n for n in names if n != 'self']
    if method == 2 and rng.random() < 0.8:
        names = ['cls'] + [n for n in names if n != 'cls']
    sig: List[List[Any]] = []
    pos = [n for n in names]
    nvar = rng.random() < 0.4
    nkw = rng.random() < 0.5
    split = rng.randint(0, len(pos))
    for n in pos[:split]:
        sig.append([n, 0, rng.random() < 0.4])
    if nvar and 'args' not in [p[0] for p in sig] and 'args' not in pos[split:]:
        sig.append(['args', 1, rng.random() < 0.3])
        for n in pos[split:]:
            sig.append([n, 0, rng.random() < 0.4])
    if nkw and 'kw' not in [p[0] for p in sig]:
        sig.append(['kw', 2, rng.random() < 0.3])
    return sig


def rand_field(rng: random.Random, sig: List[List[Any]], prev: List[List[Any]]) -> List[Any]:
    r = rng.random()
    if r < 0.08:
        tag = rng.choice(UNKNOWN_TAGS)
    elif r < 0.55:
        tag = rng.choice(['param', 'param', 'type', 'keyword', 'arg', 'return', 'rtype', 'raises', 'yield', 'ytype', 'returns'])
    else:
        tag = rng.choice(FIELD_TAGS)
    k = rng.random()
    names = [p[0] for p in sig]
    if tag in ('param', 'arg', 'type', 'keyword', 'ivar', 'cvar', 'var') and k < 0.9 or k < 0.15:
        j = rng.random()
        if prev and j < 0.25:
            cand = [f[1] for f in prev if f[1] is not None]
            arg = rng.choice(cand) if cand else 'zz'
        elif names and j < 0.75:
            n = rng.choice(sig)
            arg = n[0]
            if n[1] and rng.random() < 0.5:
                arg = '*' * n[1] + arg
        else:
            arg = rng.choice(['zz', 'other', '*stars', '**kwargs', 'return', '*', 'self', 'ValueError', 'a.b.C'])
    elif tag in ('raise', 'raises', 'except', 'warn', 'warns') and k < 0.85:
        arg = rng.choice(['ValueError', 'KeyError', 'a.b.C', 'x'])
    else:
        arg = None
    return [tag, arg]


def rand_field_case(rng: random.Random) -> Dict[str, Any]:
    obj = rng.choice([0, 0, 0, 1, 1, 2, 3, 4, 4, 5, 6])
    case: Dict[str, Any] = {'obj': obj, 'sig': [], 'ret': 0, 'ctor': None, 'unknown_base': False, 'gn': rng.random() < 0.3,
                            'fields': []}
    if obj <= 3:
        case['sig'] = rand_sig(rng, obj)
        case['ret'] = rng.choice([0, 0, 1, 2, 2])
    sig_for_fields = case['sig']
    if obj == 4:
        if rng.random() < 0.7:
            case['ctor'] = [[p[0], p[1]] for p in rand_sig(rng, 1)]
            sig_for_fields = case['ctor']
        case['unknown_base'] = rng.random() < 0.25
    fields: List[List[Any]] = []
    for _ in range(rng.randint(0, 7)):
        fields.append(rand_field(rng, sig_for_fields, fields))
    case['fields'] = fields
    return case


def exhaustive_field_cases(maxlen: int) -> List[Dict[str, Any]]:
    """Every field list of <= maxlen fields over (every handler tag + 2 unknown tags) x 4 arguments, on a function
    f(a, *args, **kw) -> T, a method m(self, a), a class with __init__(self, a) and an attribute."""
    tags = FIELD_TAGS + ['custom', 'todo']
    args = [None, 'a', 'zz', '**kw']
    atoms = [[t, a] for t in tags for a in args]
    envs = [
        {'obj': 0, 'sig': [['a', 0, True], ['args', 1, False], ['kw', 2, False]], 'ret': 2, 'ctor': None,
         'unknown_base': False, 'gn': False},
        {'obj': 1, 'sig': [['self', 0, False], ['a', 0, False]], 'ret': 0, 'ctor': None, 'unknown_base': False, 'gn': True},
    ]
    envs1 = envs + [
        {'obj': 4, 'sig': [], 'ret': 0, 'ctor': [['self', 0], ['a', 0]], 'unknown_base': False, 'gn': False},
        {'obj': 6, 'sig': [], 'ret': 0, 'ctor': None, 'unknown_base': False, 'gn': False},
        {'obj': 5, 'sig': [], 'ret': 0, 'ctor': None, 'unknown_base': False, 'gn': False},
        {'obj': 2, 'sig': [['cls', 0, False], ['kw', 2, True]], 'ret': 1, 'ctor': None, 'unknown_base': False, 'gn': False},
    ]
    out: List[Dict[str, Any]] = []
    for e in envs1:
        out.append(dict(e, fields=[]))
        for a in atoms:
            out.append(dict(e, fields=[a]))
    if maxlen >= 2:
        for e in envs:
            for a in atoms:
                for b in atoms:
                    out.append(dict(e, fields=[a, b]))
    return out


FIELD_CORPUS: List[Dict[str, Any]] = [
    {'obj': 0, 'sig': [['x', 0, False]], 'ret': 0, 'ctor': None, 'unknown_base': False, 'gn': False,
     'fields': [['return', None], ['return', None]]},
    {'obj': 0, 'sig': [['x', 0, False]], 'ret': 0, 'ctor': None, 'unknown_base': False, 'gn': False,
     'fields': [['rtype', None], ['rtype', None]]},
    {'obj': 0, 'sig': [['x', 0, False]], 'ret': 0, 'ctor': None, 'unknown_base': False, 'gn': False,
     'fields': [['param', 'x'], ['type', 'x'], ['type', 'x']]},
    {'obj': 0, 'sig': [['x', 0, False]], 'ret': 0, 'ctor': None, 'unknown_base': False, 'gn': False,
     'fields': [['ivar', 'x']]},
    {'obj': 0, 'sig': [['x', 0, False], ['kw', 2, False]], 'ret': 0, 'ctor': None, 'unknown_base': False, 'gn': False,
     'fields': [['keyword', 'k'], ['keyword', 'k']]},
    {'obj': 0, 'sig': [['x', 0, False], ['kw', 2, False]], 'ret': 0, 'ctor': None, 'unknown_base': False, 'gn': False,
     'fields': [['param', 'x'], ['param', 'x']]},
    {'obj': 1, 'sig': [['self', 0, False], ['a', 0, True], ['args', 1, False], ['b', 0, False], ['kw', 2, True]], 'ret': 2,
     'ctor': None, 'unknown_base': False, 'gn': False,
     'fields': [['param', 'b'], ['param', 'zz'], ['keyword', 'k1'], ['param', 'a'], ['type', 'kw'], ['return', None]]},
    {'obj': 1, 'sig': [['self', 0, False], ['kw', 2, False]], 'ret': 0, 'ctor': None, 'unknown_base': False, 'gn': False,
     'fields': [['keyword', 'k1'], ['param', 'self']]},
    {'obj': 0, 'sig': [['kw', 2, False]], 'ret': 0, 'ctor': None, 'unknown_base': False, 'gn': False,
     'fields': [['keyword', 'k1']]},
    {'obj': 0, 'sig': [['kw', 2, False]], 'ret': 0, 'ctor': None, 'unknown_base': False, 'gn': False,
     'fields': [['keyword', 'k1'], ['type', 'kw']]},
    {'obj': 0, 'sig': [['a', 0, False]], 'ret': 0, 'ctor': None, 'unknown_base': False, 'gn': False,
     'fields': [['param', '*'], ['custom', ''], ['raises', None], ['warns', None], ['warns', 'W']]},
    {'obj': 4, 'sig': [], 'ret': 0, 'ctor': [['self', 0], ['a', 0], ['kw', 2]], 'unknown_base': False, 'gn': False,
     'fields': [['param', 'a'], ['param', 'zz'], ['keyword', 'k'], ['type', 'a'], ['ivar', 'v'], ['param', '**kw']]},
    {'obj': 4, 'sig': [], 'ret': 0, 'ctor': None, 'unknown_base': True, 'gn': False, 'fields': [['param', 'zz']]},
    {'obj': 6, 'sig': [], 'ret': 0, 'ctor': None, 'unknown_base': False, 'gn': False,
     'fields': [['type', None], ['type', 'x'], ['note', None]]},
]
