"""Generators for C09 (no pydoctor import here): code / doctest bodies, field lists, structured documents."""
from __future__ import annotations
import itertools, random
from typing import Any, Dict, List, Optional, Tuple

# ------------------------------------------------------------------------------------------------ bodies
KEYWORDS = ['and', 'as', 'assert', 'async', 'await', 'break', 'class', 'continue', 'def', 'del', 'elif', 'else',
            'except', 'finally', 'for', 'from', 'global', 'if', 'import', 'in', 'is', 'lambda', 'nonlocal', 'not',
            'or', 'pass', 'raise', 'return', 'try', 'while', 'with', 'yield']
BUILTINS = ['abs', 'all', 'any', 'print', 'len', 'range', 'str', 'int', 'ValueError', 'dict', 'list', 'open', 'type']
IDENTS = ['x', 'y', 'foo', 'bar_1', 'Cls', 'self', 'héllo', 'αβ', 'n2', '_p', 'deffered', 'classy', 'printer',
          'x.print', 'a.len', 'None', 'True']
OPS = ['=', '==', '+', '-', '*', '(', ')', '[', ']', '{', '}', ':', ',', '.', '->', '<', '>', '>>', '%', '@', '\\']
NUMS = ['0', '1', '42', '3.14', '0x1f', '1e-3']
SMALL_ALPHABET = ['"', "'", '\n', '.', ' ', 'a', '#', '>', 'd', '\t']


def rand_string_lit(rng: random.Random) -> str:
    q = rng.choice(['"', "'", '"""', "'''", '"', "'"])
    inner_pool = ['a', 'b c', '\\n', '\\\\', '\\' + q[0], ' ', '#no', '>>> x', '...', 'it' + ("'" if q[0] == '"' else '"') + 's',
                  'é', '{0}', '%s', '']
    parts = [rng.choice(inner_pool) for _ in range(rng.randint(0, 4))]
    if len(q) == 3 and rng.random() < 0.7:
        lines = []
        for _ in range(rng.randint(1, 4)):
            pre = rng.choice(['', '', '    ', '... ', '    ... ', '...', '\t...\t', '....', '... ...'])
            lines.append(pre + ' '.join(rng.choice(inner_pool) for _ in range(rng.randint(0, 3))))
        body = '\n'.join(lines)
        if rng.random() < 0.3:
            body += '\n'
        return q + body + q
    s = q + ''.join(parts) + q
    if rng.random() < 0.08:
        s = s[:-len(q)]          # unterminated
    return s


def rand_code_line(rng: random.Random) -> str:
    r = rng.random()
    indent = rng.choice(['', '', '    ', '        ', '\t'])
    if r < 0.15:
        kw = rng.choice(['def', 'class', 'async def'])
        sp = rng.choice([' ', '  ', '\t', ' \t '])
        name = rng.choice(IDENTS + ['__init__', 'C2', 'über'])
        tail = rng.choice(['():', '(self, x=1):', ':', '(Base):', '', '(a,\n        b):'])
        return indent + kw + sp + name + tail
    if r < 0.25:
        return indent + '#' + rng.choice(['', ' comment', ' doctest: +SKIP', ' "quoted" in comment', " it's", ' éè'])
    toks = []
    for _ in range(rng.randint(1, 7)):
        k = rng.random()
        if k < 0.2:
            toks.append(rng.choice(KEYWORDS))
        elif k < 0.35:
            toks.append(rng.choice(BUILTINS))
        elif k < 0.55:
            toks.append(rng.choice(IDENTS))
        elif k < 0.7:
            toks.append(rng.choice(OPS))
        elif k < 0.8:
            toks.append(rng.choice(NUMS))
        else:
            toks.append(rand_string_lit(rng))
    sep = rng.choice([' ', ' ', '', '  '])
    line = indent + sep.join(toks)
    if rng.random() < 0.2:
        line += rng.choice(['  # trailing', ' #', '  ', '\t'])
    return line


def rand_codeblock(rng: random.Random) -> str:
    n = rng.randint(0, 8)
    lines = []
    for _ in range(n):
        if rng.random() < 0.1:
            lines.append('')
        elif rng.random() < 0.1:
            lines.append(rng.choice(['>>> ', '... ', '>>>', '...', '  >>> x', '  ... y']) + rand_code_line(rng).strip())
        else:
            lines.append(rand_code_line(rng))
    s = '\n'.join(lines)
    if rng.random() < 0.5:
        s += '\n'
    return s


def rand_doctest(rng: random.Random) -> str:
    out: List[str] = []
    for _ in range(rng.randint(1, 4)):
        if rng.random() < 0.4:
            out.append(rng.choice(['Some text before.', '', 'Example:', '   indented words', '  ']))
        ind = rng.choice(['', '', '    ', '  '])
        out.append(ind + '>>> ' + rand_code_line(rng).strip())
        for _ in range(rng.randint(0, 2)):
            out.append(ind + rng.choice(['... ', '...', '...  ']) + rand_code_line(rng).strip())
        k = rng.random()
        if k < 0.25:
            pass
        elif k < 0.45:
            out.append(ind + 'Traceback (most recent call last):')
            out.append(ind + '    ...')
            out.append(ind + 'ValueError: bad ' + rng.choice(['value', '"x"', '<tag> & more']))
        else:
            for _ in range(rng.randint(1, 3)):
                out.append(ind + rng.choice(['42', "'text'", '[1, 2, 3]', '<object at 0x1>', 'a  b', 'x &amp; y', 'été',
                                             '...', 'trailing   ', 'tab\tsep', '\tonlytab', '{}']))
        if rng.random() < 0.25:
            out[-1] = out[-1] + rng.choice(['  ', '\t', ' \t '])
        if rng.random() < 0.5:
            out.append('')
    s = '\n'.join(out)
    if rng.random() < 0.5:
        s += rng.choice(['\n', '\n\n', '  \n'])
    return s


def rand_junk(rng: random.Random, n: int) -> str:
    pool = SMALL_ALPHABET + ['e', 'f', ' ', '\n', '(', ':', '\\', 'é', 'class', 'def', '>>>', '...', '"""', "'''",
                             'print', 'in', '\r', '\x0c', ' ', 'Traceback (most recent call last):']
    return ''.join(rng.choice(pool) for _ in range(n))


def small_strings(maxlen: int, alphabet: List[str]) -> List[str]:
    out = ['']
    for n in range(1, maxlen + 1):
        for t in itertools.product(alphabet, repeat=n):
            out.append(''.join(t))
    return out


BODY_CORPUS = [
    (0, ''), (0, '\n'), (0, 'x'), (0, 'def f(): pass'), (0, 'class  Cé(Base):\n    pass\n'), (0, 'def\tf'),
    (0, '"""doc\n... more\n    ... again\n\n"""'), (0, "'''a\n...\n...b\n... c'''"), (0, '"unterminated'), (0, "'"),
    (0, 'x = "a" "b" # c\n'), (0, '# only comment'), (0, 'print(len(x)) if x in y else None'), (0, 'a.print(b.len)'),
    (0, '>>> x\n... y\nout\n'), (0, 'def'), (0, 'class'), (0, 'def 1x'), (0, 'undefined = classy'),
    (0, 's = """\n"""'), (0, 's = """\n\n"""'), (0, '"""..."""'), (0, '"""\n...\n"""'), (0, '"""\n... \n"""'),
    (0, 'def f(a,\n      b):\n    return """x\n    ... y"""\n'), (0, 'x\r\ny'), (0, ' "a b"'),
    (1, ''), (1, '>>> 1\n1\n'), (1, '>>> 1\n1'), (1, '>>> 1\n1  \n'), (1, '>>> 1\n1\n\n\n'), (1, 'text\n>>> f()\n... g()\nout\n\nmore text\n'),
    (1, '    >>> raise E\n    Traceback (most recent call last):\n        ...\n    E: x\n'), (1, '>>> a\n\tb\n'), (1, '>>> a\n1\n\t\n'),
    (1, '>>>'), (1, '>>> '), (1, '>>>x'), (1, 'no example at all\n'), (1, '>>> s = """a\n... b"""\n>>> s\n\'a\\nb\'\n'),
    (1, '>>> def f():\n...     pass\n>>> class C: pass\n'), (1, '>>> x\n<b>&amp;</b>\n'), (1, '  >>> a\n  1\n>>> b\n2\n'),
    (1, '>>> a\nout  \n'), (1, '>>> a\nout\x0c\n'), (1, '>>> a\nout\n  \n>>> b\n'),
]

# ------------------------------------------------------------------------------------------------ field lists
FIELD_TAGS = ['arg', 'author', 'cvar', 'except', 'ivar', 'keyword', 'note', 'param', 'raise', 'raises', 'return', 'returns',
              'returntype', 'rtype', 'see', 'seealso', 'since', 'type', 'var', 'warn', 'warns', 'yield', 'yields',
              'yieldtype', 'ytype']
UNKNOWN_TAGS = ['custom', 'todo', 'newfield', 'Param', 'd_elsewhere', 'le_param', 'returns_']
PARAM_POOL = ['a', 'b', 'c', 'x', 'self', 'cls', 'args', 'kw', 'value', 'né']


def rand_sig(rng: random.Random, method: int) -> List[List[Any]]:
    names = rng.sample(PARAM_POOL, rng.randint(0, 5))
    if method == 1 and rng.random() < 0.8:
        names = ['self'] + [n for n in names if n != 'self']
    if method == 2 and rng.random() < 0.8:
        names = ['cls'] + [n for n in names if n != 'cls']
    sig: List[List[Any]] = []
    pos = [n for n in names]
    nvar = rng.random() < 0.4
    nkw = rng.random() < 0.5
    split = rng.randint(0, len(pos))
    for n in pos[:split]:
        sig.append([n, 0, rng.random() < 0.4])
    if nvar and 'args' not in [p[0] for p in sig] and 'args' not in pos[split:]:
        sig.append(['args', 1, rng.random() < 0.3])
        for n in pos[split:]:
            sig.append([n, 0, rng.random() < 0.4])
    if nkw and 'kw' not in [p[0] for p in sig]:
        sig.append(['kw', 2, rng.random() < 0.3])
    return sig


def rand_field(rng: random.Random, sig: List[List[Any]], prev: List[List[Any]]) -> List[Any]:
    r = rng.random()
    if r < 0.08:
        tag = rng.choice(UNKNOWN_TAGS)
    elif r < 0.55:
        tag = rng.choice(['param', 'param', 'type', 'keyword', 'arg', 'return', 'rtype', 'raises', 'yield', 'ytype', 'returns'])
    else:
        tag = rng.choice(FIELD_TAGS)
    k = rng.random()
    names = [p[0] for p in sig]
    if tag in ('param', 'arg', 'type', 'keyword', 'ivar', 'cvar', 'var') and k < 0.9 or k < 0.15:
        j = rng.random()
        if prev and j < 0.25:
            cand = [f[1] for f in prev if f[1] is not None]
            arg = rng.choice(cand) if cand else 'zz'
        elif names and j < 0.75:
            n = rng.choice(sig)
            arg = n[0]
            if n[1] and rng.random() < 0.5:
                arg = '*' * n[1] + arg
        else:
            arg = rng.choice(['zz', 'other', '*stars', '**kwargs', 'return', '*', 'self', 'ValueError', 'a.b.C'])
    elif tag in ('raise', 'raises', 'except', 'warn', 'warns') and k < 0.85:
        arg = rng.choice(['ValueError', 'KeyError', 'a.b.C', 'x'])
    else:
        arg = None
    return [tag, arg]


def rand_field_case(rng: random.Random) -> Dict[str, Any]:
    obj = rng.choice([0, 0, 0, 1, 1, 2, 3, 4, 4, 5, 6])
    case: Dict[str, Any] = {'obj': obj, 'sig': [], 'ret': 0, 'ctor': None, 'unknown_base': False, 'gn': rng.random() < 0.3,
                            'fields': []}
    if obj <= 3:
        case['sig'] = rand_sig(rng, obj)
        case['ret'] = rng.choice([0, 0, 1, 2, 2])
    sig_for_fields = case['sig']
    if obj == 4:
        if rng.random() < 0.7:
            case['ctor'] = [[p[0], p[1]] for p in rand_sig(rng, 1)]
            sig_for_fields = case['ctor']
        case['unknown_base'] = rng.random() < 0.25
    fields: List[List[Any]] = []
    for _ in range(rng.randint(0, 7)):
        fields.append(rand_field(rng, sig_for_fields, fields))
    case['fields'] = fields
    return case


def exhaustive_field_cases(maxlen: int) -> List[Dict[str, Any]]:
    """Every field list of <= maxlen fields over (every handler tag + 2 unknown tags) x 4 arguments, on a function
    f(a, *args, **kw) -> T, a method m(self, a), a class with __init__(self, a) and an attribute."""
    tags = FIELD_TAGS + ['custom', 'todo']
    args = [None, 'a', 'zz', '**kw']
    atoms = [[t, a] for t in tags for a in args]
    envs = [
        {'obj': 0, 'sig': [['a', 0, True], ['args', 1, False], ['kw', 2, False]], 'ret': 2, 'ctor': None,
         'unknown_base': False, 'gn': False},
        {'obj': 1, 'sig': [['self', 0, False], ['a', 0, False]], 'ret': 0, 'ctor': None, 'unknown_base': False, 'gn': True},
    ]
    envs1 = envs + [
        {'obj': 4, 'sig': [], 'ret': 0, 'ctor': [['self', 0], ['a', 0]], 'unknown_base': False, 'gn': False},
        {'obj': 6, 'sig': [], 'ret': 0, 'ctor': None, 'unknown_base': False, 'gn': False},
        {'obj': 5, 'sig': [], 'ret': 0, 'ctor': None, 'unknown_base': False, 'gn': False},
        {'obj': 2, 'sig': [['cls', 0, False], ['kw', 2, True]], 'ret': 1, 'ctor': None, 'unknown_base': False, 'gn': False},
    ]
    out: List[Dict[str, Any]] = []
    for e in envs1:
        out.append(dict(e, fields=[]))
        for a in atoms:
            out.append(dict(e, fields=[a]))
    if maxlen >= 2:
        for e in envs:
            for a in atoms:
                for b in atoms:
                    out.append(dict(e, fields=[a, b]))
    return out


FIELD_CORPUS: List[Dict[str, Any]] = [
    {'obj': 0, 'sig': [['x', 0, False]], 'ret': 0, 'ctor': None, 'unknown_base': False, 'gn': False,
     'fields': [['return', None], ['return', None]]},
    {'obj': 0, 'sig': [['x', 0, False]], 'ret': 0, 'ctor': None, 'unknown_base': False, 'gn': False,
     'fields': [['rtype', None], ['rtype', None]]},
    {'obj': 0, 'sig': [['x', 0, False]], 'ret': 0, 'ctor': None, 'unknown_base': False, 'gn': False,
     'fields': [['param', 'x'], ['type', 'x'], ['type', 'x']]},
    {'obj': 0, 'sig': [['x', 0, False]], 'ret': 0, 'ctor': None, 'unknown_base': False, 'gn': False,
     'fields': [['ivar', 'x']]},
    {'obj': 0, 'sig': [['x', 0, False], ['kw', 2, False]], 'ret': 0, 'ctor': None, 'unknown_base': False, 'gn': False,
     'fields': [['keyword', 'k'], ['keyword', 'k']]},
    {'obj': 0, 'sig': [['x', 0, False], ['kw', 2, False]], 'ret': 0, 'ctor': None, 'unknown_base': False, 'gn': False,
     'fields': [['param', 'x'], ['param', 'x']]},
    {'obj': 1, 'sig': [['self', 0, False], ['a', 0, True], ['args', 1, False], ['b', 0, False], ['kw', 2, True]], 'ret': 2,
     'ctor': None, 'unknown_base': False, 'gn': False,
     'fields': [['param', 'b'], ['param', 'zz'], ['keyword', 'k1'], ['param', 'a'], ['type', 'kw'], ['return', None]]},
    {'obj': 1, 'sig': [['self', 0, False], ['kw', 2, False]], 'ret': 0, 'ctor': None, 'unknown_base': False, 'gn': False,
     'fields': [['keyword', 'k1'], ['param', 'self']]},
    {'obj': 0, 'sig': [['kw', 2, False]], 'ret': 0, 'ctor': None, 'unknown_base': False, 'gn': False,
     'fields': [['keyword', 'k1']]},
    {'obj': 0, 'sig': [['kw', 2, False]], 'ret': 0, 'ctor': None, 'unknown_base': False, 'gn': False,
     'fields': [['keyword', 'k1'], ['type', 'kw']]},
    {'obj': 0, 'sig': [['a', 0, False]], 'ret': 0, 'ctor': None, 'unknown_base': False, 'gn': False,
     'fields': [['param', '*'], ['custom', ''], ['raises', None], ['warns', None], ['warns', 'W']]},
    {'obj': 4, 'sig': [], 'ret': 0, 'ctor': [['self', 0], ['a', 0], ['kw', 2]], 'unknown_base': False, 'gn': False,
     'fields': [['param', 'a'], ['param', 'zz'], ['keyword', 'k'], ['type', 'a'], ['ivar', 'v'], ['param', '**kw']]},
    {'obj': 4, 'sig': [], 'ret': 0, 'ctor': None, 'unknown_base': True, 'gn': False, 'fields': [['param', 'zz']]},
    {'obj': 1, 'sig': [], 'ret': 1, 'ctor': None, 'unknown_base': False, 'gn': False,
     'fields': [['param', '*'], ['type', 'self'], ['type', 'self'], ['returns', None]]},
    {'obj': 2, 'sig': [], 'ret': 0, 'ctor': None, 'unknown_base': False, 'gn': False, 'fields': [['type', 'cls']]},
    {'obj': 6, 'sig': [], 'ret': 0, 'ctor': None, 'unknown_base': False, 'gn': False,
     'fields': [['type', None], ['type', 'x'], ['note', None]]},
]


# ------------------------------------------------------------------------------------------------ documents
# A document is what the author MEANT, independently of any markup:
#   doc    := {"obj": "func"|"class"|"module", "sig": [param names], "blocks": [block], "fields": [field]}
#   block  := ["para", [inline]] | ["ulist", [[block]]] | ["olist", [[block]]] | ["literal", [inline], text]
#           | ["doctest", text] | ["code", text] | ["section", [word], [block]]
#   inline := ["w", word] | ["b", [word]] | ["i", [word]] | ["c", text] | ["link", [word], url]
#   field  := [kind, name|None, [inline], typewords|None]
# kinds: param, return, raises, ivar, cvar, var, note, see, author, since, keyword, yield, warns
WORDS = ['alpha', 'beta', 'Gamma', 'delta42', 'naïve', 'über', 'x_y', 'foo.bar', 'end.', 'comma,', '(paren)', 'a<b', 'R&D',
         '&amp;', '<tag>', 'semi;', 'quo"te', "it's", 'per%cent', 'hash#tag', 'plus+', 'eq=', 'slash/', 'q?', 'ex!', 'tilde~',
         '100', '3.14', 'CamelCase', 'ALLCAPS', 'mid-dash', 'Ünï', '日本', 'z']
SAFE_WORDS = ['alpha', 'beta', 'Gamma', 'delta42', 'naïve', 'x_y', 'foo.bar', 'end.', 'comma,', 'CamelCase', 'z', '100', 'über']
URLS = ['http://example.org/a', 'https://ex.org/p?q=1', 'http://x.y/z_1']
CODE_LINES = ['x = 1', 'def f(a, b=2):', '    return a < b and "s" or None', 'print("hello <world> & co")', 'class C(Base): pass',
              '# a comment', 's = """tri', '... ple"""', 'for i in range(3):', '    total += i  # acc', "d = {'k': [1, 2]}", '',
              'if x > 1 & y:', '    y = x % 2', 'lambda: None', '@decorator', 'assert x, "msg"']
LITERAL_LINES = ['raw text *not bold*', '  indented  more', 'B{not markup} `x` :role:`y`', '<b>html</b> &lt;', 'tab\there', '',
                 'x = {1: 2}', '@notafield: z', ':notafield: z', '>>> not a doctest', '- not a list', 'trailing \\', 'ünï日本']
DOCTEST_OUT = ['42', "'text'", '[1, 2, 3]', '<object at 0x1>', 'x &amp; y', 'été', 'a  b', '{}', 'True']


def gen_words(rng: random.Random, n: int, pool: List[str] = WORDS) -> List[str]:
    return [rng.choice(pool) for _ in range(n)]


def gen_inlines(rng: random.Random, rich: bool = True, n: Optional[int] = None) -> List[List[Any]]:
    out: List[List[Any]] = []
    for _ in range(n if n is not None else rng.randint(1, 9)):
        r = rng.random()
        if not rich or r < 0.7:
            out.append(['w', rng.choice(WORDS)])
        elif r < 0.78:
            out.append(['b', gen_words(rng, rng.randint(1, 3), SAFE_WORDS)])
        elif r < 0.86:
            out.append(['i', gen_words(rng, rng.randint(1, 3), SAFE_WORDS)])
        elif r < 0.94:
            out.append(['c', rng.choice(['x + 1', 'f(a, b)', 'None', 'a.b.c', 'x < y', 'd["k"]', 'name'])])
        else:
            out.append(['link', gen_words(rng, rng.randint(1, 2), SAFE_WORDS), rng.choice(URLS)])
    if out[0][0] != 'w':
        out.insert(0, ['w', rng.choice(SAFE_WORDS)])
    else:
        out[0] = ['w', rng.choice(SAFE_WORDS)]
    return out


def gen_code(rng: random.Random) -> str:
    lines = [rng.choice(CODE_LINES) for _ in range(rng.randint(1, 5))]
    while lines and lines[0] == '':
        lines.pop(0)
    while lines and lines[-1] == '':
        lines.pop()
    return '\n'.join(lines or ['pass'])


def gen_doctest(rng: random.Random) -> str:
    lines: List[str] = []
    for _ in range(rng.randint(1, 3)):
        lines.append('>>> ' + rng.choice([l for l in CODE_LINES if l and not l.startswith((' ', '.', '@', 's = '))]))
        if rng.random() < 0.3:
            lines.append('... ' + rng.choice(['    pass', 'x', '    y = 2']))
        if rng.random() < 0.7:
            for _ in range(rng.randint(1, 2)):
                lines.append(rng.choice(DOCTEST_OUT))
    return '\n'.join(lines)


def gen_literal(rng: random.Random) -> str:
    lines = [rng.choice(LITERAL_LINES) for _ in range(rng.randint(1, 4))]
    while lines and lines[0].strip() == '':
        lines.pop(0)
    while lines and lines[-1].strip() == '':
        lines.pop()
    if not lines:
        lines = ['lit']
    # the first line carries the indentation reference: keep it flush
    lines[0] = lines[0].lstrip() or 'lit'
    # no two blank lines in a row (inside a numpy/google field body napoleon ends the field there; it reports
    # 'bad docstring' for what follows -- not a silent loss, and not what this generator is after)
    lines = [l for k, l in enumerate(lines) if not (l.strip() == '' and k and lines[k - 1].strip() == '')]
    return '\n'.join(lines)


def gen_block(rng: random.Random, depth: int, allow: List[str]) -> List[Any]:
    kinds = [k for k in ['para', 'para', 'para', 'ulist', 'olist', 'literal', 'doctest', 'code'] if k in allow]
    k = rng.choice(kinds)
    if depth >= 2 and k in ('ulist', 'olist'):
        k = 'para'
    if k == 'para':
        return ['para', gen_inlines(rng)]
    if k in ('ulist', 'olist'):
        items = []
        inner_allow = [a for a in allow if a != 'section']
        for _ in range(rng.randint(1, 3)):
            r = rng.random()
            if r < 0.2 and 'literal' in allow:
                # the paragraph of the item itself introduces a literal block (often wrapped over several lines)
                item = [['literal', gen_inlines(rng, n=rng.choice([2, 4, 9, 14])), gen_literal(rng)]]
            else:
                item = [['para', gen_inlines(rng, n=rng.choice([1, 2, 3, 5, 9, 14]))]]
            if rng.random() < 0.4:
                for _ in range(rng.randint(1, 2)):
                    item.append(gen_block(rng, depth + 1, inner_allow))
            if item[-1][0] != 'para' and rng.random() < 0.6:
                # the item goes on after the block
                item.append(['para', gen_inlines(rng, n=rng.randint(1, 6))])
            items.append(separate(rng, item))
        return [k, items]
    if k == 'literal':
        return ['literal', gen_inlines(rng, rich=False, n=rng.randint(1, 4)), gen_literal(rng)]
    if k == 'doctest':
        return ['doctest', gen_doctest(rng)]
    return ['code', gen_code(rng)]


def separate(rng: random.Random, blocks: List[Any]) -> List[Any]:
    """a list cannot directly follow a literal block (it would be read as part of it): put a paragraph between"""
    out: List[Any] = []
    for b in blocks:
        if out and out[-1][0] in ('literal', 'code') and b[0] in ('ulist', 'olist', 'doctest', 'literal', 'code'):
            out.append(['para', gen_inlines(rng, n=rng.randint(1, 4))])
        out.append(b)
    return out


ADMON_TITLES = {'note': 'Note', 'notes': 'Notes', 'example': 'Example', 'examples': 'Examples', 'references': 'References',
                'todo': 'Todo', 'warning': 'Warning', 'warnings': 'Warning', 'see also': 'See Also', 'attention': 'Attention',
                'caution': 'Caution', 'danger': 'Danger', 'error': 'Error', 'hint': 'Hint', 'important': 'Important', 'tip': 'Tip'}
SEE_NAMES = ['func_a', 'mod.func_b', 'Cls.meth', 'other_thing', 'pkg.mod.f2', 'zeta']


def gen_field_more(rng: random.Random, fmt: str) -> List[Any]:
    """further blocks of a field body: paragraphs, a flat or nested bullet list, a literal block"""
    more: List[Any] = []
    for _ in range(rng.randint(1, 2)):
        r = rng.random()
        if r < 0.55:
            more.append(['para', gen_inlines(rng, n=rng.randint(1, 5))])
        elif r < 0.85:
            items = []
            for _ in range(rng.randint(1, 3)):
                item = [['para', gen_inlines(rng, n=rng.randint(1, 4))]]
                if rng.random() < 0.25:
                    item.append(['ulist', [[['para', gen_inlines(rng, n=rng.randint(1, 3))]]]])
                items.append(item)
            more.append(['ulist', items])
        else:
            more.append(['literal', gen_inlines(rng, rich=False, n=rng.randint(1, 3)), gen_literal(rng).replace('\t', ' ')])
    return separate(rng, more)


def gen_admons(rng: random.Random, fmt: str) -> List[Any]:
    """the sections / directives the converters special-case: [key, blocks] | ['see also np', entries] | ['methods', entries]"""
    out: List[Any] = []
    if fmt == 'epytext':
        return out
    keys = list(ADMON_TITLES) if fmt in ('google', 'numpy') else ['note', 'warning', 'see also', 'attention', 'tip', 'custom title']
    for _ in range(rng.choice([0, 0, 1, 1, 2, 3])):
        key = rng.choice(keys)
        if key == 'see also' and fmt == 'numpy':
            entries = []
            for _ in range(rng.randint(1, 4)):
                names = rng.sample(SEE_NAMES, rng.choice([1, 1, 1, 2, 3]))
                desc: List[List[str]] = []
                if len(names) == 1 and rng.random() < 0.75:
                    desc = [gen_words(rng, rng.randint(1, 5), SAFE_WORDS) for _ in range(rng.randint(1, 3))]
                entries.append([names, desc])
            out.append(['see also np', entries])
            continue
        blocks = [['para', gen_inlines(rng, n=rng.randint(1, 6))]]
        if key != 'see also':
            for _ in range(rng.randint(0, 2)):
                blocks.append(gen_block(rng, 1, ['para', 'ulist', 'literal', 'doctest']))
        elif rng.random() < 0.5:
            blocks.append(['para', gen_inlines(rng, n=rng.randint(1, 6))])
        out.append([key, separate(rng, blocks)])
    if fmt in ('google', 'numpy') and rng.random() < 0.12:
        out.append(['methods', [[rng.choice(['run', 'stop', 'reset']), [gen_words(rng, rng.randint(1, 4), SAFE_WORDS)
                                                                       for _ in range(rng.randint(1, 2))]]
                                for _ in range(rng.randint(1, 2))]])
    return out


def gen_doc(rng: random.Random, fmt: str) -> Dict[str, Any]:
    obj = rng.choice(['func', 'func', 'func', 'class', 'module'])
    allow = ['para', 'ulist', 'olist', 'literal', 'doctest']
    if fmt != 'epytext':
        allow.append('code')
    blocks = [['para', gen_inlines(rng)]]
    for _ in range(rng.randint(0, 4)):
        blocks.append(gen_block(rng, 0, allow))
    if fmt in ('epytext', 'restructuredtext') and rng.random() < 0.3:
        sec_blocks = [['para', gen_inlines(rng)]]
        if rng.random() < 0.5:
            sec_blocks.append(gen_block(rng, 0, allow))
        blocks.append(['section', ['Topic'] + gen_words(rng, rng.randint(0, 2), SAFE_WORDS), separate(rng, sec_blocks)])
    blocks = separate(rng, blocks)
    sig = rng.sample(['a', 'b', 'value', 'né', 'opt'], rng.randint(0, 4)) if obj == 'func' else []
    fields: List[List[Any]] = []
    body = lambda: gen_inlines(rng, n=rng.randint(1, 6))
    tyw = lambda: gen_words(rng, rng.randint(1, 2), ['int', 'str', 'Thing', 'list', 'None', 'bool'])
    if obj == 'func':
        for p in sig:
            if rng.random() < 0.8:
                fields.append(['param', p, body(), tyw() if rng.random() < 0.5 else None])
        for k in rng.sample(['verbose', 'timeout', 'mode'], rng.choice([0, 0, 1, 2])):
            fields.append(['keyword', k, body(), tyw() if rng.random() < 0.4 else None])
        if rng.random() < 0.6:
            fields.append(['return', None, body(), tyw() if rng.random() < 0.5 else None])
        if rng.random() < 0.2:
            fields.append(['yield', None, body(), tyw() if rng.random() < 0.5 else None])
        for e in rng.sample(['ValueError', 'KeyError', 'OSError'], rng.randint(0, 2)):
            fields.append(['raises', e, body(), None])
        for w in rng.sample(['UserWarning', 'DeprecationWarning'], rng.choice([0, 0, 1])):
            fields.append(['warns', w, body(), None])
    elif obj == 'class':
        for v in rng.sample(['count', 'name', 'items'], rng.randint(0, 3)):
            fields.append([rng.choice(['ivar', 'cvar']) if fmt in ('epytext', 'restructuredtext') else 'ivar', v, body(),
                           tyw() if rng.random() < 0.4 else None])
    else:
        for v in rng.sample(['LIMIT', 'default'], rng.randint(0, 2)):
            fields.append(['var', v, body(), tyw() if rng.random() < 0.4 else None])
    if fmt in ('epytext', 'restructuredtext'):
        for _ in range(rng.randint(0, 2)):
            fields.append([rng.choice(['note', 'see', 'author', 'since', 'note']), None, body(), None])
        if rng.random() < 0.1:
            fields.append(['custom', None, body(), None])
    for f in fields:
        more = gen_field_more(rng, fmt) if rng.random() < 0.3 else []
        if fmt == 'google' and f[0] in ('return', 'yield'):
            # "Returns:  text: more" reads everything before the first colon as the type: keep colons out
            more = [b for b in more if b[0] != 'literal']
        f.append(more)
    admons = gen_admons(rng, fmt)
    cut = rng.randint(0, len(admons))
    return {'obj': obj, 'sig': sig, 'blocks': blocks, 'fields': fields, 'admons': admons[:cut], 'admons_after': admons[cut:],
            'rst_style': rng.choice(['plain', 'plain', 'bullet', 'deflist']), 'width': rng.choice([30, 44, 68, 68]),
            'alias': rng.randrange(1 << 16)}


def blocks_all_tokens(blocks: List[Any]) -> List[str]:
    """every word of the blocks in source order, the text of verbatim blocks included"""
    out: List[str] = []
    for b in blocks:
        k = b[0]
        if k == 'para':
            out += inline_tokens(b[1])
        elif k in ('ulist', 'olist'):
            for item in b[1]:
                out += blocks_all_tokens(item)
        elif k == 'literal':
            t = inline_tokens(b[1])
            t[-1] = t[-1] + ':'
            out += t + b[2].split()
        elif k in ('doctest', 'code'):
            out += b[1].split()
        elif k == 'section':
            out += b[1] + blocks_all_tokens(b[2])
    return out


def field_tokens(f: List[Any]) -> List[str]:
    return inline_tokens(f[2]) + blocks_all_tokens(f[4] if len(f) > 4 else [])


def admon_expected(admons: List[Any]) -> Tuple[List[str], List[Tuple[str, str]]]:
    toks: List[str] = []
    pres: List[Tuple[str, str]] = []
    for a in admons:
        if a[0] == 'see also np':
            toks += ['See', 'Also']
            run: List[str] = []
            for names, desc in a[1]:
                if desc:
                    toks += (', '.join(run)).split()
                    run = []
                    toks += names
                    for line in desc:
                        toks += line
                else:
                    run += names
            toks += (', '.join(run)).split()
        elif a[0] == 'methods':
            toks += ['Methods']
            for name, desc in a[1]:
                toks.append(name + '(x)')
                for line in desc:
                    toks += line
        else:
            toks += ADMON_TITLES.get(a[0], 'Custom Title').split()
            t, p = expected(a[1])
            toks += t
            pres += p
    return toks, pres


def doc_expected(doc: Dict[str, Any]) -> Tuple[List[str], List[Tuple[str, str]]]:
    toks, pres = expected(doc['blocks'])
    for part in (doc.get('admons') or [], doc.get('admons_after') or []):
        t, p = admon_expected(part)
        toks += t
        pres += p
    return toks, pres


def gen_plaintext(rng: random.Random) -> str:
    pool = WORDS + LITERAL_LINES + CODE_LINES + ['\n', '\n\n', '  ', '\t', '@param x: y', ':param x: y', 'Args:', '>>> 1', '::',
                                                '*', '`', '{', '}', '\\n', '&#38;', '\x0b', '\u2028', '\u00a0']
    return ''.join(rng.choice(pool) + rng.choice([' ', ' ', '\n', '']) for _ in range(rng.randint(1, 14)))


# ---- serialisers -------------------------------------------------------------------------------------------------
def wrap(atoms: List[str], width: int, first: str, rest: str) -> List[str]:
    lines, cur = [], first
    empty = True
    for a in atoms:
        if not empty and len(cur) + 1 + len(a) > width:
            lines.append(cur)
            cur, empty = rest, True
        cur += ('' if empty else ' ') + a
        empty = False
    lines.append(cur)
    return lines


def inline_atoms(inl: List[List[Any]], fmt: str) -> List[str]:
    out = []
    for it in inl:
        k = it[0]
        if k == 'w':
            out.append(it[1])
        elif fmt == 'epytext':
            if k == 'b':
                out.append('B{' + ' '.join(it[1]) + '}')
            elif k == 'i':
                out.append('I{' + ' '.join(it[1]) + '}')
            elif k == 'c':
                out.append('C{' + it[1] + '}')
            else:
                out.append('U{' + ' '.join(it[1]) + '<' + it[2] + '>}')
        else:
            if k == 'b':
                out.append('**' + ' '.join(it[1]) + '**')
            elif k == 'i':
                out.append('*' + ' '.join(it[1]) + '*')
            elif k == 'c':
                out.append('``' + it[1] + '``')
            else:
                out.append('`' + ' '.join(it[1]) + ' <' + it[2] + '>`_')
    return out


def ser_blocks(blocks: List[Any], fmt: str, ind: int, width: int) -> List[str]:
    """lines (without trailing blank line); blocks are separated by one blank line"""
    out: List[str] = []
    pad = ' ' * ind
    for b in blocks:
        if out:
            out.append('')
        k = b[0]
        if k == 'para':
            out += wrap(inline_atoms(b[1], fmt), width, pad, pad)
        elif k in ('ulist', 'olist'):
            if fmt == 'epytext' and ind == 0:
                out += ser_blocks([b], fmt, 2, width)       # epytext: top-level lists must be indented
                continue
            for n, item in enumerate(b[1]):
                bullet = '- ' if k == 'ulist' else '%d. ' % (n + 1)
                if n and (fmt != 'epytext' or b[1][n - 1][-1][0] != 'para'):
                    out.append('')          # (epytext: a doctest block ends at a blank line)
                inner: List[str] = []
                for nb in item:
                    if inner:
                        inner.append('')
                    extra = 2 if (fmt == 'epytext' and nb[0] in ('ulist', 'olist')) else 0
                    inner += ser_blocks([nb], fmt, ind + len(bullet) + extra, width)
                # the bullet goes in front of the first line of the item (a paragraph, or the paragraph introducing a literal)
                inner[0] = pad + bullet + inner[0][ind + len(bullet):]
                out += inner
        elif k == 'literal':
            atoms = inline_atoms(b[1], fmt)
            atoms[-1] = atoms[-1] + '::'
            plines = wrap(atoms, width, pad, pad)
            if fmt == 'epytext' and ind > 0 and len(plines) == 1 and len(atoms) >= 2:
                # epytext cannot know the indentation of a ONE-line list-item paragraph: what follows the literal block
                # in the item would be read as part of it.  Authors wrap such a paragraph; so do we.
                cut = (len(atoms) + 1) // 2
                plines = [pad + ' '.join(atoms[:cut]), pad + ' '.join(atoms[cut:])]
            out += plines
            out.append('')
            out += [(pad + '    ' + l) if l else '' for l in b[2].split('\n')]
        elif k == 'doctest':
            out += [pad + l for l in b[1].split('\n')]
        elif k == 'code':
            out.append(pad + '.. python::')
            out.append('')
            out += [(pad + '    ' + l) if l else '' for l in b[1].split('\n')]
        elif k == 'section':
            title = ' '.join(b[1])
            out.append(pad + title)
            out.append(pad + '=' * len(title))
            out.append('')
            out += ser_blocks(b[2], fmt, ind, width)
        else:
            raise ValueError(k)
    return out


EPY_TAG = {'param': 'param', 'return': 'return', 'raises': 'raise', 'ivar': 'ivar', 'cvar': 'cvar', 'var': 'var', 'note': 'note',
           'see': 'see', 'author': 'author', 'since': 'since', 'custom': 'custom', 'keyword': 'keyword', 'yield': 'yield',
           'warns': 'warns'}
RST_TAG = {'param': 'param', 'return': 'returns', 'raises': 'raises', 'ivar': 'ivar', 'cvar': 'cvar', 'var': 'var', 'note': 'note',
           'see': 'see', 'author': 'author', 'since': 'since', 'custom': 'custom', 'keyword': 'keyword', 'yield': 'yields',
           'warns': 'warns'}
TYPE_TAG = {'param': 'type', 'return': 'rtype', 'ivar': 'type', 'cvar': 'type', 'var': 'type', 'keyword': 'type', 'yield': 'ytype'}
CONSOLIDATED = {'param': ['Parameters', 'Arguments'], 'keyword': ['Keywords'], 'raises': ['Exceptions'], 'ivar': ['IVariables'],
                'cvar': ['CVariables'], 'var': ['Variables']}
DEFLIST_KINDS = ('param', 'keyword', 'ivar', 'cvar', 'var')
NAP_HEADERS = {'param': ['Args', 'Arguments', 'Parameters', 'Receives'], 'keyword': ['Keyword Args', 'Keyword Arguments'],
               'return': ['Returns', 'Return'], 'yield': ['Yields', 'Yield'],
               'raises': ['Raises', 'Raise', 'Except', 'Exceptions'], 'warns': ['Warns', 'Warn'],
               'ivar': ['Attributes'], 'cvar': ['Attributes'], 'var': ['Attributes']}


def more_of(f: List[Any]) -> List[Any]:
    return f[4] if len(f) > 4 else []


def ser_field_more(f: List[Any], fmt: str, ind: int, width: int) -> List[str]:
    m = more_of(f)
    out: List[str] = []
    for b in m:
        out.append('')
        # epytext: a list inside a field must be indented more than the paragraphs of the field
        extra = 2 if (fmt == 'epytext' and b[0] in ('ulist', 'olist')) else 0
        out += ser_blocks([b], fmt, ind + extra, width)
    return out


def pick(doc: Dict[str, Any], options: List[str], salt: int) -> str:
    return options[(doc.get('alias', 0) >> salt) % len(options)]


def ser_admons(admons: List[Any], fmt: str, width: int) -> List[str]:
    lines: List[str] = []
    for a in admons:
        lines.append('')
        key = a[0]
        if fmt == 'restructuredtext':
            head = {'see also': '.. seealso::', 'custom title': '.. admonition:: Custom Title'}.get(key, '.. %s::' % key)
            lines.append(head)
            lines.append('')
            lines += ser_blocks(a[1], 'restructuredtext', 4, width)
            continue
        title = {'see also np': 'See Also', 'methods': 'Methods'}.get(key, ' '.join(w.capitalize() for w in key.split()))
        if fmt == 'google':
            lines.append(title + ':')
            base = 4
        else:
            lines.append(title)
            lines.append('-' * len(title))
            base = 0
        pad = ' ' * base
        if key == 'see also np':
            for names, desc in a[1]:
                if desc:
                    lines.append(pad + names[0] + ' : ' + ' '.join(desc[0]))
                    for d in desc[1:]:
                        lines.append(pad + '    ' + ' '.join(d))
                else:
                    lines.append(pad + ', '.join(names))
        elif key == 'methods':
            for name, desc in a[1]:
                if fmt == 'google':
                    lines.append(pad + name + '(x): ' + ' '.join(desc[0]))
                else:
                    lines.append(pad + name + '(x)')
                    lines.append(pad + '    ' + ' '.join(desc[0]))
                for d in desc[1:]:
                    lines.append(pad + '    ' + ' '.join(d))
        else:
            lines += ser_blocks(a[1], 'restructuredtext', base, width)
    return lines


def serialise(doc: Dict[str, Any], fmt: str, width: int = 0) -> str:
    width = width or doc.get('width', 68)
    fields = doc['fields']
    if fmt == 'epytext':
        lines = ser_blocks(doc['blocks'], fmt, 0, width)
        if fields:
            lines.append('')
        for f in fields:
            kind, name, body, ty = f[:4]
            head = '@' + EPY_TAG[kind] + ((' ' + name) if name else '') + ':'
            lines += wrap(inline_atoms(body, fmt), width, head + ' ', '    ')
            lines += ser_field_more(f, fmt, 4, width)
            if ty:
                head = '@' + TYPE_TAG[kind] + ((' ' + name) if (name and kind not in ('return', 'yield')) else '') + ':'
                lines += wrap(ty, width, head + ' ', '    ')
        return '\n'.join(lines)
    if fmt == 'restructuredtext':
        lines = ser_blocks(doc['blocks'], fmt, 0, width)
        lines += ser_admons(doc.get('admons') or [], fmt, width)
        style = doc.get('rst_style', 'plain')
        if fields:
            lines.append('')
        done: set = set()
        types_later: List[List[Any]] = []
        for f in fields:
            kind, name, body, ty = f[:4]
            grouped = (style == 'bullet' and kind in CONSOLIDATED) or (style == 'deflist' and kind in DEFLIST_KINDS)
            if not grouped:
                head = ':' + RST_TAG[kind] + ((' ' + name) if name else '') + ':'
                lines += wrap(inline_atoms(body, fmt), width, head + ' ', '    ')
                lines += ser_field_more(f, fmt, 4, width)
                if ty:
                    head = ':' + TYPE_TAG[kind] + ((' ' + name) if (name and kind not in ('return', 'yield')) else '') + ':'
                    lines += wrap(ty, width, head + ' ', '    ')
                continue
            if kind in done:
                continue
            done.add(kind)
            group = [g for g in fields if g[0] == kind]
            lines.append(':' + pick(doc, CONSOLIDATED[kind], 0) + ':')
            for k, g in enumerate(group):
                if style == 'bullet':
                    if k:
                        lines.append('')
                    lines += wrap(inline_atoms(g[2], fmt), width, '    - `%s`: ' % g[1], '      ')
                    lines += ser_field_more(g, fmt, 6, width)
                    if g[3]:
                        types_later.append(g)
                else:
                    lines.append('    ' + g[1] + ((' : ' + ' '.join(g[3])) if g[3] else ''))
                    lines += wrap(inline_atoms(g[2], fmt), width, '        ', '        ')
                    lines += ser_field_more(g, fmt, 8, width)
        if types_later:
            lines.append(':Types:')
            for k, g in enumerate(types_later):
                lines.append('    - `%s`: %s' % (g[1], ' '.join(g[3])))
        lines += ser_admons(doc.get('admons_after') or [], fmt, width)
        return '\n'.join(lines)
    if fmt in ('google', 'numpy'):
        lines = ser_blocks(doc['blocks'], 'restructuredtext', 0, width)
        lines += ser_admons(doc.get('admons') or [], fmt, width)
        groups = [('param',), ('keyword',), ('return',), ('yield',), ('raises',), ('warns',), ('ivar', 'cvar', 'var')]
        for gi, kinds in enumerate(groups):
            fs = [f for f in fields if f[0] in kinds]
            if not fs:
                continue
            parts = [fs]
            header = pick(doc, NAP_HEADERS[kinds[0]], gi)
            if kinds == ('param',) and len(fs) >= 2 and (doc.get('alias', 0) & 1):
                parts = [fs[:-1], fs[-1:]]
            for pi, part in enumerate(parts):
                head = header if pi == 0 else 'Other Parameters'
                lines.append('')
                if fmt == 'google':
                    lines.append(head + ':')
                    for f in part:
                        kd, name, body, ty = f[:4]
                        atoms = inline_atoms(body, 'restructuredtext')
                        if kd in ('return', 'yield'):
                            h = (' '.join(ty) + ': ') if ty else ''
                        elif kd in ('raises', 'warns'):
                            h = name + ': '
                        else:
                            h = name + ((' (' + ' '.join(ty) + ')') if ty else '') + ': '
                        lines += wrap(atoms, width, '    ' + h, '        ')
                        lines += ser_field_more(f, 'restructuredtext', 8, width)
                else:
                    lines.append(head)
                    lines.append('-' * len(head))
                    for f in part:
                        kd, name, body, ty = f[:4]
                        atoms = inline_atoms(body, 'restructuredtext')
                        if kd in ('return', 'yield'):
                            lines.append(' '.join(ty) if ty else 'object')
                        elif kd in ('raises', 'warns'):
                            lines.append(name)
                        else:
                            lines.append(name + ((' : ' + ' '.join(ty)) if ty else ''))
                        lines += wrap(atoms, width, '    ', '    ')
                        lines += ser_field_more(f, 'restructuredtext', 4, width)
        lines += ser_admons(doc.get('admons_after') or [], fmt, width)
        return '\n'.join(lines)
    raise ValueError(fmt)


def source_for(doc: Dict[str, Any], docstring: str) -> Tuple[str, str]:
    # as an author writes it: opening quotes, then every line at the indentation of the body
    docstring = '\n' + '\n'.join(('    ' + l) if l else '' for l in docstring.split('\n')) + '\n    '
    lit = repr(docstring)
    if doc['obj'] == 'func':
        return 'def f(%s):\n    %s\n' % (', '.join(doc['sig']), lit), 'm.f'
    if doc['obj'] == 'class':
        return 'class C:\n    %s\n' % lit, 'm.C'
    return '%s\nx = 1\n' % lit, 'm'


# ---- what must be visible ------------------------------------------------------------------------------------------
def inline_tokens(inl: List[List[Any]]) -> List[str]:
    out: List[str] = []
    for it in inl:
        if it[0] == 'w':
            out.append(it[1])
        elif it[0] == 'c':
            out += it[1].split()
        else:
            out += it[1]
    return out


def expected(blocks: List[Any]) -> Tuple[List[str], List[Tuple[str, str]]]:
    """(word tokens of the description in order, verbatim blocks (kind, text) in order)"""
    toks: List[str] = []
    pres: List[Tuple[str, str]] = []
    for b in blocks:
        k = b[0]
        if k == 'para':
            toks += inline_tokens(b[1])
        elif k in ('ulist', 'olist'):
            for item in b[1]:
                t, p = expected(item)
                toks += t
                pres += p
        elif k == 'literal':
            t = inline_tokens(b[1])
            t[-1] = t[-1] + ':'
            toks += t
            pres.append(('literal', b[2]))
        elif k == 'doctest':
            pres.append(('doctest', b[1]))
        elif k == 'code':
            pres.append(('code', b[1]))
        elif k == 'section':
            toks += b[1]
            t, p = expected(b[2])
            toks += t
            pres += p
    return toks, pres


# ------------------------------------------------------------------------------------------------ epytext inline markup
EPY_SYMBOLS = {'alpha': 'α', '<-': '←', '->': '→', 'le': '≤', 'copy': '©', 'Omega': 'Ω', 'infinity': '∞'}
INLINE_WORDS = ['alpha', 'x', 'Gamma', 'a<b', 'it\'s', 'é', '日本', 'end.', 'A', 'Z9', 'aB', 'ok?']


def gen_inline_ast(rng: random.Random, depth: int = 0) -> List[Any]:
    """list of items: ['c', text without braces] | ['t', letter, items] | ['b', items] | ['e', code] | ['s', name]
       | ['l', letter, items, target|None]"""
    out: List[Any] = []
    for _ in range(rng.randint(1, 5)):
        r = rng.random()
        if r < 0.5 or depth >= 3:
            out.append(['c', rng.choice(INLINE_WORDS) + rng.choice([' ', ' ', '', ', '])])
        elif r < 0.7:
            out.append(['t', rng.choice('BICM'), gen_inline_ast(rng, depth + 1)])
        elif r < 0.78:
            out.append(['b', gen_inline_ast(rng, depth + 1)])
        elif r < 0.86:
            out.append(['e', rng.choice(['lb', 'rb', '.', '@', 'é'])])
        elif r < 0.92:
            out.append(['s', rng.choice(list(EPY_SYMBOLS))])
        else:
            letter = rng.choice('LU')
            label = [['c', rng.choice(['label', 'two words', 'a.b'])]]
            if rng.random() < 0.4:
                label.append(['t', rng.choice('BI'), [['c', 'em']]])
                label.append(['c', ' tail'])
            tgt = rng.choice(['mod.name', 'f', 'pkg.Cls.meth']) if letter == 'L' else rng.choice(['http://x.y/z', 'www.python.org'])
            out.append(['l', letter, label, tgt, rng.choice(['', '', ' ', '   '])])
    # a literal-brace group must not follow an upper-case letter (it would be read as a tag)
    fixed: List[Any] = []
    for it in out:
        if it[0] == 'b' and fixed and fixed[-1][0] == 'c' and fixed[-1][1][-1:].isupper() and fixed[-1][1][-1:].isascii():
            fixed.append(['c', ' '])
        fixed.append(it)
    return fixed


def inline_print(items: List[Any]) -> str:
    out = ''
    for it in items:
        k = it[0]
        if k == 'c':
            out += it[1]
        elif k == 't':
            out += it[1] + '{' + inline_print(it[2]) + '}'
        elif k == 'b':
            out += '{' + inline_print(it[1]) + '}'
        elif k == 'e':
            out += 'E{' + it[1] + '}'
        elif k == 's':
            out += 'S{' + it[1] + '}'
        else:
            out += it[1] + '{' + inline_print(it[2]) + (it[4] if len(it) > 4 else '') + '<' + it[3] + '>}'
    return out


def inline_visible(items: List[Any]) -> str:
    out = ''
    for it in items:
        k = it[0]
        if k == 'c':
            out += it[1]
        elif k == 't':
            out += inline_visible(it[2])
        elif k == 'b':
            out += '{' + inline_visible(it[1]) + '}'
        elif k == 'e':
            out += {'lb': '{', 'rb': '}'}.get(it[1], it[1])
        elif k == 's':
            out += EPY_SYMBOLS[it[1]]
        else:
            out += inline_visible(it[2])
    return out


# ------------------------------------------------------------------------------------------------ document corpus
def _w(*ws: str) -> List[List[Any]]:
    return [['w', w] for w in ws]


DOC_CORPUS: List[Dict[str, Any]] = [
    # a list item whose paragraph is wrapped over two lines, introduces a literal block, and goes on afterwards
    {'obj': 'func', 'sig': [], 'fields': [], 'admons': [], 'admons_after': [], 'rst_style': 'plain', 'width': 44, 'alias': 0,
     'blocks': [['para', _w('Summary', 'line.')],
                ['para', _w('Things', 'to', 'know')],
                ['ulist', [
                    [['literal', _w('the', 'first', 'item', 'has', 'a', 'paragraph', 'that', 'is', 'wrapped', 'over', 'two', 'lines',
                                    'and', 'introduces', 'code'),
                      'first = [1,\n         2]\nsecond   B{kept verbatim} *x* `y`'],
                     ['para', _w('afterwards', 'the') + [['i', ['item']], ['w', 'goes'], ['b', ['on']], ['w', 'normally']]]],
                    [['para', _w('the', 'second', 'item', 'is', 'short')]]]],
                ['para', _w('Closing', 'words.')]]},
    # the same one and two levels deeper, with a doctest block and a nested list after the literal
    {'obj': 'func', 'sig': [], 'fields': [], 'admons': [], 'admons_after': [], 'rst_style': 'plain', 'width': 40, 'alias': 0,
     'blocks': [['para', _w('Summary', 'line.')],
                ['olist', [
                    [['para', _w('outer', 'item', 'one', 'with', 'enough', 'words', 'to', 'be', 'wrapped', 'over', 'two', 'lines')],
                     ['ulist', [
                         [['literal', _w('inner', 'item', 'paragraph', 'that', 'is', 'long', 'enough', 'to', 'wrap', 'and', 'ends',
                                         'with', 'code'), 'x = {1: 2}\n  indented  more\nI{raw}'],
                          ['para', _w('inner', 'goes') + [['b', ['on']]]],
                          ['doctest', '>>> f(1)\n42'],
                          ['para', _w('after', 'the', 'doctest')],
                          ['ulist', [[['literal', _w('deepest', 'item', 'also', 'wraps', 'over', 'more', 'than', 'one', 'line', 'here'),
                                       'deep = 1\n    deeper'],
                                      ['para', [['i', ['still']], ['w', 'the'], ['w', 'deepest']]]]]]],
                         [['para', _w('inner', 'two')]]]],
                     ['para', _w('outer', 'item', 'one', 'ends')]],
                    [['para', _w('outer', 'item', 'two')]]]],
                ['para', _w('Closing', 'words.')]]},
]


# ------------------------------------------------------------------------------------------------ reST field lists
RST_CONS = ['Parameters', 'Arguments', 'Exceptions', 'Variables', 'IVariables', 'CVariables', 'Groups', 'Types', 'Keywords',
            'PARAMETERS', 'parameters']
RST_PLAIN = ['param x', 'type x', 'returns', 'rtype', 'raises ValueError', 'note', 'ivar v', 'custom', 'custom with arg',
             'Parameters  spaced', 'see']


def gen_rst_item_body(rng: random.Random, ind: str) -> List[str]:
    """further blocks of a list item / definition, at indentation `ind`"""
    out: List[str] = []
    for _ in range(rng.choice([0, 0, 1, 2])):
        out.append('')
        k = rng.random()
        if k < 0.4:
            out.append(ind + ' '.join(gen_words(rng, rng.randint(1, 5), SAFE_WORDS)))
        elif k < 0.7:
            for _ in range(rng.randint(1, 2)):
                out.append(ind + '- ' + ' '.join(gen_words(rng, rng.randint(1, 3), SAFE_WORDS)))
        elif k < 0.85:
            out.append(ind + 'code::')
            out.append('')
            out.append(ind + '    x = 1')
        else:
            out.append(ind + '>>> 1')
            out.append(ind + '1')
    return out


def gen_rst_fieldlist(rng: random.Random) -> str:
    lines: List[str] = [' '.join(gen_words(rng, 3, SAFE_WORDS)), '']
    for _ in range(rng.randint(1, 4)):
        if rng.random() < 0.3:
            lines.append(':%s: %s' % (rng.choice(RST_PLAIN), ' '.join(gen_words(rng, rng.randint(1, 4), SAFE_WORDS))))
            lines += gen_rst_item_body(rng, '    ')
            continue
        lines.append(':%s:' % rng.choice(RST_CONS))
        form = rng.random()
        n = rng.randint(1, 3)
        if form < 0.5:          # bullet list, items mostly well formed
            for k in range(n):
                name = rng.choice(['x', 'y', 'value', 'a.b', 'né'])
                head = rng.choice(['`%s`: ', '`%s`: ', '`%s` - ', '`%s`:', '`%s` :', '`%s`-  ', '`%s` ', '`%s`', '%s: ', '*%s*: ',
                                   '`%s` `z`: '])
                words = ' '.join(gen_words(rng, rng.randint(0, 4), SAFE_WORDS))
                lines.append('    - ' + (head % name) + words)
                if rng.random() < 0.3:
                    lines.append('      ' + ' '.join(gen_words(rng, 2, SAFE_WORDS)))
                lines += gen_rst_item_body(rng, '      ')
        elif form < 0.8:        # definition list
            for k in range(n):
                name = rng.choice(['x', 'y', 'value'])
                term = rng.choice(['%s', '%s : int', '`%s`', '`%s` : list of str', '%s : int : extra', '%s *em*', '**%s**'])
                lines.append('    ' + (term % name))
                lines.append('        ' + ' '.join(gen_words(rng, rng.randint(1, 4), SAFE_WORDS)))
                lines += gen_rst_item_body(rng, '        ')
        elif form < 0.88:
            lines.append('    ' + ' '.join(gen_words(rng, 3, SAFE_WORDS)))
        elif form < 0.94:
            lines.append('    1. `x`: enumerated')
        else:
            lines.append('    - `x`: one')
            lines.append('')
            lines.append('    para after the list')
    return '\n'.join(lines) + '\n'


def gen_rst_deflist_terms(rng: random.Random) -> str:
    """a consolidated field written as a definition list in which some term says more than the one (marked) identifier:
    plain words, inline markup, a second identifier or a parenthesis after it, with or without a ' : ' classifier. The
    splitter can only report such an item and keep the field as it is; whatever it does, no word of the term may vanish."""
    lines: List[str] = [' '.join(gen_words(rng, 3, SAFE_WORDS)), '']
    for _ in range(rng.randint(1, 2)):
        lines.append(':%s:' % rng.choice(RST_CONS))
        n = rng.randint(1, 3)
        bad = rng.randrange(n)
        for k in range(n):
            name = rng.choice(['x', 'y', 'value', 'né'])
            if k == bad or rng.random() < 0.3:
                extra = rng.choice([' ' + ' '.join(gen_words(rng, rng.randint(1, 3), SAFE_WORDS)), ' *em* word', ' `z`',
                                    ' ' + ' '.join(gen_words(rng, 1, SAFE_WORDS)) + ' : int', ' ``lit``',
                                    ' (' + ' '.join(gen_words(rng, 1, SAFE_WORDS)) + ')',
                                    '  ' + ' '.join(gen_words(rng, 2, SAFE_WORDS)) + ' : list of str'])
                term = rng.choice(['`%s`', '`%s`', '`%s`', '%s', '*%s*']) % name + extra
            else:
                term = rng.choice(['`%s`', '%s', '`%s` : int']) % name
            lines.append('    ' + term)
            lines.append('        ' + ' '.join(gen_words(rng, rng.randint(1, 4), SAFE_WORDS)))
            if rng.random() < 0.3:
                lines += gen_rst_item_body(rng, '        ')
        if rng.random() < 0.3:
            lines.append(':%s: %s' % (rng.choice(RST_PLAIN), ' '.join(gen_words(rng, rng.randint(1, 4), SAFE_WORDS))))
    return '\n'.join(lines) + '\n'


RST_FIELD_CORPUS = [
    ":Parameters:\n    - `a`: desc a\n      more\n\n      second para\n\n      - nested\n    - `b` - desc b\n    - `c`\n",
    ":Keywords:\n    k : int\n        desc k\n\n        para two\n    `j`\n        desc j\n",
    ":Exceptions:\n    - ValueError: no ticks\n:Exceptions:\n    not a list\n:Exceptions:\n    also not\n",
    ":IVariables:\n    x : int\n        d\n    y : a : b\n        e\n", ":custom tag arg: t\n", ":Types:\n    x\n        deflist not allowed\n",
    ":PARAMETERS:\n  1. `a`: x\n", ":Parameters:\n    - `a`:desc\n    - `b` :desc\n    - `c`-  desc\n    - `d`desc\n    - `e` : : x\n",
    ":Parameters:\n    - `a`: x\n\n    - \n", ":param: no arg\n", ":Parameters: - `x`: inline start\n",
    # definition-list terms that carry more than the single (marked) identifier: nothing after it may be dropped
    ":Parameters:\n    `x` trailing words\n        desc x\n    `y`\n        desc y\n",
    ":Exceptions:\n    `E` when *bad* input\n        desc\n", ":Keywords:\n    `k` extra : int\n        desc k\n",
    ":Variables:\n    v plain words\n        desc v\n", ":Parameters:\n    `x` `y`\n        both\n",
]
