"""C18 -- equal inputs give byte-identical output (hash seed x directory listing order x fresh/reused output directory)."""
from __future__ import annotations
import hashlib, importlib.util, itertools, json, random
from typing import Any, Dict, List, Optional, Tuple
import lib
from lib import PropertyCheck, Violation, enc, dec, txt

KIND_PLURAL = {1000: 'packages', 900: 'modules'}


# ------------------------------------------------------------------------------------------ project generator
CLASS_NAMES = ['Base', 'base', 'Thing', 'Widget', '_Private', 'Error', 'Mixin', 'THING', 'Node']
METHOD_NAMES = ['run', 'Run', 'stop', '_internal', '__init__', 'value', 'RUN', 'close']
FUNC_NAMES = ['helper', 'Helper', 'main', '_impl', 'build']
ATTR_NAMES = ['count', 'Count', 'name', '_cache', 'LIMIT']
MOD_NAMES = ['alpha', 'beta', 'Beta', 'gamma', '_hidden', 'util', 'Util', 'zz', 'core']
ROOT_NAMES = ['pkg', 'other', 'zeta', 'Alpha', '_core', 'lib2']


def gen_module(rng: random.Random, full: str, known: List[Tuple[str, str]], docformat: str) -> Tuple[str, List[str]]:
    """source text of one module and the classes it defines"""
    L: List[str] = []
    link = (lambda t: 'L{%s}' % t) if docformat == 'epytext' else (lambda t: '`%s`' % t)
    L.append('"""Module %s.\n\nSee %s.\n"""' % (full, link(rng.choice(known)[0] + '.' + rng.choice(known)[1]) if known and rng.random() < .5 else 'nothing'))
    imports = rng.sample(known, min(len(known), rng.randint(0, 3)))
    for m, c in imports:
        L.append('from %s import %s' % (m, c))
    ext = rng.random()
    if ext < .15:
        L.append('import attr')
    elif ext < .3:
        L.append('from zope.interface import Interface, implementer, Attribute')
    elif ext < .4:
        L.append('from twisted.python.deprecate import deprecated\nfrom incremental import Version')
    defined: List[str] = []
    if any('zope' in x for x in L):
        # interfaces declaring the same members; classes that get them only through their bases
        ifs = rng.sample(['IOne', 'ITwo', 'IThree', 'IFour', 'IFive'], rng.randint(2, 5))
        for k, iname in enumerate(ifs):
            base = ifs[k - 1] if k and rng.random() < .3 else 'Interface'
            L.append('class %s(%s):\n    """Interface %s."""\n    def run():\n        """run per %s"""\n    def stop():\n        """stop per %s"""'
                     % (iname, base, iname, iname, iname))
        carriers = []
        for k, iname in enumerate(ifs):
            if rng.random() < .5 and k + 1 < len(ifs):
                L.append('@implementer(%s, %s)\nclass Carrier%d:\n    """carrier"""' % (iname, ifs[k + 1], k))
            else:
                L.append('@implementer(%s)\nclass Carrier%d:\n    """carrier"""' % (iname, k))
            carriers.append('Carrier%d' % k)
        L.append('class Gathered(%s):\n    """all interfaces through the bases"""\n    def run(self): pass\n    def stop(self): pass'
                 % ', '.join(rng.sample(carriers, len(carriers))))
        defined += ifs[:1] + ['Gathered']
    if rng.random() < .4:
        L.append('__all__ = [%s]' % ', '.join(repr(n) for n in rng.sample(CLASS_NAMES + FUNC_NAMES, 2)))
    for a in rng.sample(ATTR_NAMES, rng.randint(0, 3)):
        L.append('%s = %d' % (a, rng.randint(0, 9)))
        if rng.random() < .5:
            L.append('"""Doc of %s."""' % a)
    for cname in rng.sample(CLASS_NAMES, rng.randint(1, 4)):
        bases = []
        pool = [c for _, c in imports] + defined
        for _ in range(rng.randint(0, 2)):
            if pool and rng.random() < .8:
                b = rng.choice(pool)
                if b not in bases and b != cname:
                    bases.append(b)
        if cname == 'Error' and not bases:
            bases = ['Exception']
        if rng.random() < .1:
            bases.append('zlib.error')
        if 'import attr' in L and rng.random() < .6:
            L.append('@attr.s(auto_attribs=True)')
        if any('zope' in x for x in L) and rng.random() < .4 and defined:
            L.append('@implementer(%s)' % defined[0])
        if any('deprecate' in x for x in L) and rng.random() < .5:
            L.append('@deprecated(Version("%s", 1, 2, 3))' % full.split('.')[0])
        if any('zope' in x for x in L) and not bases and rng.random() < .5:
            bases = ['Interface']
        L.append('class %s%s:' % (cname, '(%s)' % ', '.join(bases) if bases else ''))
        L.append('    """Class %s in %s.%s\n    """' % (cname, full, ('\n\n    @ivar count: an ivar\n    @see: %s' % link(full + '.' + rng.choice(defined))
                                                                     if defined and docformat == 'epytext' and rng.random() < .5 else '')))
        if 'import attr' in L:
            L.append('    x: int = 1\n    y = attr.ib(default=2)')
        for a in rng.sample(ATTR_NAMES, rng.randint(0, 2)):
            L.append('    %s = %d' % (a, rng.randint(0, 9)))
        for m in [rng.choice(METHOD_NAMES) for _ in range(rng.randint(0, 5))]:   # duplicates on purpose
            deco = rng.choice(['', '', '', '    @property\n', '    @classmethod\n', '    @staticmethod\n'])
            arg = '' if 'static' in deco else ('cls' if 'class' in deco else 'self')
            if any('Interface' in b for b in bases):
                deco, arg = '', ''
            L.append('%s    def %s(%s):\n        """%s of %s."""' % (deco, m, arg, m, cname))
        if rng.random() < .2:
            L.append('    class Inner:\n        """nested"""\n        def run(self): pass')
        defined.append(cname)
    for f in [rng.choice(FUNC_NAMES) for _ in range(rng.randint(0, 4))]:
        L.append('def %s(a, b=1):\n    """Function %s.\n\n    %s\n    """' % (
            f, f, '@param a: first\n    @return: nothing' if docformat == 'epytext' else 'Does things.'))
    if rng.random() < .15:
        L.append('def broken():\n    """L{unclosed"""')
    return '\n'.join(L) + '\n', defined


def gen_project(rng: random.Random, want_roots: Optional[int] = None, want_name: Optional[bool] = None) -> Dict[str, Any]:
    docformat = rng.choice(['epytext', 'epytext', 'restructuredtext', 'google', 'plaintext'])
    nroots = want_roots or rng.choice([1, 1, 2, 2, 3])
    roots = rng.sample(ROOT_NAMES, nroots)
    files: Dict[str, str] = {}
    dirs: List[str] = []
    known: List[Tuple[str, str]] = []
    root_paths = []
    for r in roots:
        if rng.random() < .75:
            root_paths.append(r)
            mods = rng.sample(MOD_NAMES, rng.randint(2, 5))
            subs = []
            if rng.random() < .5:
                subs = [('sub', rng.sample(MOD_NAMES, rng.randint(1, 3)))]
            order = [(r + '.' + m, '%s/%s.py' % (r, m)) for m in mods]
            for s, ms in subs:
                order.append((r + '.' + s, '%s/%s/__init__.py' % (r, s)))
                order += [('%s.%s.%s' % (r, s, m), '%s/%s/%s.py' % (r, s, m)) for m in ms]
            for full, rel in order:
                src, defined = gen_module(rng, full, known, docformat)
                files[rel] = src
                known += [(full, c) for c in defined]
            init, defined = gen_module(rng, r, known, docformat)
            # wildcard import of a sub-module that has no __all__, its names re-exported through the package's __all__
            cand = [(full, rel) for full, rel in order if '__all__' not in files[rel] and not rel.endswith('__init__.py')
                    and len({c for m, c in known if m == full}) >= 2]
            if cand and rng.random() < .35:
                full, rel = rng.choice(cand)
                names = sorted({c for m, c in known if m == full})
                init += 'from %s import *\n__all__ = [%s]\n' % (full, ', '.join(repr(n) for n in names))
            files[r + '/__init__.py'] = init
            # things addPackage must skip
            if rng.random() < .5:
                files[r + '/.hidden.py'] = 'x = 1\n'
            if rng.random() < .5:
                files[r + '/notes.txt'] = 'not python\n'
            if rng.random() < .3:
                files[r + '/data/readme.md'] = 'a directory without __init__\n'
            if rng.random() < .2:
                dirs.append(r + '/empty')
        else:
            root_paths.append(r + '.py')
            src, defined = gen_module(rng, r, known, docformat)
            files[r + '.py'] = src
            known += [(r, c) for c in defined]
    args = ['-q', '--docformat=' + docformat]
    named = rng.random() < .4 if want_name is None else want_name
    if named:
        args.append('--project-name=Proj' + rng.choice(['', ' X', 'é']))
    theme = rng.choice(['classic', 'classic', 'readthedocs', 'base'])
    if theme != 'classic':
        args.append('--theme=' + theme)
    if rng.random() < .3:
        args.append('--cls-member-order=source')
    if rng.random() < .3:
        args.append('--mod-member-order=source')
    if rng.random() < .3 and known:
        m, c = rng.choice(known)
        args.append('--privacy=%s:%s.%s' % (rng.choice(['HIDDEN', 'PRIVATE', 'PUBLIC']), m, c))
    hideable = sorted({m for m, _ in known if '.' in m})      # never a root: an all-hidden project crashes lunr (C01)
    if rng.random() < .2 and hideable:
        args.append('--privacy=HIDDEN:%s' % rng.choice(hideable))
    if rng.random() < .25:
        args += ['--html-viewsource-base=https://example.org/src', '--project-base-dir={SRC}']
    if rng.random() < .2:
        args.append('--sidebar-expand-depth=%d' % rng.randint(1, 3))
    if rng.random() < .2:
        args += ['--project-version=1.%d' % rng.randint(0, 9), '--project-url=https://example.org/']
    case: Dict[str, Any] = {'files': files, 'dirs': dirs, 'roots': root_paths, 'args': args,
                            'time': rng.choice(['epoch', 'epoch', 'buildtime'])}
    if rng.random() < .25:
        case['templates'] = {'extra.css': 'body { color: #%03d; }\n' % rng.randint(0, 999),
                             'static/more.js': '// extra\n', 'zz_extra.txt': 'x', 'Aa_extra.txt': 'y'}
    return case


ZOPE_SRC = '''"""Services: interfaces that reach a class only through its bases."""
from zope.interface import Interface, Attribute, implementer, classImplements

class IAlpha(Interface):
    """Alpha."""
    level = Attribute("level per IAlpha")
    def run():
        """Run, as specified by IAlpha."""

class IBeta(Interface):
    def run():
        """Run, as specified by IBeta."""
    def stop():
        """Stop, as specified by IBeta."""

class IGamma(IBeta):
    def run():
        """Run, as specified by IGamma."""

class IDelta(Interface):
    level = Attribute("level per IDelta")
    def run():
        """Run, as specified by IDelta."""
    def stop():
        """Stop, as specified by IDelta."""

class IEpsilon(Interface):
    def run():
        """Run, as specified by IEpsilon."""

class IZeta(Interface):
    def run():
        """Run, as specified by IZeta."""
    def stop():
        """Stop, as specified by IZeta."""

@implementer(IAlpha)
class AlphaBase:
    """Base providing IAlpha."""

@implementer(IBeta)
class BetaBase:
    """Base providing IBeta."""

@implementer(IGamma, IDelta)
class GammaDeltaBase:
    """Base providing IGamma and IDelta."""

class EpsilonZetaBase:
    """Gets its interfaces from classImplements."""
classImplements(EpsilonZetaBase, IEpsilon, IZeta)

class Service(AlphaBase, BetaBase, GammaDeltaBase, EpsilonZetaBase):
    """Gets all its interfaces from its bases."""
    level = 1
    def run(self):
        pass
    def stop(self):
        pass

class SubService(Service):
    def run(self):
        pass

@implementer(IZeta)
class Mixed(GammaDeltaBase, AlphaBase):
    """One direct interface, three inherited."""
    def stop(self):
        pass
    def run(self):
        pass
'''
WILD_NAMES = ['Alpha', 'beta', 'Gamma', 'delta', 'Epsilon', 'zeta_fn', 'Eta', 'theta']
PLAIN_SRC = '"""Mod."""\nclass K:\n    """k"""\n    def run(self):\n        """r"""\n'


def corpus_cases() -> List[Dict[str, Any]]:
    """deterministic cases, run first in every tier"""
    out: List[Dict[str, Any]] = []
    # zope.interface: several interfaces declaring the same member, inherited only through the bases
    out.append({'files': {'zsvc.py': ZOPE_SRC}, 'dirs': [], 'roots': ['zsvc.py'], 'args': ['-q', '--project-name=Z'], 'time': 'epoch'})
    out.append({'files': {'zp/__init__.py': '"""zp"""\n', 'zp/ifaces.py': ZOPE_SRC,
                          'zp/impl.py': 'from zp.ifaces import Service, Mixed, GammaDeltaBase, AlphaBase\n'
                                        'class Impl(Service):\n    def run(self): pass\n    def stop(self): pass\n'
                                        'class Other(AlphaBase, GammaDeltaBase):\n    level = 2\n    def run(self): pass\n'},
                'dirs': [], 'roots': ['zp'], 'args': ['-q', '--docformat=restructuredtext'], 'time': 'buildtime'})
    # wildcard import of a module without __all__, several of those names re-exported through __all__
    impl = '"""impl"""\n' + ''.join(
        ('class %s:\n    """%s."""\n    def run(self):\n        """run"""\n' % (n, n)) if n[0].isupper()
        else ('def %s():\n    """%s."""\n' % (n, n)) for n in WILD_NAMES)
    out.append({'files': {'wp/__init__.py': '"""wp"""\nfrom wp._impl import *\n__all__ = [%s]\n' % ', '.join(repr(n) for n in WILD_NAMES),
                          'wp/_impl.py': impl,
                          'wp/again.py': '"""again"""\nfrom ._impl import *\nfrom . import _impl\n__all__ = [%s]\n'
                                         % ', '.join(repr(n) for n in WILD_NAMES[:3])},
                'dirs': [], 'roots': ['wp'], 'args': ['-q', '--project-name=W'], 'time': 'epoch'})
    # two intersphinx inventories that document the same names; the sources refer to them
    inv_src = ('"""Module using an external library."""\nimport ext\n\nclass Mine(ext.Thing):\n    """\n    A subclass of L{ext.Thing}, '
               'see also L{ext.helper} and L{ext.other}.\n    """\n\ndef make() -> ext.Thing:\n    """Make a L{Mine}."""\n')
    names = ['ext.Thing py:class 1 %s -', 'ext.helper py:function 1 %s -', 'ext.other py:function 1 %s -', 'ext py:module 1 %s -']
    invs = {}
    inv_args = []
    for k, proj in enumerate(['alpha', 'beta', 'gamma', 'delta']):
        invs['/%s/objects.inv' % proj] = [proj, [n % ('%s-%d.html#$' % (proj, j)) for j, n in enumerate(names)]]
        inv_args.append('--intersphinx={INV}/%s/objects.inv' % proj)
    out.append({'files': {'mymod.py': inv_src}, 'dirs': [], 'roots': ['mymod.py'],
                'args': ['-q', '--project-name=I', '--disable-intersphinx-cache'] + inv_args, 'time': 'epoch', 'inventories': invs,
                # the URLs carry the ephemeral port, so which inventory a given hash seed iterates last changes from run
                # to run of the check: eight seeds make it (1/4)^7 that an order dependence goes unseen
                'seeds': [0, 1, 2, 3, 4, 5, 6, 7]})
    # SOURCE_DATE_EPOCH at its edges: 0 is a valid epoch (1970-01-01 00:00:00); the second run starts 2 s later
    for ep in ('0', '1', '4102444800'):
        out.append({'files': {'m.py': PLAIN_SRC}, 'dirs': [], 'roots': ['m.py'], 'args': ['-q', '--project-name=E' + ep],
                    'time': 'epoch:' + ep, 'gap': 2})
    return out


def fs_nodes(case: Dict[str, Any]) -> List[Any]:
    """the roots of a CLI case as model fs nodes (children in sorted order; the model sorts anyway)"""
    tree: Dict[str, Any] = {}
    for rel in list(case['files']) + [d + '/' for d in case.get('dirs', [])]:
        parts = rel.split('/')
        cur = tree
        for p in parts[:-1]:
            cur = cur.setdefault(p, {})
        if parts[-1]:
            cur[parts[-1]] = None

    def node(name: str, sub: Any) -> Any:
        if sub is None:
            return [0, name]
        return [1, name] + [node(k, sub[k]) for k in sorted(sub)]
    out = []
    for i, r in enumerate(case['roots']):
        out.append([i, node(r, tree[r])])
    return out


def case_digest(case: Any) -> str:
    return hashlib.sha256(json.dumps(case, sort_keys=True).encode()).hexdigest()[:16]


# ------------------------------------------------------------------------------------------ the check
class Check(PropertyCheck):
    id = 'C18'
    props_module = 'Props.C18'
    models = {'det': 'XDeterminism.v', 'det_ir': 'XDiscoveryIR.v'}
    needs_gen = True
    gen_modules = ['gen_c18', 'gen_c18_code']
    rule = ('CLI differential: generated projects (1-3 roots, packages with sub-packages, cross-module inheritance, same-named '
            'members, names differing only in case, duplicate definitions, private/hidden objects, attrs/zope/deprecate '
            'extensions, 4 docformats, 3 themes, optional custom template dir, with and without --project-name), each built '
            'in SEPARATE processes for every hash seed with every directory listing shuffled and the directory entries '
            'created in a different order, into fresh directories and once more over the first result; non-trivial = at '
            'least two modules in one directory; distinct by sha256 of (files, args). Model ties: exhaustive listing '
            'permutations of small package directories, exhaustive root lists, generated modules for the sort keys, '
            'recorded file operations of real runs.')
    trusted_base = [
        'Coq 8.16.1 kernel; vm_compute for the table checks and the _refuted witnesses; no native_compute; no axioms',
        'translator harness/gen/gen_c18.py (fail-closed; prints every set / root_names / directory-listing occurrence of '
        'pydoctor/**.py with its consuming context, the sort-key tuples, enum and suffix tables, the page counters)',
        'translator harness/gen/gen_c18_code.py (fail-closed; bodies of System.addPackage / addModuleFromPath / '
        '_addUnprocessedModule / _handleDuplicateModule -> Gen/DiscoveryCode.v in the two statement languages of '
        'Model/DiscoveryIR.v, whose interpreter is the stated meaning of the Python constructs and of the primitives: '
        'analyzeModule as an event, iterdir as the listing oracle, sorted() of sibling paths as the stable sort by name, '
        'introspect_c_modules off / no C modules, _remove as a prefix filter of allobjects, the work list over module '
        'contents as one pass over the modules at or below the replaced one, contents not in the modelled state)',
        'extraction ExtrOcamlBasic only + coq/ocaml/driver.ml',
        'harness/c18.py, harness/impl/c18_cli.py, c18_wrapper.py (listing shuffle), c18_tie.py',
        'modelled not verified: twisted flattening, lunr, json.dumps, zlib, docutils and CPython dict order are deterministic '
        'functions of the sequences they are given (only observed by the byte differential); order sources outside the '
        'syntactic classes the translator recognises; unsorted listings of pydoctor\'s own package (extension load order, '
        'template order) are reviewed by hand and sampled by the shuffle',
    ]
    assumptions = ['a directory lists pairwise distinct names (fs_wf)',
                   'iterating a set / listing a directory yields some permutation of its elements (perm_oracle)',
                   'written names and the re-created symlink name are disjoint (true unless the single root module is '
                   'called like a summary page, see C02)',
                   'two runs = two processes (the class-level id counters are never reset inside one process)']
    manifest = {
        'text': ('The bodies of System.addPackage / addModuleFromPath / _addUnprocessedModule / _handleDuplicateModule are translated '
                 'from the current model.py on every run and C18_code_add_package_is_model / C18_code_add_module_from_path_is_model / '
                 'C18_code_add_roots_is_model / C18_code_registry_is_model prove that interpreting them is the model below '
                 '(C18_code_fs_order_free restates the result on the translated code). '
                 'Theorems over Model/Determinism.v for all projects, listing orders, set iteration orders and previous output '
                 'directories: module creation order is independent of directory listing order (C18_fs_order_free), sorted() '
                 'over a set with pydoctor\'s keys is a function of the set and every sort is stable (C18_sort_keys_total), every '
                 'use of System.root_names, the guessed project name and the root-kind list are independent of set order '
                 '(C18_set_order_free, C18_run_deterministic; the pre-17874d0 guess is refuted), counter ids are a function of the '
                 'rendering position within one process (C18_counters_run_local), rewriting over the result of the same run gives '
                 'the same directory (C18_overwrite_complete, C18_rerun_same_output). order_sources_checked is evaluated on a '
                 'table of every set / root_names / listing occurrence regenerated from the source on each run. Tie: byte-for-byte '
                 'comparison of output trees of real CLI runs in separate processes across hash seeds, shuffled listings and '
                 'fresh/reused output directories, plus model/implementation correspondence on listings, sort keys, roots and '
                 'recorded file operations.'),
        'note': ('Partial: byte-level determinism of twisted, lunr, json, zlib, docutils is only observed by the differential. '
                 'Trusted: Coq kernel, gen_c18.py, extraction, harness.'),
        'technique': 'Coq proof (permutation invariance of stable sorts, map equality of write sequences, decidable check on a regenerated order-source table) + process-level differential testing',
    }

    # -------------------------------------------------------------------------------- generators for the ties
    def fs_cases(self) -> List[Any]:
        pool = [[0, 'a.py'], [0, 'b.py'], [0, 'B.py'], [0, '.h.py'], [0, 'a.pyc'], [0, 'n.txt'],
                [1, 's', [0, '__init__.py'], [0, 'c.py']], [1, 'a', [0, '__init__.py']], [1, 'd', [0, 'x.py']],
                [0, 'a.b.py'], [0, 'x.so']]
        init = [0, '__init__.py']
        out = []
        maxk = 2 if self.tier == 'quick' else 3
        for k in range(0, maxk + 1):
            for sub in itertools.combinations(pool, k):
                entries = [init] + list(sub)
                for perm in itertools.permutations(entries):
                    out.append({'kind': 'fs', 'roots': [[0, [1, 'p'] + list(perm)]], 'set': sorted(json.dumps(e) for e in entries)})
        self.stats['fs_exhaustive'] = len(out)
        self.stats['fs_exhaustive_bound'] = 'one package directory, __init__.py + every subset of <= %d of %d entry kinds, every listing order' % (maxk, len(pool))
        # corpus
        out.append({'kind': 'fs', 'roots': [[0, [1, 'p', [0, 'x.py']]]]})                      # no __init__.py: error
        out.append({'kind': 'fs', 'roots': [[0, [0, 'm.py']], [1, [0, 'm.py']], [0, [0, 'm.py']]]})   # duplicate module, repeated path
        out.append({'kind': 'fs', 'roots': [[0, [1, 'p', [0, '__init__.py'], [0, 'q.py']]], [1, [1, 'p', [0, '__init__.py'], [0, 'r.py']]]]})
        out.append({'kind': 'fs', 'roots': [[0, [0, 'p.py']], [1, [1, 'p', [0, '__init__.py']]], [2, [0, 'p.py']]]})
        out.append({'kind': 'fs', 'roots': [[0, [1, 'p', [1, '__init__.py', [0, 'z.py']], [0, 'a.py']]]]})  # __init__.py is a directory
        # random deeper trees
        nrand = 300 if self.tier == 'quick' else 3000
        names = ['a', 'b', 'B', 'c', '_p', 'zz', 'é']     # no dotted names: 'p/a.b' and 'p/a/b' share the full name p.a.b (C02)

        def rnd_dir(name: str, depth: int) -> Any:
            ents: List[Any] = []
            if self.rng.random() < .9:
                ents.append([0, '__init__.py'])
            used = set()
            for _ in range(self.rng.randint(0, 5)):
                n = self.rng.choice(names)
                if self.rng.random() < .3 and depth < 3:
                    if n not in used:
                        used.add(n)
                        ents.append(rnd_dir(n, depth + 1))
                else:
                    fn = n + self.rng.choice(['.py', '.py', '.py', '.pyc', '.txt', '.so', ''])
                    if fn not in used and fn:
                        used.add(fn)
                        ents.append([0, fn])
            self.rng.shuffle(ents)
            return [1, name] + ents
        for _ in range(nrand):
            roots = []
            for i in range(self.rng.randint(1, 3)):
                n = self.rng.choice(['p', 'q', 'p'])
                node = rnd_dir(n, 0) if self.rng.random() < .7 else [0, n + '.py']
                if node[0] == 1 and [0, '__init__.py'] not in node[2:] and self.rng.random() < .8:
                    node.append([0, '__init__.py'])
                roots.append([i if self.rng.random() < .85 else 0, node])
            # a repeated pid must carry the same node
            seen: Dict[int, Any] = {}
            roots = [[pid, seen.setdefault(pid, node)] for pid, node in roots]
            out.append({'kind': 'fs', 'roots': roots})
        self.stats['fs_random'] = nrand
        return out

    def sort_cases(self) -> List[Any]:
        n = 40 if self.tier == 'quick' else 600
        out = []
        for i in range(n):
            known: List[Tuple[str, str]] = []
            mods = {}
            for m in self.rng.sample(['m', 'n', 'M', 'k'], self.rng.randint(1, 3)):
                src, defined = gen_module(self.rng, m, known, 'epytext')
                mods[m] = src
                known += [(m, c) for c in defined]
            priv = []
            if known and self.rng.random() < .4:
                m, c = self.rng.choice(known)
                priv.append([self.rng.choice(['HIDDEN', 'PRIVATE', 'PUBLIC']), m + '.' + c])
            out.append({'kind': 'sort', 'modules': mods, 'privacy': priv})
        self.stats['sort_modules_cases'] = n
        return out

    def roots_cases(self) -> List[Any]:
        names = ['pkg/', 'other', 'zeta/', 'Alpha']
        out = []
        for k in (1, 2, 3):
            for combo in itertools.permutations(names, k):
                for pn in (None, 'Proj'):
                    out.append({'kind': 'roots', 'roots': list(combo), 'project_name': pn, 'probe': 'pkg'})
        out.append({'kind': 'roots', 'roots': ['pkg/', 'pkg'], 'project_name': None, 'probe': 'pkg'})
        out.append({'kind': 'roots', 'roots': ['pkg', 'pkg/'], 'project_name': None, 'probe': 'other'})
        out.append({'kind': 'roots', 'roots': ['pkg', 'pkg'], 'project_name': None, 'probe': 'pkg'})
        out.append({'kind': 'roots', 'roots': ['index'], 'project_name': None, 'probe': 'index'})
        self.stats['roots_exhaustive'] = len(out)
        self.stats['roots_exhaustive_bound'] = 'every ordered list of 1..3 distinct roots out of 4 x {no project name, explicit} + same-named roots'
        return out

    @staticmethod
    def roots_to_nodes(case: Any) -> List[Any]:
        nodes = []
        for i, r in enumerate(case['roots']):
            nodes.append([i, [1, r[:-1], [0, '__init__.py']] if r.endswith('/') else [0, r + '.py']])
        return nodes

    # -------------------------------------------------------------------------------- model helpers
    def model_fs(self, roots_list: List[Any], which: str = 'det') -> List[Any]:
        outs = self.model(which, [enc([0, r]) for r in roots_list])
        res = []
        for o in outs:
            d = dec(o)
            if len(d) == 2 and d[1] == -3:
                res.append({'events': [], 'unproc': [], 'roots': [], 'rootkinds': [], 'ir_failed': True})
                continue
            evs = [[-1] if e == [-1] else ([-2] if e == [-2] else [[txt(p) for p in e[0]], txt(e[1]), e[2]]) for e in d[0]]
            res.append({'events': evs, 'unproc': [[[txt(p) for p in m[0]], m[1]] for m in d[1]],
                        'roots': [txt(t) for t in d[2]], 'rootkinds': d[3]})
        return res

    def model_roots(self, items: List[Tuple[List[str], List[int], Optional[str], str, List[int], List[int]]]) -> List[Any]:
        outs = self.model('det', [enc([2, r, perm, None if opt is None else [opt], fn, kinds, kperm])
                                  for r, perm, opt, fn, kinds, kperm in items])
        res = []
        for o in outs:
            d = dec(o)
            res.append({'project': txt(d[0]), 'old_guess': txt(d[1]), 'url_is_index': d[2],
                        'symlink': txt(d[3][0]) if d[3] else None, 'has_index_page': d[4], 'is_root': d[5], 'rootkinds': d[6]})
        return res

    @staticmethod
    def dedup_len(names: List[str]) -> int:
        return len(set(names))

    # -------------------------------------------------------------------------------- correspondence
    def correspondence(self) -> List[Violation]:
        out: List[Violation] = []
        out += self.tie_fs()
        out += self.tie_sort()
        out += self.tie_roots()
        out += self.tie_templates()
        out += self.tie_counters_ops()
        out += self.known_template_collision()
        out += self.histories()
        out += self.differential(self.cli_cases(), self.seeds())
        return out

    def seeds(self) -> List[int]:
        return [0, 1, 2] if self.tier == 'quick' else [0, 1, 2, 3, 5, 8, 13, 4242]

    # ---- A. directory listings
    def tie_fs(self) -> List[Violation]:
        cases = self.fs_cases()
        impl = lib.run_impl_worker('c18_tie.py', cases, jobs=16)
        mod = self.model_fs([c['roots'] for c in cases])
        out: List[Violation] = []
        # third leg: the interpretation of the code TRANSLATED from model.py (Gen/DiscoveryCode.v)
        mod_ir = self.model_fs([c['roots'] for c in cases], which='det_ir')
        for c, r, mi in zip(cases, impl, mod_ir):
            if r != mi and len([v for v in out if v.kind == 'correspondence']) < 3:
                out.append(Violation('correspondence', 'the code translated from model.py (Gen/DiscoveryCode.v, interpreted by '
                                     'Model.DiscoveryIR) and System.addPackage / _addUnprocessedModule disagree: the translator or the '
                                     'statement language misrepresents the source', case=c, expected=mi, observed=r))
        by_set: Dict[str, Any] = {}
        for c, r, m in zip(cases, impl, mod):
            self.evaluations += 1
            self.count('fs_events_%d' % min(len(r.get('events', [])), 6))
            if r != m and len([v for v in out if v.kind == 'correspondence']) < 5:
                out.append(Violation('correspondence', 'Model.Determinism.add_roots/reg_of_events and System.addPackage disagree',
                                     case=c, expected=m, observed=r))
            if 'set' in c:
                key = json.dumps(c['set'])
                first = by_set.setdefault(key, (c, r))
                if first[1] != r and len([v for v in out if v.kind == 'oracle']) < 3:
                    out.append(Violation('oracle', 'the modules created for a package depend on the order in which its directory is '
                                         'listed: %s vs %s' % (first[1]['unproc'], r['unproc']),
                                         case={'kind': 'fs_pair', 'a': first[0], 'b': c}, observed=[first[1], r]))
        self.stats['fs_distinct_dirsets'] = len(by_set)
        self.sample({'fs': cases[len(cases) // 3]['roots']})
        return out

    # ---- B. sort keys
    def tie_sort(self) -> List[Violation]:
        cases = self.sort_cases()
        impl = lib.run_impl_worker('c18_tie.py', cases, jobs=16)
        out: List[Violation] = []
        items = []
        for c, r in zip(cases, impl):
            for s in r.get('sorts', []):
                items.append((c, s))
        mod = self.model('det', [enc([1, s['which'], s['objs']]) for _, s in items])
        ties = 0
        for (c, s), m in zip(items, mod):
            self.evaluations += 1
            self.count('sort_which_%d' % s['which'])
            keys = [(o[0], o[1], o[2].lower()) for o in s['objs']]
            if len(set(keys)) < len(keys):
                ties += 1
            mm = dec(m)
            if mm != s['order'] and len([v for v in out if v.kind == 'correspondence']) < 5:
                out.append(Violation('correspondence', 'sort order of %s (key %d) differs between model and pydoctor' % (s['of'], s['which']),
                                     case={'kind': 'sort', 'modules': c['modules'], 'privacy': c.get('privacy', []), 'of': s['of'], 'which': s['which']},
                                     expected=mm, observed=s['order']))
            if s['which'] == 2:
                # the property, directly: _lckey orders by (lower-cased full name, full name) whatever the input order
                want = sorted(range(len(s['objs'])), key=lambda i: (s['objs'][i][2].lower(), s['objs'][i][2]))
                if want != s['order'] and len([v for v in out if v.kind == 'oracle']) < 3:
                    out.append(Violation('oracle', '_lckey does not order %s by (lower-cased full name, full name): ties are left to '
                                         'the iteration order of the collection' % s['of'],
                                         case={'kind': 'sort', 'modules': c['modules'], 'privacy': c.get('privacy', []), 'of': s['of'], 'which': 2},
                                         expected=want, observed=s['order']))
        self.stats['sort_lists'] = len(items)
        self.stats['sort_lists_with_key_ties'] = ties
        return out

    # ---- C. root_names, project name
    def tie_roots(self) -> List[Violation]:
        cases = self.roots_cases()
        per_seed = [lib.run_impl_worker('c18_tie.py', cases, seed=s, jobs=4) for s in (0, 1, 2)]
        fsm = self.model_fs([self.roots_to_nodes(c) for c in cases])
        items = []
        for c, f in zip(cases, fsm):
            n = self.dedup_len(f['roots'])
            nk = len(set(f['rootkinds']))
            for rev in (False, True):
                perm = list(range(n))[::-1] if rev else list(range(n))
                kperm = list(range(nk))[::-1] if rev else list(range(nk))
                items.append((f['roots'], perm, c['project_name'], c['probe'], f['rootkinds'], kperm))
        mod = self.model_roots(items)
        out: List[Violation] = []
        for i, c in enumerate(cases):
            self.evaluations += 1
            obs = [ps[i] for ps in per_seed]
            m_id, m_rev = mod[2 * i], mod[2 * i + 1]
            m_new = {k: v for k, v in m_id.items() if k != 'old_guess'}
            if {k: v for k, v in m_rev.items() if k != 'old_guess'} != m_new:
                out.append(Violation('correspondence', 'the model itself depends on the set order', case=c, expected=m_id, observed=m_rev,
                                     found_input=False))
            for s, o in zip((0, 1, 2), obs):
                if 'exit' in o:
                    out.append(Violation('correspondence', 'get_system exited: %s' % o['exit'], case=c, found_input=False))
                    continue
                got = {'project': o['project'], 'has_index_page': o['has_index_page'], 'is_root': o['is_root'],
                       'rootkind_text': o['rootkind_text'], 'roots': o['roots'], 'url_index_any': 1 if any(o['url_is_index']) else 0}
                want = {'project': m_id['project'], 'has_index_page': m_id['has_index_page'],
                        'is_root': 1 if c['probe'] in fsm[i]['roots'] else 0,
                        'rootkind_text': '/'.join(KIND_PLURAL[k] for k in m_id['rootkinds']), 'roots': fsm[i]['roots'],
                        'url_index_any': 1 if self.dedup_len(fsm[i]['roots']) == 1 else 0}
                if got != want and len([v for v in out if v.kind == 'correspondence']) < 5:
                    out.append(Violation('correspondence', 'project name / root handling differs from the model (hash seed %d)' % s,
                                         case=dict(c, hashseed=s), expected=want, observed=got))
            if any(o != obs[0] for o in obs) and len([v for v in out if v.kind == 'oracle']) < 3:
                k = [o != obs[0] for o in obs].index(True)
                out.append(Violation('oracle', 'get_system gives different results under PYTHONHASHSEED=0 and =%d: %s vs %s'
                                     % (k, {x: obs[0][x] for x in obs[0] if obs[0][x] != obs[k].get(x)},
                                        {x: obs[k][x] for x in obs[k] if obs[0].get(x) != obs[k][x]}),
                                     case=dict(c, seeds=[0, k]), observed=[obs[0], obs[k]]))
            if m_id['old_guess'] != m_rev['old_guess']:
                self.count('roots_cases_where_old_guess_was_order_dependent')
        self.sample({'roots': cases[5]})
        return out

    # ---- C'. TemplateLookup over an unsorted template directory listing
    def tie_templates(self) -> List[Violation]:
        names = ['a.css', 'A.css', 'b.js', 'B.JS', 'c.txt']
        cases = []
        for base in ([], [['a.css', 90]], [['B.js', 91], ['c.txt', 92]]):
            for k in range(0, 4):
                for sub in itertools.combinations(names, k):
                    files = [[n, i + 1] for i, n in enumerate(sub)]
                    for perm in itertools.permutations(files):
                        cases.append({'kind': 'templates', 'base': base, 'files': list(perm)})
        self.stats['templates_exhaustive'] = len(cases)
        impl = lib.run_impl_worker('c18_tie.py', cases, jobs=8)
        mod = self.model('det', [enc([5, c['files'], c['base']]) for c in cases])
        out: List[Violation] = []
        groups: Dict[str, Any] = {}
        for c, r, m in zip(cases, impl, mod):
            self.evaluations += 1
            mm = [[txt(e[0]), e[1]] for e in dec(m)]
            if r.get('templates') != mm and len(out) < 5:
                out.append(Violation('correspondence', 'TemplateLookup after add_templatedir differs from Model.load_dir',
                                     case=c, expected=mm, observed=r))
            lowered = [n.lower() for n, _ in c['files']]
            key = json.dumps([c['base'], sorted(c['files'])])
            first = groups.setdefault(key, (c, r))
            if 'templates' in r and sorted(first[1].get('templates', [])) != sorted(r['templates']):
                collide = len(set(lowered)) < len(lowered)
                self.count('templates_listing_dependent_' + ('case_collision' if collide else 'OTHER'))
                if len([v for v in out if v.kind == 'oracle']) < 4:
                    out.append(Violation('oracle', 'the templates written depend on the order in which the template directory is listed: '
                                         '%s vs %s' % (first[1]['templates'], r['templates']),
                                         case={'kind': 'templates_pair', 'a': first[0], 'b': c, 'case_collision': collide},
                                         observed=[first[1], r]))
        return out

    # ---- D. counters and file operations of complete runs
    def small_project(self, k: int) -> Dict[str, Any]:
        rng = random.Random(self.seed * 7 + k)
        c = gen_project(rng, want_roots=1 + k % 2, want_name=True)
        return c

    def tie_counters_ops(self) -> List[Violation]:
        out: List[Violation] = []
        from concurrent.futures import ThreadPoolExecutor
        jobs = []
        ncnt = 2 if self.tier == 'quick' else 8
        for k in range(ncnt):
            p = self.small_project(k)
            jobs.append({'kind': 'counters', 'files': p['files'], 'roots': p['roots']})
        prevs = ['none', 'same', 'stale', 'symlink', 'pagelink'] if self.tier == 'quick' else ['none', 'same', 'stale', 'symlink', 'pagelink'] * 3
        for k, pv in enumerate(prevs):
            p = self.small_project(100 + k)
            jobs.append({'kind': 'ops', 'files': p['files'], 'roots': p['roots'], 'prev': pv,
                         'args': ['--project-name=P']})
        with ThreadPoolExecutor(max_workers=8) as ex:      # one process per case: the counters are process-global
            res = list(ex.map(lambda j: lib.run_impl_worker('c18_tie.py', [j])[0], jobs))
        for j, r in zip(jobs, res):
            self.evaluations += 1
            if j['kind'] == 'counters':
                n1, n2 = len(r['runs'][0]['table']), len(r['runs'][0]['side'])
                m = [dec(x) for x in self.model('det', [enc([4, r['start'][0], n1]), enc([4, r['start'][1], n2]),
                                                        enc([4, r['start'][0] + n1, len(r['runs'][1]['table'])]),
                                                        enc([4, r['start'][1] + n2, len(r['runs'][1]['side'])])])]
                got = [r['runs'][0]['table'], r['runs'][0]['side'], r['runs'][1]['table'], r['runs'][1]['side']]
                want = [m[0][0], m[1][0], m[2][0], m[3][0]]
                self.stats['counter_ids_first_run'] = self.stats.get('counter_ids_first_run', 0) + n1 + n2
                if got != want:
                    out.append(Violation('correspondence', 'ids handed out by ChildTable / ExpandableItem differ from assign_ids',
                                         case=j, expected=want, observed=got))
                if r['start'] != [0, 0]:
                    out.append(Violation('correspondence', 'counters do not start at 0 in a fresh process', case=j, observed=r['start'],
                                         found_input=False))
                self.stats['second_in_process_run_pages_equal'] = r['second_run_pages_equal']
            else:
                out += self.check_ops(j, r)
        return out

    def check_ops(self, j: Any, r: Any) -> List[Violation]:
        out: List[Violation] = []
        bad_modes = [m for m in r['modes'] if m not in ('wb', 'w')]
        if bad_modes:
            out.append(Violation('oracle', 'a file of the output directory is opened with mode %s (not a truncating write): what a '
                                 'previous run left in it survives' % bad_modes, case=j, observed=r['modes']))
        ids: Dict[str, int] = {}

        def cid(h: str) -> int:
            return ids.setdefault(h, len(ids) + 1)
        final = {e[0]: e for e in r['final']}
        ops = []
        pending_unlink = None
        probed = None
        for o in r['ops']:
            if o[0] == 3:
                probed = o[1]                  # is_symlink() asked about this name: the next open of it is a PAGE write
                continue
            if o[0] == 2:
                continue                       # the unlink itself: part of WritePage / Relink
            if o[0] == 0:
                e = final.get(o[1])
                if e and e[1] == 1:            # written through a symlink: the bytes are at the target
                    e = final.get(e[2])
                ops.append([2 if probed == o[1] else 0, o[1], cid(e[2]) if e and e[1] == 0 else 0])
                self.count('ops_page_writes' if probed == o[1] else 'ops_following_writes')
                probed = None
            elif o[0] == 1:
                ops.append([1, o[1], o[2]])
        prev = [[e[0], e[1], cid(e[2]) if e[1] == 0 else e[2]] for e in r['prev']]
        m = dec(self.model('det', [enc([3, ops, prev])])[0])
        want = sorted([[txt(e[0]), e[1], e[2] if e[1] == 0 else txt(e[2])] for e in m])
        got = sorted([[e[0], e[1], cid(e[2]) if e[1] == 0 else e[2]] for e in r['final']])
        self.count('ops_runs_prev_' + j['prev'])
        self.stats['ops_recorded'] = self.stats.get('ops_recorded', 0) + len(ops)
        if want != got:
            d1 = [x for x in want if x not in got][:3]
            d2 = [x for x in got if x not in want][:3]
            out.append(Violation('correspondence', 'final output directory differs from apply_ops on the recorded operations: '
                                 'model-only %s, observed-only %s' % (d1, d2), case=j, expected=d1, observed=d2))
        if j['prev'] == 'same' and sorted(r['prev']) != sorted(r['final']):
            dd = [x for x in r['final'] if x not in r['prev']][:3]
            out.append(Violation('oracle', 'a second run over the result of the first run changed the directory: %s' % dd, case=j,
                                 observed=dd))
        return out

    # ---- E. the byte differential
    def cli_cases(self) -> List[Any]:
        n = 10 if self.tier == 'quick' else 300
        out = corpus_cases()
        self.stats['cli_corpus_cases'] = len(out)
        for i in range(n):
            if i % 3 == 0:
                c = gen_project(self.rng, want_roots=2 + (i // 3) % 2, want_name=False)   # the class 17874d0 was about
            elif i % 3 == 1:
                c = gen_project(self.rng, want_roots=1)
            else:
                c = gen_project(self.rng)
            out.append(c)
        # corpus: a single root module called index (index.html must stay a regular file), and two unnamed roots
        out.append({'files': {'index.py': '"""Idx."""\nclass K:\n    """k"""\n    def run(self): pass\n'}, 'dirs': [], 'roots': ['index.py'],
                    'args': ['-q'], 'time': 'epoch'})
        out.append({'files': {'b/__init__.py': '', 'b/m.py': 'class A: pass\n', 'b/M.py': 'class a: pass\n', 'a.py': 'from b.m import A\nclass B(A): pass\n'},
                    'dirs': [], 'roots': ['b', 'a.py'], 'args': ['-q'], 'time': 'buildtime'})
        if self.tier == 'thorough':
            out.append({'external': 'pydoctor', 'files': {}, 'roots': [], 'args': ['-q', '--project-name=pydoctor', '--docformat=epytext'],
                        'time': 'epoch'})
        return out

    def model_buildtimes(self, cases: List[Any]) -> List[str]:
        """the time stamp the pages must carry, from Model.buildtime (the clock is given as -1: never to be seen)"""
        import calendar, datetime, time as _t
        ins = []
        for c in cases:
            t = c.get('time', 'epoch')
            if t.startswith('epoch'):
                ins.append(enc([6, [int(t.split(':', 1)[1]) if ':' in t else 1234567890], None, -1]))
            else:
                ins.append(enc([6, None, [calendar.timegm(_t.strptime('2009-02-13 23:31:30', '%Y-%m-%d %H:%M:%S'))], -1]))
        out = []
        for o in self.model('det', ins):
            out.append(datetime.datetime.utcfromtimestamp(dec(o)).strftime('%Y-%m-%d %H:%M:%S'))
        return out

    @staticmethod
    def wrapper_order(seed: int, salt: str, names: List[str]) -> List[str]:
        """what c18_wrapper.py makes iterdir() return for a directory with these entries"""
        lst = sorted(names)
        random.Random('%d:%s' % (seed, salt)).shuffle(lst)
        return lst

    def known_template_collision(self) -> List[Violation]:
        """corpus (regression for 16ec2bc): a --template-dir with two names that differ only in case, built with two
        shuffle seeds chosen so that BOTH listing orders of the pair occur"""
        tpl = {'more.css': 'a{}\n', 'MORE.css': 'b{}\n', 'other.js': '//\n'}
        want: Dict[bool, int] = {}
        for s in range(1, 200):
            o = self.wrapper_order(s, 'src/templates_dir', list(tpl))
            want.setdefault(o.index('more.css') < o.index('MORE.css'), s)
            if len(want) == 2:
                break
        case = {'files': {'solo.py': '"""Solo."""\nclass K:\n    """k"""\n'}, 'dirs': [], 'roots': ['solo.py'],
                'args': ['-q', '--project-name=P'], 'time': 'epoch', 'templates': tpl}
        seeds = [0, want[True], want[False]]
        r = lib.run_impl_worker('c18_cli.py', {'cases': [case], 'seeds': seeds, 'jobs': 1})[0]
        self.evaluations += r['runs']
        self.count('template_case_collision_corpus_runs', r['runs'])
        if r['equal']:
            return []
        d = r['diff']
        return [Violation('oracle', 'two runs with the same --template-dir (names differing only in case) give different output trees: '
                          '%s: %s' % (d.get('file'), d.get('what')),
                          case={'kind': 'cli', 'case': case, 'seeds': seeds}, observed=d)]

    def history_cases(self) -> List[Any]:
        """two DIFFERENT commands, one after the other, into the same output directory (corpus)"""
        files = {'a.py': '"""A."""\nclass KA:\n    """ka"""\n', 'b.py': '"""B."""\nclass KB:\n    """kb"""\n',
                 'pk/__init__.py': '"""pk"""\n', 'pk/m.py': 'class M:\n    """m"""\n'}
        base = {'files': files, 'dirs': [], 'args': ['-q', '--project-name=P'], 'time': 'epoch'}
        return [
            dict(base, name='single root, then two roots', first={'roots': ['a.py'], 'args': base['args']}, roots=['a.py', 'b.py']),
            dict(base, name='two roots, then a single root', first={'roots': ['a.py', 'b.py'], 'args': base['args']}, roots=['a.py']),
            dict(base, name='single root package, then another single root', first={'roots': ['pk'], 'args': base['args']}, roots=['a.py']),
            dict(base, name='single root, then the same single root', first={'roots': ['pk'], 'args': base['args']}, roots=['pk']),
            dict(base, name='single root, then a package plus that root', first={'roots': ['a.py'], 'args': base['args']}, roots=['pk', 'a.py']),
        ]

    def histories(self) -> List[Violation]:
        cases = self.history_cases()
        res = lib.run_impl_worker('c18_cli.py', {'mode': 'history', 'cases': cases, 'jobs': 5}, timeout=1800)
        out: List[Violation] = []
        for c, r in zip(cases, res):
            self.evaluations += r['runs']
            self.count('history_runs', r['runs'])
            self.count('history_leftover_files', len(r['leftovers']))
            if not r['equal']:
                d = r['diff']
                out.append(Violation('oracle', 'history "%s": what the second command writes differs from the same command into a fresh '
                                     'directory: %s: %s | %r vs %r (symlinks left by the first run: %s)'
                                     % (c['name'], d.get('file'), d.get('what'), d.get('first'), d.get('second'), r['prev_symlinks']),
                                     case={'kind': 'history', 'case': c}, observed=dict(d, prev_symlinks=r['prev_symlinks'])))
        return out

    def differential(self, cases: List[Any], seeds: List[int], limit: int = 3) -> List[Violation]:
        out: List[Violation] = []
        ext = [c for c in cases if 'external' in c]
        gen = [c for c in cases if 'external' not in c]
        res = lib.run_impl_worker('c18_cli.py', {'cases': gen, 'seeds': seeds, 'jobs': 16}, timeout=3400) if gen else []
        if ext:
            res += lib.run_impl_worker('c18_cli.py', {'cases': ext, 'seeds': seeds[:3], 'jobs': 2}, timeout=3400)
        fsm = self.model_fs([fs_nodes(c) for c in gen])
        items = []
        for c, f in zip(gen, fsm):
            pn = [a.split('=', 1)[1] for a in c['args'] if a.startswith('--project-name=')]
            items.append((f['roots'], list(range(self.dedup_len(f['roots']))), pn[0] if pn else None, '', f['rootkinds'],
                          list(range(len(set(f['rootkinds']))))))
        mod = self.model_roots(items)
        bt_want = self.model_buildtimes(gen)
        distinct = set()
        for i, (c, r) in enumerate(zip(gen + ext, res)):
            self.evaluations += r['runs']
            self.count('cli_rc_%s' % r['rc'][0])
            self.count('cli_roots_%d' % len(c['roots']))
            self.count('cli_named' if any(a.startswith('--project-name') for a in c['args']) else 'cli_unnamed')
            for a in c['args']:
                if a.startswith('--theme=') or a.startswith('--docformat='):
                    self.count('cli_' + a[2:])
            self.stats['cli_runs'] = self.stats.get('cli_runs', 0) + r['runs']
            self.stats['cli_output_files'] = self.stats.get('cli_output_files', 0) + r['observed']['files']
            if 'crash' in r:
                self.count('cli_crashing_projects')
                self.notes.append('generated project crashed pydoctor (C01 territory, compared anyway): ' + r['crash'][-300:])
            distinct.add(case_digest(c))
            if c.get('inventories') and not r['observed'].get('ext_links'):
                out.append(Violation('correspondence', 'corpus problem: the intersphinx inventories of the case were not used '
                                     '(no link to the local server in any page): ' + r.get('crash', '')[-300:],
                                     case={'kind': 'cli', 'case': c, 'seeds': seeds}, found_input=False))
            if not r['equal'] and len([v for v in out if v.kind == 'oracle']) < limit:
                d = r['diff']
                where = '%s at byte %s' % (d.get('file'), d.get('offset', '-'))
                out.append(Violation('oracle', 'two runs over the same sources and options (%s output directory; hash seed %s vs %s, '
                                     'listings shuffled) give different output trees: %s: %s | %r vs %r'
                                     % (d.get('mode'), d.get('first_run', {}).get('hashseed'), d.get('second_run', {}).get('hashseed'),
                                        where, d.get('what'), d.get('first'), d.get('second')),
                                     case={'kind': 'cli', 'case': c, 'seeds': seeds}, observed=d))
            if i < len(gen) and r['observed']['files'] and 'crash' not in r:
                m = mod[i]
                want = {'project': m['project'], 'symlinks': {m['symlink']: 'index.html'} if m['symlink'] else {},
                        'buildtime': bt_want[i]}
                got = {'project': r['observed']['project'], 'symlinks': r['observed']['symlinks'],
                       'buildtime': r['observed'].get('buildtime')}
                if want != got and len([v for v in out if v.kind == 'correspondence']) < limit:
                    out.append(Violation('correspondence', 'project name / compat symlink of a real run differ from the model',
                                         case={'kind': 'cli', 'case': c, 'seeds': seeds}, expected=want, observed=got))
        self.stats['distinct_nontrivial'] = self.stats.get('distinct_nontrivial', 0) + len(distinct)
        if gen:
            c = gen[0]
            self.sample({'cli': {'roots': c['roots'], 'args': c['args'], 'files': sorted(c['files']),
                                 'first_file': list(c['files'].values())[0][:300]}})
        return out

    # -------------------------------------------------------------------------------- search / known / replay
    def search(self, broken: List[Violation]) -> List[Violation]:
        # what the translator now lists as order-dependent (goes into the evidence notes and the replay text)
        try:
            spec = importlib.util.spec_from_file_location('gen_c18', lib.VERIF / 'harness' / 'gen' / 'gen_c18.py')
            rc, txt_ = lib.sh([lib.PY, str(lib.VERIF / 'harness' / 'gen' / 'gen_c18.py')], env=lib.impl_env(), timeout=300)
            esc = [l.strip() for l in txt_.split('\n') if 'mkSite' in l and ('CtxIterate' in l or 'CtxEscapeCall' in l
                                                                             or 'KeyOther' in l or 'KeyOrderFunc' in l)]
            self.notes.append('order-dependent sites now in the source: ' + ' || '.join(esc)[:1500])
        except Exception as e:   # pragma: no cover
            self.notes.append('could not list escapes: %r' % e)
        rng = random.Random(self.seed + 99)
        cases = []
        for i in range(24):
            cases.append(gen_project(rng, want_roots=2 + i % 2, want_name=False) if i % 2 == 0 else gen_project(rng))
        found = [v for v in self.differential(cases, [0, 1, 2, 3, 5, 8], limit=1) if v.kind == 'oracle']
        return found[:1]

    def classify_known(self, v: Violation, known: List[dict]) -> Optional[dict]:
        c = v.case if isinstance(v.case, dict) else {}
        for k in known:
            m = k.get('match', {})
            if m.get('class') == 'template-case-collision':
                # exactly: a custom template dir holds two names equal when lower-cased, and the difference is in those files
                if c.get('kind') == 'templates_pair':
                    if c.get('case_collision'):
                        return k
                    continue
                if c.get('kind') == 'cli':
                    tpl = list(c['case'].get('templates', {}))
                    low = [t.lower() for t in tpl]
                    colliding = {t.lower() for t in tpl if low.count(t.lower()) > 1}
                    f = (v.observed or {}).get('file', '') if isinstance(v.observed, dict) else ''
                    if colliding and f.lower() in colliding:
                        return k
            if m.get('class') == 'leftover-root-symlink' and c.get('kind') == 'history':
                # exactly: run 1 had ONE root R and left R.html -> index.html; run 2 writes a page R.html (R is no longer the
                # single root); the first differing entry is that link or the index.html it points to
                hc = c['case']
                r1 = hc['first']['roots']
                obs = v.observed if isinstance(v.observed, dict) else {}
                if len(r1) == 1:
                    link = r1[0].split('/')[-1].removesuffix('.py') + '.html'
                    r2 = [x.split('/')[-1].removesuffix('.py') for x in hc['roots']]
                    if obs.get('prev_symlinks', {}).get(link) == 'index.html' and link[:-5] in r2 and len(r2) > 1 \
                            and obs.get('file') in (link, 'index.html'):
                        return k
        return None

    def replay(self, data: Any) -> int:
        case = data['input']
        kind = case.get('kind') if isinstance(case, dict) else None
        if kind == 'cli':
            r = lib.run_impl_worker('c18_cli.py', {'cases': [case['case']], 'seeds': case.get('seeds', [0, 1, 2]), 'jobs': 1})[0]
            print('project roots:', case['case']['roots'], 'args:', case['case']['args'])
            print('exit codes   :', r['rc'])
            if r['equal']:
                print('property     : holds on this input (all %d output trees byte-identical)' % r['runs'])
                return 0
            d = r['diff']
            print('property     : VIOLATED -- C18 requires byte-identical trees')
            print('  mode        :', d.get('mode'), '| first run', d.get('first_run'), '| second run', d.get('second_run'))
            print('  first differing file:', d.get('file'), '| byte offset:', d.get('offset', '-'), '|', d.get('what'))
            print('  first  :', repr(d.get('first')))
            print('  second :', repr(d.get('second')))
            return 1
        if kind == 'fs_pair':
            ra, rb = lib.run_impl_worker('c18_tie.py', [case['a'], case['b']])
            print('listing A:', case['a']['roots'], '->', ra['unproc'])
            print('listing B:', case['b']['roots'], '->', rb['unproc'])
            print('property : the same directory content must give the same modules in the same order')
            return 1 if ra != rb else 0
        if kind == 'history':
            r = lib.run_impl_worker('c18_cli.py', {'mode': 'history', 'cases': [case['case']], 'jobs': 1})[0]
            print('first command :', case['case']['first']['roots'], '| second command:', case['case']['roots'], '(same output directory)')
            print('leftovers of the first run (never cleaned):', r['leftovers'])
            if r['equal']:
                print('property      : every file the second command writes equals the fresh-directory build')
                return 0
            d = r['diff']
            print('property      : VIOLATED --', d.get('file'), d.get('what'), '| fresh:', repr(d.get('first'))[:160], '| reused:', repr(d.get('second'))[:160])
            return 1
        if kind == 'templates_pair':
            ra, rb = lib.run_impl_worker('c18_tie.py', [case['a'], case['b']])
            print('listing A:', case['a']['files'], '->', ra)
            print('listing B:', case['b']['files'], '->', rb)
            print('property : the same template directory must give the same static files whatever the listing order')
            return 1 if sorted(ra.get('templates', [])) != sorted(rb.get('templates', [])) else 0
        if kind == 'fs':
            r = lib.run_impl_worker('c18_tie.py', [case])[0]
            m = self.model_fs_standalone(case['roots'])
            print('observed:', json.dumps(r)); print('model   :', json.dumps(m))
            return 1 if r != m else 0
        if kind == 'roots':
            seeds = case.get('seeds', [0, 1, 2])
            obs = [lib.run_impl_worker('c18_tie.py', [case], seed=s)[0] for s in seeds]
            for s, o in zip(seeds, obs):
                print('PYTHONHASHSEED=%s ->' % s, json.dumps(o))
            print('property: identical results for every hash seed; project name joined in command-line order')
            names = [r.rstrip('/') for r in case['roots']]
            bad = any(o != obs[0] for o in obs) or (case.get('project_name') is None and len(set(names)) == len(names)
                                                  and obs[0].get('project') != '/'.join(names))
            return 1 if bad else 0
        if kind == 'sort':
            r = lib.run_impl_worker('c18_tie.py', [case])[0]
            bad = 0
            for s in r['sorts']:
                if s['which'] == 2:
                    want = sorted(range(len(s['objs'])), key=lambda i: (s['objs'][i][2].lower(), s['objs'][i][2]))
                    if want != s['order']:
                        print('_lckey order of', s['of'], [s['objs'][i][2] for i in s['order']], 'expected', [s['objs'][i][2] for i in want])
                        bad = 1
            print('property:', 'violated' if bad else 'holds on this input (for the model comparison run ./check C18)')
            return bad
        if kind in ('counters', 'ops'):
            r = lib.run_impl_worker('c18_tie.py', [case])[0]
            print(json.dumps(r)[:3000])
            if kind == 'ops':
                self.binaries['det'] = lib.BUILD / 'C18_det' / 'run'
                return 1 if self.check_ops(case, r) else 0
            return 0
        print('nothing to replay for', kind)
        return 2

    def model_fs_standalone(self, roots: Any) -> Any:
        self.binaries['det'] = lib.BUILD / 'C18_det' / 'run'
        return self.model_fs([roots])[0]
