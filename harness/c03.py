"""C03 -- what is documented in each namespace is what Python defines there.

Pieces (DESIGN.md 5.C03):
  model    Model/Builder.v  doc_walk      (extracted, mode 0)   <-- correspondence -->  adapter 1: real pydoctor build
  spec     Spec/PyBind.v    py_exec       (extracted, mode 1)   <-- spec validation ->  adapter 2: CPython import
  ORACLE   adapter 1 vs adapter 2 directly (pydoctor vs CPython), on modules of the agreed subset
  model    Model/Infer.v    annotation_for_value (mode 2)       <-- correspondence -->  astutils.infer_type
"""
from __future__ import annotations
import inspect
import itertools
import json
import re
from typing import Any, Dict, List, Optional, Set, Tuple
import lib
from lib import PropertyCheck, Violation, enc, dec, txt
import c03_minipy as mp
import c03_gen as gen

ORACLE_STAT: Dict[str, int] = {}
FK = ['FUNCTION', 'METHOD', 'CLASS_METHOD', 'STATIC_METHOD']
AK = ['VARIABLE', 'CLASS_VARIABLE', 'INSTANCE_VARIABLE', 'CONSTANT', 'PROPERTY']
NEW_EXC = {'ExceptionGroup', 'BaseExceptionGroup', 'EncodingWarning'}


# ------------------------------------------------------------------ decoding the model's answers
def d_opt_text(x: Any) -> Optional[str]:
    return None if x == [] else txt(x[0])


def d_ann(x: Any) -> Optional[str]:
    if x == []:
        return None
    a = x[0]
    if a[0] == 0:
        return txt(a[1])
    if a[0] == 1:
        return '%s[%s]' % (txt(a[1]), txt(a[2]))
    if a[0] == 2:
        return 'tuple[%s, ...]' % txt(a[1])
    return 'dict[%s, %s]' % (txt(a[1]), txt(a[2]))


def past_text(a: Any) -> str:
    if a[0] == 0:
        return txt(a[1])
    if a[0] == 1:
        return ', '.join(past_text(x) for x in a[1:])
    if a[0] == 2:
        return '...'
    return '%s[%s]' % (past_text(a[1]), past_text(a[2]))


def clean(d: Optional[str]) -> Optional[str]:
    return None if d is None else inspect.cleandoc(d)


def d_entries(l: Any) -> List[Dict[str, Any]]:
    out = []
    for name, o in l:
        e: Dict[str, Any] = {'n': txt(name)}
        if o[0] == 0:
            e.update(t='F', k=FK[o[1]], **{'async': bool(o[2])}, doc=clean(d_opt_text(o[3])), ann=None)
        elif o[0] == 1:
            e.update(t='C', k='EXCEPTION' if o[1] else 'CLASS', **{'async': None}, doc=clean(d_opt_text(o[2])), ann=None,
                     c=d_entries(o[3]), old=[[txt(n), t] for n, t in o[4]], _m=[[txt(n), t] for n, t in o[5]])
        else:
            e.update(t='A', k=AK[o[1]], **{'async': None}, doc=clean(d_opt_text(o[2])), ann=d_ann(o[3]))
        out.append(e)
    return out


def d_module(m: Any) -> Dict[str, Any]:
    return {'doc': clean(d_opt_text(m[0])), 'c': d_entries(m[1]), 'old': [[txt(n), t] for n, t in m[2]]}


def strip_ok(entries: List[Dict[str, Any]]) -> List[Dict[str, Any]]:
    out = []
    for e in entries:
        e = {k: v for k, v in e.items() if k not in ('ok', '_m')}
        if 'c' in e:
            e['c'] = strip_ok(e['c'])
        out.append(e)
    return out


def blur_bases(x: Any) -> Any:
    if isinstance(x, dict):
        return {k: ('CLASS' if v == 'EXCEPTION' else 'CLASS_VARIABLE' if v == 'INSTANCE_VARIABLE' else blur_bases(v)) if k in ('k', 'c') else v
                for k, v in x.items()}
    if isinstance(x, list):
        return [blur_bases(y) for y in x]
    return x


def d_pyenv(l: Any) -> List[Any]:
    out = []
    for name, v in l:
        n = txt(name)
        if v[0] == 0:
            out.append([n, 'F', v[2], bool(v[1]), clean(d_opt_text(v[3]))])
        elif v[0] == 1:
            out.append([n, 'C', bool(v[1]), clean(d_opt_text(v[2])), d_pyenv(v[3])])
        elif v[0] == 2:
            ty = None
            if v[1] != []:
                t = v[1][0]
                ty = [txt(t[0]), sorted({txt(x) for x in t[1]}), sorted({txt(x) for x in t[2]})]
            out.append([n, 'D', ty])
        else:
            out.append([n, 'X'])
    return out


def canon_cpython(ns: List[Dict[str, Any]], spec: List[Any]) -> List[Any]:
    """adapter-2 namespace in the shape of d_pyenv; entries the spec calls auxiliary or untyped are blurred alike"""
    sp = {e[0]: e for e in spec}
    out = []
    for e in ns:
        s = sp.get(e['n'])
        if s is not None and s[1] == 'X':
            out.append([e['n'], 'X'])
        elif e['t'] == 'F':
            out.append([e['n'], 'F', e['wrap'], e['async'], e['doc']])
        elif e['t'] == 'C':
            out.append([e['n'], 'C', e['exc'], e['doc'], canon_cpython(e['ns'], s[4] if s is not None and s[1] == 'C' else [])])
        elif e['t'] == 'D':
            out.append([e['n'], 'D', e['ty'] if (s is not None and s[1] == 'D' and s[2] is not None) else None])
        else:
            out.append([e['n'], e['t']])
    return out


# ------------------------------------------------------------------ syntactic helpers on MiniPy JSON
SUITES = {0: (4,), 1: (3,), 6: (2, 3), 7: (1, 2, 3, 4), 8: (1,), 9: (2, 3), 10: (1, 2)}


def all_stmts(body: List[Any]) -> Any:
    for s in body:
        yield s
        for k in SUITES.get(s[0], ()):
            yield from all_stmts(s[k])


def annotated_names(body: List[Any]) -> Set[str]:
    return {s[1][1] for s in all_stmts(body) if s[0] == 3 and s[1][0] != 1}


def tuple_target_names(body: List[Any]) -> Set[str]:
    return {n for s in all_stmts(body) if s[0] == 2 for t in s[1] if t[0] == 1 for n in t[1]}


def all_strings(body: List[Any]) -> Set[Optional[str]]:
    return {clean(s[1]) for s in all_stmts(body) if s[0] == 5}



def is_property_def(s: Any) -> bool:
    return any(d[1] and (d[1][-1].endswith('property') or d[1][-1].endswith('Property')) for d in s[2])


def attr_doc_truth(body: List[Any]) -> Tuple[Dict[Tuple[str, ...], Dict[str, Optional[str]]], Set[Tuple[str, ...]]]:
    """Generator-side ground truth for VARIABLE docstrings (CPython has none): a string statement is the docstring of a
    variable exactly when it IMMEDIATELY follows, in the same suite, an assignment whose (last) target is that variable
    (`x = ..`, `a = x = ..`, `x: T = ..`, and `self.x = ..` in a method).  A string statement that follows a def, a class or
    another string statement is nobody's docstring.  Every other position (after `pass`, after a compound statement, first
    statement of a compound body, after tuple unpacking / an old-style wrapping / an augmented assignment) is left unjudged:
    the namespace it could touch is returned in `tainted` and its variables are not compared.
    Returns ({namespace path (class names): {variable: cleaned docstring}}, tainted namespace paths)."""
    truth: Dict[Tuple[str, ...], Dict[str, Optional[str]]] = {}
    tainted: Set[Tuple[str, ...]] = set()
    seen_classes: Dict[Tuple[Tuple[str, ...], str], int] = {}

    def suite(stmts: List[Any], path: Tuple[str, ...], kind: str, first_is_doc: bool) -> None:
        for i, s in enumerate(stmts):
            t = s[0]
            if t == 5:
                if i == 0:
                    if not first_is_doc:
                        tainted.add(path)
                    continue
                prev = stmts[i - 1]
                tgt = None
                if prev[0] == 2:
                    rhs = prev[2]
                    wrapping = rhs[0] == 2 and rhs[1] in ('staticmethod', 'classmethod', 'property')
                    if not wrapping and rhs[0] != 1:              # not an old-style decoration, not an alias
                        tgt = prev[1][-1]
                elif prev[0] == 3:
                    tgt = prev[1]
                if tgt is not None:
                    if tgt[0] == 0 and kind in ('module', 'class'):
                        truth.setdefault(path, {})[tgt[1]] = clean(s[1])
                    elif tgt[0] == 2 and kind == 'method':
                        truth.setdefault(path, {})[tgt[1]] = clean(s[1])
                    else:
                        tainted.add(path)
                elif prev[0] in (0, 1, 5) and kind in ('module', 'class'):
                    pass                                   # nobody's docstring
                elif prev[0] == 5:
                    pass
                else:
                    tainted.add(path)
            elif t == 0:
                if kind == 'class' and not is_property_def(s):
                    suite(s[4], path, 'method', True)
            elif t == 1:
                if kind in ('module', 'class'):
                    k = (path, s[1])
                    seen_classes[k] = seen_classes.get(k, 0) + 1
                    suite(s[3], path + (s[1],), 'class', True)
            elif t == 6:
                if s[1] != 0:
                    suite(s[2], path, kind, False)
            elif t in (7, 8, 10):
                suite(s[1], path, kind, False)
            elif t == 9:
                suite(s[2], path, kind, False)
    suite(body, (), 'module', True)
    for (path, name), n in seen_classes.items():
        if n > 1:
            tainted.add(path + (name, '*'))               # a class statement executed twice: bodies cannot be told apart
    return truth, tainted


def ns_tainted(rel: Tuple[str, ...], tainted: Set[Tuple[str, ...]]) -> bool:
    return rel in tainted or any(rel[:k] + ('*',) in tainted for k in range(1, len(rel) + 1))


# ------------------------------------------------------------------ the property, stated on the two observations
def ann_matches(ann: str, ty: List[Any]) -> bool:
    m = re.match(r'^(\w+)(?:\[(.*)\])?$', ann)
    if not m:
        return False
    if m.group(1) != ty[0]:
        return False
    if m.group(2) is None:
        return True
    parts = [p.strip() for p in m.group(2).split(',')]
    if ty[0] == 'tuple':
        return len(parts) == 2 and parts[1] == '...' and ty[1] == [parts[0]]
    if ty[0] == 'dict':
        return len(parts) == 2 and ty[1] == [parts[0]] and ty[2] == [parts[1]]
    return len(parts) == 1 and ty[1] == [parts[0]]


def oracle_ns(path: str, doc: List[Dict[str, Any]], py: List[Dict[str, Any]], in_class: bool, ctx: Dict[str, Any],
              out: List[Dict[str, Any]], cls_info: Optional[Dict[str, Any]] = None, rel: Tuple[str, ...] = ()) -> None:
    """C03 on one namespace: `doc` = what pydoctor documents there, `py` = what CPython bound there."""
    d = {e['n']: e for e in doc}
    p = {e['n']: e for e in py if e['t'] not in ('M',) and not e['n'].startswith(('imp_', '_i'))}

    def rec(what: str, n: str, dv: Any, pv: Any, cls: Optional[str] = None) -> None:
        out.append({'ns': path, 'name': n, 'what': what, 'pydoctor': dv, 'cpython': pv, 'class': cls})
    if len(d) != len(doc):
        rec('twice', '?', [e['n'] for e in doc], None)
    # docstrings of variables: against the generator's ground truth (see attr_doc_truth)
    want_docs = ctx['attr_truth'].get(rel, {})
    # a string after `self.p = ..` for a property p (or after an assignment that did not create a variable) goes to whatever
    # attribute was pending before: one more "window not closed" position, left unjudged
    judged = not ns_tainted(rel, ctx['attr_taint']) and all(n in d and d[n]['t'] == 'A' and d[n]['k'] != 'PROPERTY' for n in want_docs)
    ctx['stat']['attrdoc_ns_judged' if judged else 'attrdoc_ns_unjudged'] = ctx['stat'].get('attrdoc_ns_judged' if judged else 'attrdoc_ns_unjudged', 0) + 1
    if judged:
        ctx['stat']['attrdoc_vars_with_doc'] = ctx['stat'].get('attrdoc_vars_with_doc', 0) + len(want_docs)
        for e in doc:
            if e['t'] == 'A' and e['k'] != 'PROPERTY' and e['doc'] != want_docs.get(e['n']):
                rec('variable-docstring', e['n'], e['doc'], {'generator ground truth': want_docs.get(e['n'])})
    for e in doc:
        if not e.get('ok', True):
            rec('twice', e['n'], 'contents key / object name / registry entry disagree', None)
    for n, pe in p.items():
        if n not in d:
            cls = None
            if in_class and pe['t'] == 'D' and cls_info is not None and n in cls_info.get('nondata_inherited', []):
                cls = 'class-variable-shadowing-inherited-method-not-documented'
            rec('missing', n, None, pe['t'], cls)
    for n, de in d.items():
        if de['t'] != 'C' and de.get('c'):
            rec('invented', n + '.' + de['c'][0]['n'], de['c'][0]['k'], 'nothing is bound inside a function or variable')
        if n not in p:
            if n.startswith(('imp_', '_i')):
                rec('invented', n, de['k'], 'auxiliary binding (import / loop variable)')
            elif not (in_class and de['k'] == 'INSTANCE_VARIABLE'):
                rec('invented', n, de['k'], None)
            continue
        pe = p[n]
        # kind
        if pe['t'] == 'F':
            want = 'PROPERTY' if pe['wrap'] == 3 else (['METHOD', 'STATIC_METHOD', 'CLASS_METHOD'][pe['wrap']] if in_class else 'FUNCTION')
        elif pe['t'] == 'C':
            want = 'EXCEPTION' if pe['exc'] else 'CLASS'
        elif pe['t'] == 'D':
            want = 'variable'
        else:
            continue
        got = de['k'] if de['k'] not in ('VARIABLE', 'CLASS_VARIABLE', 'INSTANCE_VARIABLE', 'CONSTANT') else 'variable'
        if got != want:
            rec('kind', n, de['k'], want)
            continue
        if pe['t'] == 'F' and de['t'] == 'F' and de['async'] != pe['async']:
            rec('async', n, de['async'], pe['async'])
        if pe['t'] in ('F', 'C') and de['doc'] != pe['doc']:
            rec('docstring', n, de['doc'], pe['doc'])
        if pe['t'] == 'D' and de['t'] == 'A' and de['ann'] is not None and n not in ctx['annotated'] \
                and de['k'] != 'INSTANCE_VARIABLE' and not ann_matches(de['ann'], pe['ty']):
            rec('type', n, de['ann'], pe['ty'], 'inferred-type-stale-after-tuple-unpacking' if n in ctx['tuple_targets'] else None)
        if pe['t'] == 'C' and de['t'] == 'C':
            oracle_ns(path + '.' + n, de['c'], pe['ns'], True, ctx, out, pe, rel + (n,))


def oracle_module(fullname: str, body: List[Any], doc_mod: Dict[str, Any], py_mod: Dict[str, Any]) -> List[Dict[str, Any]]:
    out: List[Dict[str, Any]] = []
    truth, taint = attr_doc_truth(body)
    ctx = {'annotated': annotated_names(body), 'strings': all_strings(body), 'tuple_targets': tuple_target_names(body),
           'attr_truth': truth, 'attr_taint': taint, 'stat': ORACLE_STAT}
    if doc_mod['doc'] != py_mod['doc']:
        out.append({'ns': fullname, 'name': '', 'what': 'docstring', 'pydoctor': doc_mod['doc'], 'cpython': py_mod['doc'], 'class': None})
    oracle_ns(fullname, doc_mod['c'], py_mod['ns'], False, ctx, out)
    return out


# ------------------------------------------------------------------ corpus and exhaustive small domain
def S(x: str) -> Any:
    return [5, x, 0]


X1 = [0, [0, 1]]


def lit(v: Any) -> Any:
    return [0, v]


def M_alphabet() -> List[List[Any]]:
    d = [S('doc\n  more')]
    return [
        [[0, 'x', [], False, d]],
        [[0, 'x', [], True, []]],
        [[1, 'x', [], d]],
        [[1, 'x', ['ValueError'], []]],
        [[2, [[0, 'x']], X1]],
        [[2, [[0, 'X']], lit([6, [0, 1], [0, 2]])]],
        [[3, [0, 'x'], 'int', [X1]]],
        [[4, [0, 'x'], X1]],
        [S('attr doc')],
        [[6, 1, [[0, 'x', [], False, []]], [], 1]],
        [[6, 0, [[0, 'x', [], False, []], [2, [[0, 'y']], X1]], [], 0]],
        [[7, [[2, [[0, 'x']], lit([2, 'a'])]], [], [], [[12, 'pass']]]],
        [[9, '_i0', [[2, [[0, 'y']], lit([1, True])]], []]],
        [[2, [[0, 'x'], [0, 'y']], lit([2, 'a'])]],
        [[2, [[1, ['x', 'y']]], lit([7, [0, 1], [0, 2]])]],
        [[2, [[0, 'y']], [3, "len('')"]]],
        [[1, 'y', ['x'], []]],
        [[10, [[1, 'y', [], [[2, [[0, 'X']], X1]]]], []]],
    ]


def C_alphabet() -> List[List[Any]]:
    d = [S('doc')]
    return [
        [[0, 'x', [], False, d + [[2, [[2, 'y']], X1], S('ivar doc')]]],
        [[0, 'x', [[0, ['staticmethod']]], False, []]],
        [[0, 'x', [[0, ['classmethod']]], True, []]],
        [[0, 'x', [[0, ['property']]], False, d]],
        [[2, [[0, 'x']], [2, 'staticmethod', ['x']]]],
        [[2, [[0, 'x']], [2, 'classmethod', ['x']]]],
        [[2, [[0, 'x']], X1]],
        [S('attr doc')],
        [[2, [[0, 'y']], lit([6])]],
        [[0, '__init__', [], False, [[2, [[2, 'x']], lit([2, 's'])]]]],
        [[1, 'x', [], d]],
        [[3, [0, 'x'], 'int', [X1]]],
        [[4, [0, 'x'], X1]],
        [[6, 1, [[0, 'x', [], False, []]], [], 0]],
        [[0, 'x', [[0, ['deco']], [0, ['staticmethod']]], False, []]],
        [[0, 'y', [], False, [[7, [[2, [[2, 'x']], X1]], [], [[2, [[2, 'z']], X1]], []]]]],
        [[8, [[2, [[0, 'X']], X1]], 0]],
    ]


PRELUDE = [[0, 'deco', [], False, [[12, 'return f']], 'f']]


def corpus() -> List[Dict[str, Any]]:
    """boundary cases named in DESIGN.md 5.C03 / found while building, one module each"""
    progs: List[Tuple[str, List[Any]]] = [
        # a string statement after a class / nested class / def / block is not the docstring of the last variable assigned inside
        ('string_after_scopes', [
            [1, 'Config', [], [S('Settings.'), [2, [[0, 'retries']], lit([0, 3])], S('How often to retry.'), [2, [[0, 'timeout']], lit([0, 30])]]],
            S('---- section banner ----'),
            [1, 'Outer', [], [[1, 'Inner', [], [[2, [[0, 'depth']], X1]]], S('x = old_code()'), [2, [[0, 'after']], X1], S('doc after'),
                              [0, 'meth', [], False, [[2, [[2, 'iv']], X1]]], S('not for iv')]],
            [0, 'func', [], False, [[12, 'x = 1']]], S('nobody'),
            [2, [[0, 'last']], X1], [2, [[0, 'a'], [0, 'b']], X1], S('doc b'),
            [6, 1, [[2, [[0, 'in_if']], X1]], [], 0], S('after a block (unjudged)')]),
        ('inherited_shadow', [[1, 'A', [], [[0, 'f', [], False, []]]], [1, 'B', ['A'], [[2, [[0, 'f']], [0, [5]]], [2, [[0, 'g']], X1]]]]),
        ('string_after_property', [[1, 'C', [], [[0, 'p', [[0, ['property']]], False, [S('real doc')]], S('stray')]]]),
        ('property_then_self', [[1, 'C', [], [[0, 'x', [[0, ['property']]], False, [S('d')]],
                                              [0, '__init__', [], False, [[2, [[2, 'x']], X1]]]]]]),
        ('self_then_property', [[1, 'C', [], [[0, '__init__', [], False, [[2, [[2, 'x']], X1]]],
                                              [0, 'x', [[0, ['property']]], False, [S('d')]]]]]),
        ('exception_group', [[1, 'G', ['ExceptionGroup'], []], [1, 'W', ['EncodingWarning'], []], [1, 'H', ['G'], []]]),
        ('dup3', [[2, [[0, 'x']], X1], [0, 'x', [], False, [S('d')]], [1, 'x', [], [S('cls')]]]),
        ('exc_chain', [[1, 'E', ['ValueError'], []], [1, 'E2', ['E'], []], [1, 'E', [], []], [1, 'E3', ['E'], []], [1, 'M', ['E3', 'KeyError'], []]]),
        ('nested_classes', [[1, 'A', [], [S('a'), [1, 'B', [], [S('b'), [0, 'm', [], False, [S('m')]]]], [1, 'C', ['B'], []]]]]),
        ('ivar_inherit', [[1, 'A', [], [[0, '__init__', [], False, [[2, [[2, 'iv']], X1]]]]], [1, 'B', ['A'], [[2, [[0, 'iv']], lit([0, 3])]]]]),
        ('constants', [[2, [[0, 'TOP']], X1], [2, [[0, 'TOP']], lit([0, 2])], [2, [[0, 'K']], X1], [6, 1, [[2, [[0, 'IN_IF']], X1]], [], 0],
                       [1, 'C', [], [[2, [[0, 'CC']], X1]]]]),
        ('main_block', [[6, 0, [[0, 'main', [], False, []], [1, 'Z', [], []], [2, [[0, 'zz']], X1]], [], 0], [0, 'keep', [], False, []]]),
        ('nested_defs', [[0, 'f', [], False, [[0, 'inner', [], False, [S('no')]], [1, 'In', [], []]]],
                         [1, 'C', [], [[0, 'm', [], False, [[0, 'inner', [], False, []], [2, [[2, 'a']], X1]]]]]]),
        ('oldschool', [[1, 'C', [], [[0, 's', [], False, [S('sd')]], [2, [[0, 's']], [2, 'staticmethod', ['s']]],
                                     [0, 'c', [], True, []], [2, [[0, 'c']], [2, 'classmethod', ['c']]]]]]),
        ('attr_doc', [[2, [[0, 'a']], X1], S('doc a'), [2, [[0, 'b'], [0, 'c']], X1], S('doc c'), [0, 'f', [], False, []], S('nobody'),
                      [2, [[0, 'd']], X1], [12, 'pass'], S('doc d'), [4, [0, 'd'], X1], S('after aug')]),
        ('flow_all', [[7, [[0, 't', [], False, []]], [], [], []], [8, [[1, 'W', [], []]], 1], [9, '_i0', [[2, [[0, 'fo']], X1]], []],
                      [10, [[2, [[0, 'wh']], X1]], []], [6, 1, [[6, 1, [[0, 'deep', [], True, []]], [], 2]], [], 3]]),
        ('types', [[2, [[0, 'a']], lit([6, [1, True], [0, 1]])], [2, [[0, 'b']], lit([6])], [2, [[0, 'c']], lit([7, [0, 1], [0, 2]])],
                   [2, [[0, 'd']], lit([9, [[2, 'k']], [[0, 1]]])], [2, [[0, 'e']], lit([8, [0, 1]])], [2, [[0, 'f']], lit([6, [6]])],
                   [2, [[0, 'g']], lit([5])], [2, [[0, 'h']], lit([6, [5]])], [2, [[0, 'i']], lit([9, [[0, 1]], [[5]]])]]),
    ]
    mods = [{'name': '__init__', 'body': [S('package doc')], 'sub': None, 'corr': True}]
    for name, body in progs:
        mods.append({'name': name, 'body': PRELUDE + body, 'sub': None, 'corr': True})
    out = [{'pkg': 'corpus0', 'mods': mods}]
    # one class per builtin exception (exhaustive over CPython's builtin exception classes)
    import builtins
    excs = sorted(n for n in dir(builtins) if isinstance(getattr(builtins, n), type) and issubclass(getattr(builtins, n), BaseException))
    body = [[1, 'E_' + n, [n], []] for n in excs] + [[1, 'P_' + n, [n], []] for n in ('object', 'dict', 'int')]
    out.append({'pkg': 'corpus1', 'mods': [{'name': '__init__', 'body': [], 'sub': None, 'corr': True},
                                           {'name': 'excs', 'body': body, 'sub': None, 'corr': True}]})
    return out


def exhaustive(maxlen: int) -> List[Dict[str, Any]]:
    progs: List[List[Any]] = []
    M, C = M_alphabet(), C_alphabet()
    for L in range(1, maxlen + 1):
        for combo in itertools.product(M, repeat=L):
            progs.append(PRELUDE + [s for t in combo for s in t])
        for combo in itertools.product(range(len(C)), repeat=L):
            combo = [C[k] for k in combo]
            progs.append(PRELUDE + [[1, 'C0', [], [s for t in combo for s in t]]])
    pk = []
    per = 40
    for i in range(0, len(progs), per):
        mods = [{'name': '__init__', 'body': [], 'sub': None, 'corr': True}]
        for j, b in enumerate(progs[i:i + per]):
            mods.append({'name': 'e%d' % j, 'body': b, 'sub': None, 'corr': True})
        pk.append({'pkg': 'ex%d' % (i // per), 'mods': mods})
    return pk


def cross_module(rng: Any, idx: int) -> Dict[str, Any]:
    """classes deriving from classes imported from a sibling module (model, pydoctor and CPython all compared)"""
    pkg = 'x%d' % idx
    base_exc = rng.choice(gen.BUILTIN_EXC + gen.NEW_EXC)
    m0 = [[1, 'Base', [base_exc] if rng.random() < 0.6 else [], [S('base'), [0, 'meth', [], False, [S('m'), [2, [[2, 'iv']], X1]]],
                                                               [2, [[0, 'cv']], X1]]],
          [1, 'Mid', ['Base'], [[0, 'other', [], False, []]]],
          [0, 'helper', [], rng.random() < 0.3, [S('h')]]]
    how = rng.choice(['from %s.m0 import Base as imp_B', 'import %s.m0 as imp_m', 'from %s import m0 as imp_m', 'from %s.m0 import Mid as imp_B'])
    if 'imp_B' in how:
        base, names, refs = 'imp_B', ['imp_B'], [['%s.m0' % pkg, 'Mid' if 'Mid' in how else 'Base']]
    else:
        base, names, refs = 'imp_m.' + rng.choice(['Base', 'Mid']), ['imp_m'], [['%s.m0' % pkg, None]]
    m1 = [[11, names, how % pkg, None, refs],
          [1, 'Derived', [base], [S('derived'), [2, [[0, rng.choice(['attr', 'meth', 'iv', 'cv', 'other'])]], X1]], [[0, ['deco']]] if rng.random() < 0.3 else []],
          [1, 'Third', ['Derived'], [[1, 'Inner', [rng.choice(['Derived', base])], [[2, [[0, 'iv']], X1]]]]]]
    return {'pkg': pkg, 'mods': [{'name': '__init__', 'body': [S('pkg')], 'sub': True, 'corr': True},
                                 {'name': 'm0', 'body': PRELUDE + m0, 'sub': True, 'corr': True},
                                 {'name': 'm1', 'body': PRELUDE + m1, 'sub': True, 'corr': True}]}


def fullname(pkg: str, mod: str) -> str:
    return pkg if mod == '__init__' else pkg + '.' + mod


def files_of(case: Dict[str, Any]) -> Dict[str, str]:
    return {'%s/%s.py' % (case['pkg'], m['name']): mp.pp_module(m['body']) for m in case['mods']}


# ------------------------------------------------------------------ value-level (infer_type)
def small_values() -> List[Any]:
    atoms = [[0, 1], [0, -2], [1, True], [1, False], [2, 'a'], [3, 'b'], [4, '1.5'], [5]]
    out = list(atoms)
    for tag in (6, 7, 8):
        out.append([tag])
        for a in atoms:
            out.append([tag, a])
        for a, b in itertools.product(atoms, repeat=2):
            if tag == 8 and (a == b or {tuple(a), tuple(b)} in ({(0, 1), (1, True)},)):
                continue
            out.append([tag, a, b])
    out.append([9, [], []])
    for k in atoms:
        for v in atoms:
            out.append([9, [k], [v]])
    for k1, k2 in [([0, 1], [0, 2]), ([2, 'a'], [0, 2]), ([2, 'a'], [2, 'b'])]:
        for v1, v2 in itertools.product(atoms[:6], repeat=2):
            out.append([9, [k1, k2], [v1, v2]])
    nests = [[6, [6]], [6, [6, [0, 1]]], [7, [7, [0, 1]], [7, [0, 2]]], [6, [7]], [6, [9, [], []]], [9, [[0, 1]], [[6]]], [7, [6], [6]],
             [6, [6], [7]], [8, [7]], [9, [[7]], [[0, 1]]]]
    return out + nests


class Check(PropertyCheck):
    id = 'C03'
    props_module = 'Props.C03'
    models = {'builder': 'XBuilder.v'}
    needs_gen = True
    gen_modules = ['gen_c03', 'gen_c03_code']
    rule = ('generated MiniPy packages (module/class bodies with def/async def/class/assignments/annotated and augmented '
            'assignments/string statements/if/try/with/for/while/imports, decorators, nested classes, methods assigning self.x) '
            'printed to real source, built by pydoctor and imported by CPython; plus EVERY sequence of <= N statement templates '
            'over 18 module-level and 17 class-level templates; non-trivial = the module documents at least one class or '
            'function AND contains a rebinding, a compound statement or a decorator; distinct by source text')
    trusted_base = [
        'Coq 8.16.1 kernel; vm_compute for Examples/_refuted witnesses and table lemmas; no native_compute; no axioms',
        'translator harness/gen/gen_c03_code.py (fail-closed): the bodies of astutils.infer_type/_annotation_for_value/_annotation_for_elements, '
        'model.is_exception and ModuleVistor._handleOldSchoolMethodDecoration -> Gen/BuilderCode.v in the language of Model/BuilderIR.v; its '
        'primitives (ast.literal_eval, ast.Name/Tuple/Constant/Subscript constructors, set of str, Class.mro(True, False), contents.get, '
        'isinstance on the inspected trees, tuple membership by ==) are stated assumptions; calls of same-module functions / same-class '
        'methods are inlined by the translator (fresh variables, SCall), which is trusted to keep evaluation order (it refuses conditional positions)',
        'translator harness/gen/gen_c03.py (fail-closed): _STD_LIB_EXCEPTIONS, MODULE_VARIABLES_META_PARSERS, _CONTROL_FLOW_BLOCKS, '
        'the attribute get_children iterates, the names _handleOldSchoolMethodDecoration accepts',
        'extraction ExtrOcamlBasic only + coq/ocaml/driver.ml; harness/c03*.py, harness/impl/c03_*.py (pretty-printer, adapters)',
        'oracle inspect.cleandoc (a section variable in the model; the harness applies the real function to the model side); '
        'docstrings with lone surrogates (escaped by extract_docstring) are not generated',
        'Spec/PyBind.v is hand-written from the language reference and validated against CPython 3.12 on every run',
        'modelled not verified: CPython ast.parse / ast.literal_eval; typing.overload, typing.Final, type comments, __all__/__docformat__ '
        'parsing, __doc__ assignments, setter/deleter decorators, zope/attrs/deprecate extensions, non-ASCII identifiers (isupper) '
        'are outside the model; imported base classes are compared by the oracle only (not by the model)',
    ]
    assumptions = ['decorators are the builtin names, unshadowed; other decorators return their argument unchanged',
                   'calls on right-hand sides return plain data values; names of builtin classes are not rebound']
    manifest = {
        'text': ('Theorems over Model/Builder.v (ModuleVistor restricted to the MiniPy statement language: def/class with decorators, dotted and '
                 'imported base classes, assignments, string statements, if/try/with/for/while, imports; with addObject/handleDuplicate, '
                 'Class.find, currentAttr, expandName over enclosing scopes and the import map, is_exception and the instance-variable '
                 'post-processing) against the independent Spec/PyBind.v (CPython binding semantics of the subset, validated against a real '
                 'CPython import on every run). In the module and in every class namespace: documented keys pairwise distinct = the definitions '
                 'Python binds + the instance variables (C03_names_agree_partial, _module_partial, C03_classes_reached_partial); which self.x '
                 'assignments create instance variables, exactly (C03_instance_variables_partial, C03_class_value_ivars); kind, is_async, docstring '
                 'of functions/methods/class/static methods (decorator, old-style wrapping and re-wrapping)/properties/classes, EXCEPTION iff subclass of '
                 'BaseException at any nesting depth and through bases imported from another module (C03_kinds_agree_partial, C03_docstring_partial, '
                 'C03_module_docstring); attribute docstrings follow currentAttr (C03_docstring_attribute, _not_after_def/_class/_augassign); the '
                 'literal remembered for a variable is the one Python bound, its stored annotation is the inferred one and denotes the type of the '
                 'value (C03_infer_type_program_partial, C03_infer_type_sound, _empty_bare, _bool_not_int). Guards are semantic and exact for the two '
                 'known findings (py_exec_names: class variable shadowing an inherited method; py_exec_strict: unpacking into a name holding a literal), '
                 'with witnesses; three repaired defects kept as _old_refuted/_fixed. Tie: doc_walk vs the real builder on every sequence of <= 2 (quick) / '
                 '3 (thorough) statement templates and on random multi-module packages (imports resolved through the model of the imported module); '
                 'oracle = pydoctor build vs CPython import of the same packages, variable docstrings against the generator ground truth.'),
        'code_tie': ('The bodies of infer_type, _annotation_for_value, _annotation_for_elements, is_exception and '
                     '_handleOldSchoolMethodDecoration are translated from the current source on every run (harness/gen/gen_c03_code.py -> '
                     'Gen/BuilderCode.v); C03_code_{annotation_for_value,annotation_for_elements,infer_type,is_exception,oldschool}_is_model prove, '
                     'for all inputs, that their interpretation (Model/BuilderIR.v) is the hand-written model; C03_code_infer_type_sound restates '
                     'the property on the translated code; the interpreted code is a third leg of the infer_type correspondence.'),
        'note': ('Variable docstrings are compared with the generator ground truth (string immediately after the assignment in the same '
                 'suite; after def/class/string: nobody); positions after pass/compound statements/tuple unpacking are left unjudged. '
                 'Partial: bindings in else/except/finally suites and untaken ifs, aliases `x = y`, annotations without value, rebinding a '
                 'function or class by a plain assignment, `x = property(f)`, setter/deleter/overload decorators, base-class names that an enclosing '
                 'class body binds or assigns through self, dotted bases other than importedmodule.Class are outside the agreed subset (py_exec = None). '
                 'Trusted: Coq kernel, translator gen_c03.py, extraction + driver, harness and pretty-printer, cleandoc oracle, and the import '
                 'annotations the harness derives from the model result of the imported module.'),
        'technique': 'Coq proof (simulation invariant between the builder walk and CPython binding semantics over scope chains; induction on '
                     'literal values) + regenerated tables + two-sided correspondence + differential oracle against CPython',
    }

    # ------------------------------------------------------------------ case streams
    def packages(self, tier: str) -> List[Dict[str, Any]]:
        out = corpus() + exhaustive(2 if tier == 'quick' else 3)
        self.exhaustive = True
        self.stats['exhaustive_max_templates'] = 2 if tier == 'quick' else 3
        self.stats['exhaustive_modules'] = sum(len(p['mods']) - 1 for p in out)
        nrand = 1200 if tier == 'quick' else 20000
        n_pk = 0
        made = 0
        while made < nrand:
            n_mods = self.rng.randint(2, 4)
            p = gen.random_package(self.rng, 'r%d' % n_pk, 0.12, n_mods, self.rng.choice([8, 15, 25]))
            out.append(p)
            made += n_mods
            n_pk += 1
        self.stats['random_modules'] = made
        ncross = 20 if tier == 'quick' else 300
        for i in range(ncross):
            out.append(cross_module(self.rng, i))
        self.stats['cross_module_packages'] = ncross
        return out

    # ------------------------------------------------------------------ running everything on a list of packages
    def observe(self, pkgs: List[Dict[str, Any]], with_model: bool = True) -> Tuple[List[Any], List[Any], Dict[Tuple[int, str], Any]]:
        payload1 = [{'pkg': p['pkg'], 'files': files_of(p)} for p in pkgs]
        payload2 = []
        for p, q in zip(pkgs, payload1):
            names: Set[str] = set()
            for m in p['mods']:
                mp.binding_names(m['body'], names)
            payload2.append({'pkg': p['pkg'], 'files': q['files'], 'modules': [fullname(p['pkg'], m['name']) for m in p['mods']],
                             'names': sorted(names)})
        jobs = 12 if len(pkgs) >= 48 else 1
        a1 = lib.run_impl_worker('c03_builder.py', payload1, jobs=jobs, seed=self.seed)
        a2 = lib.run_impl_worker('c03_cpython.py', payload2, jobs=jobs, seed=self.seed)
        mod: Dict[Tuple[int, str], Any] = {}
        if with_model:
            mod = self.model_rounds(pkgs, a2)
        return a1, a2, mod

    def model_rounds(self, pkgs: List[Dict[str, Any]], a2: Optional[List[Any]] = None) -> Dict[Tuple[int, str], Any]:
        """Runs the extracted model on every module; a module that imports from another module of its package is run after
        it, with the import statement annotated by what was found there (resolved-bases oracle): the documentation side
        (mode 0) gets what the MODEL found in the imported module, the Python side (mode 1) what CPYTHON has there (adapter 2),
        so that Spec.PyBind stays independent of pydoctor; the two annotations must agree on what they share."""
        mod: Dict[Tuple[int, str], Any] = {}
        where = {}
        in_subset = {}
        for i, p in enumerate(pkgs):
            for m in p['mods']:
                where[fullname(p['pkg'], m['name'])] = (i, m['name'])
                in_subset[fullname(p['pkg'], m['name'])] = m['sub'] is not False
        pending = [(i, m) for i, p in enumerate(pkgs) for m in p['mods']]

        def imports_of(m: Dict[str, Any]) -> List[Any]:
            return [s for s in all_stmts(m['body']) if s[0] == 11 and len(s) > 4 and s[4]]

        def info_for(ref: Any) -> Any:
            if not ref:
                return [0]
            k = where.get(ref[0])
            if k is None or k not in mod:
                return None
            doc = d_module(mod[k][0])
            classes = [[e['n'], e['k'] == 'EXCEPTION', e['_m']] for e in doc['c'] if e['t'] == 'C']
            if ref[1] is None:
                return [2, classes]
            for n, x, ms in classes:
                if n == ref[1]:
                    return [1, x, ms]
            return [0]

        def py_info_for(ref: Any, fallback: Any) -> Any:
            if not ref or a2 is None:
                return fallback
            k = where.get(ref[0])
            pm = a2[k[0]]['modules'].get(ref[0]) if k is not None else None
            if pm is None or 'error' in pm:
                return fallback
            aux = ('imp_', '_i')           # auxiliary bindings (imports, loop variables) are not members
            classes = [[e['n'], e['exc'], [x for x in e.get('members', []) if not x[0].startswith(aux)]]
                       for e in pm['ns'] if e['t'] == 'C' and not e['n'].startswith(aux)]
            if ref[1] is None:
                return [2, classes]
            for n, x, ms in classes:
                if n == ref[1]:
                    return [1, x, ms]
            return [0]

        def consistent(a: Any, b: Any) -> bool:
            def norm(i: Any) -> Any:
                if i[0] == 1:
                    return [1, i[1], sorted({n for n, t in i[2] if t == 0})]
                if i[0] == 2:
                    return [2, sorted([n, x, sorted({m for m, t in ms if t == 0})] for n, x, ms in i[1])]
                return [0]
            return norm(a) == norm(b)
        for _ in range(8):
            if not pending:
                break
            ready, later = [], []
            for i, m in pending:
                ok = True
                for s in imports_of(m):
                    infos = [info_for(r) for r in s[4]]
                    if any(x is None for x in infos):
                        ok = False
                        break
                    s[3:4] = [infos]
                (ready if ok else later).append((i, m))
            if not ready:                      # circular / unknown reference: run without information
                for i, m in later:
                    for s in imports_of(m):
                        s[3:4] = [[[0]] * len(s[1])]
                ready, later = later, []
            lines = []
            for i, m in ready:
                lines.append(enc([0, mp.to_wire(m['body'])]))
                saved = []
                for s in imports_of(m):
                    saved.append((s, s[3]))
                    pinfos = [py_info_for(r, f) for r, f in zip(s[4], s[3])]
                    if not all(consistent(a, b) or not in_subset.get(r[0] if r else '', False) for a, b, r in zip(s[3], pinfos, s[4])):
                        m['import_info_mismatch'] = [s[3], pinfos]
                    s[3] = pinfos
                lines.append(enc([1, mp.to_wire(m['body'])]))
                for s, old in saved:
                    s[3] = old
            res = self.model('builder', lines)
            for j, (i, m) in enumerate(ready):
                mod[(i, m['name'])] = (dec(res[2 * j]), dec(res[2 * j + 1]))
            pending = later
        return mod

    def judge(self, pkgs: List[Dict[str, Any]], a1: List[Any], a2: List[Any], mod: Dict[Tuple[int, str], Any],
              out: List[Violation], count: bool = True) -> None:
        for i, p in enumerate(pkgs):
            if 'error' in a1[i]:
                if len(out) < 40:
                    out.append(Violation('correspondence', 'pydoctor could not build a generated package: ' + a1[i]['error'][:500],
                                         case={'pkg': p['pkg'], 'mods': p['mods']}, found_input=False))
                continue
            for m in p['mods']:
                fn = fullname(p['pkg'], m['name'])
                body = m['body']
                src = mp.pp_module(body)
                if count:
                    self.evaluations += 1
                doc_impl = a1[i]['modules'].get(fn)
                py_impl = a2[i]['modules'].get(fn)
                case = {'pkg': p['pkg'], 'mods': p['mods'], 'focus': m['name']}
                if doc_impl is None:
                    out.append(Violation('correspondence', 'module %s missing from the pydoctor system' % fn, case=case))
                    continue
                spec_ok = None
                if m.pop('import_info_mismatch', None) is not None and len(out) < 40:
                    out.append(Violation('correspondence', 'what the model finds in a module imported by %s (classes, exception flags, '
                                         'methods) differs from what CPython has there' % fn, case=case))
                if (i, m['name']) in mod:
                    mdoc, (mpy, names_ok, strict) = mod[(i, m['name'])]
                    spec_ok = mpy[0] == 1
                    if count and names_ok:
                        self.count('py_exec_names_accepts')
                    if count and strict:
                        self.count('py_exec_strict_accepts')
                    # --- correspondence: Model.Builder.doc_walk vs the real builder
                    if m.get('corr', True):
                        want = d_module(mdoc)
                        want['c'] = strip_ok(want['c'])
                        got = {'doc': doc_impl['doc'], 'c': strip_ok(doc_impl['c']), 'old': doc_impl['old']}
                        if py_impl is not None and str(py_impl.get('error', '')).startswith(('NameError', 'TypeError')):
                            # a base class that is not (yet) a class when the class statement runs: pydoctor re-resolves such bases
                            # after the walk, the model does not (the module cannot be imported: outside the property)
                            want, got = blur_bases(want), blur_bases(got)
                            if count:
                                self.count('blurred_unimportable')
                        if want != got and len([v for v in out if v.kind == 'correspondence']) < 20:
                            out.append(Violation('correspondence', 'Model.Builder.doc_walk and pydoctor.astbuilder disagree on module %s' % fn,
                                                 case=case, expected=want, observed=got))
                    # --- spec validation: Spec.PyBind.py_exec vs CPython
                    if spec_ok and py_impl is not None and 'error' not in py_impl:
                        spec_env = d_pyenv(mpy[1])
                        real = canon_cpython(py_impl['ns'], spec_env)
                        blur = [[e[0], 'D', None] if (e[1] == 'D' and e[2] is None) else e for e in spec_env]
                        if sorted(blur) != sorted(real):
                            raise RuntimeError('SPEC VALIDATION FAILED (broken check, not a finding about pydoctor): Spec.PyBind.py_exec and '
                                               'CPython disagree on\n%s\nspec   : %s\ncpython: %s' % (src, sorted(blur), sorted(real)))
                        if count:
                            self.count('spec_validated_modules')
                    if count:
                        self.count('py_exec_accepts' if spec_ok else 'py_exec_rejects')
                if py_impl is None or 'error' in py_impl:
                    if count:
                        self.count('not_importable')
                        if spec_ok:
                            self.count('py_exec_accepts_but_import_fails')
                    continue
                in_subset = (m['sub'] is not False) and (spec_ok is not False or not m.get('corr', True))
                if not in_subset:
                    if count:
                        self.count('outside_subset_modules')
                    continue
                # --- ORACLE: pydoctor vs CPython
                discs = oracle_module(fn, body, doc_impl, py_impl)
                if count:
                    self.count('oracle_modules')
                    nt = any(e['t'] in ('F', 'C') for e in doc_impl['c']) and (doc_impl['old'] or any(s[0] in (6, 7, 8, 9, 10) for s in body)
                                                                               or any(s[0] == 0 and s[2] for s in all_stmts(body)))
                    if nt:
                        self.nontrivial.add(src)
                    for s in all_stmts(body):
                        self.count('stmt_%d' % s[0])
                    self.count('size_%d' % min(30, 5 * (mp.count_stmts(body) // 5)))
                    self.count('depth_%d' % mp.depth(body))
                    if len(self.samples) < 4 and nt and self.rng.random() < 0.02:
                        self.sample({'module': fn, 'source': src})
                if discs:
                    out.append(Violation('oracle', 'pydoctor and CPython disagree on %s: ' % fn + '; '.join(
                        '%s %s.%s (pydoctor %r, CPython %r)' % (x['what'], x['ns'], x['name'], x['pydoctor'], x['cpython']) for x in discs[:4]),
                        case=case, observed=discs))

    def infer_stream(self, out: List[Violation]) -> None:
        vals = small_values()
        self.stats['infer_exhaustive_values'] = len(vals)
        g = gen.Gen(self.rng)
        nrand = 300 if self.tier == 'quick' else 5000
        for _ in range(nrand):
            vals.append(g.encode_value(g.pyvalue()))
        srcs = [mp.pp_value(v) for v in vals]
        impl = lib.run_impl_worker('c03_infer.py', srcs, seed=self.seed)
        res = self.model('builder', [enc([2, v]) for v in vals])
        code = self.model('builder', [enc([3, v]) for v in vals])      # the translated source of _annotation_for_value, interpreted
        self.evaluations += len(vals)
        for v, s, (ann, ty), r, cr in zip(vals, srcs, impl, res, code):
            r = dec(r)
            cr = dec(cr)
            c_ann = None if cr == [0] else (past_text(cr[1]) if cr and cr[0] == 1 else '<interpreter error>')
            if c_ann != ann and len(out) < 40:
                out.append(Violation('correspondence', 'the interpreted translation of astutils._annotation_for_value (Gen/BuilderCode.v) and '
                                     'astutils.infer_type disagree on %s' % s, case={'value': v}, expected=c_ann, observed=ann))
            self.count('code_leg_values')
            m_ann = d_ann(r[0])
            m_ty = [txt(r[1][0]), sorted({txt(x) for x in r[1][1]}), sorted({txt(x) for x in r[1][2]})]
            if m_ty != ty:
                raise RuntimeError('SPEC VALIDATION FAILED (broken check): py_type_name/py_elems and CPython disagree on %s: %s vs %s' % (s, m_ty, ty))
            if m_ann != ann and len(out) < 40:
                out.append(Violation('correspondence', 'Model.Infer.annotation_for_value and astutils.infer_type disagree on %s' % s,
                                     case={'value': v}, expected=m_ann, observed=ann))
            if ann is not None and not ann_matches(ann, ty):
                out.append(Violation('oracle', 'infer_type(%s) = %s but the value is %s' % (s, ann, ty), case={'value': v}, observed=[
                    {'ns': '', 'name': s, 'what': 'type', 'pydoctor': ann, 'cpython': ty, 'class': None}]))
            self.count('infer_' + ('none' if ann is None else 'sub' if '[' in ann else 'name'))

    def correspondence(self) -> List[Violation]:
        out: List[Violation] = []
        pkgs = self.packages(self.tier)
        chunk = 400
        for i in range(0, len(pkgs), chunk):
            part = pkgs[i:i + chunk]
            a1, a2, mod = self.observe(part)
            self.judge(part, a1, a2, mod, out)
        self.infer_stream(out)
        acc, rej = self.stats.get('py_exec_accepts', 0), self.stats.get('py_exec_rejects', 0)
        self.stats['py_exec_acceptance'] = round(acc / max(1, acc + rej), 3)
        if self.stats.get('oracle_modules', 0) < 200:
            raise RuntimeError('broken check: the oracle was applied to only %d modules' % self.stats.get('oracle_modules', 0))
        self.stats.update(ORACLE_STAT)
        self.stats['distinct_nontrivial'] = len(self.nontrivial)
        self.nontrivial = set(range(len(self.nontrivial)))      # keep evidence small
        # shrink the smallest oracle failures that are not known findings (the driver reports at most three)
        known, _ = lib.load_known_findings(self.id)
        fresh = sorted([v for v in out if v.kind == 'oracle' and self.classify_known(v, known) is None and 'focus' in (v.case or {})],
                       key=lambda v: len(json.dumps(v.case, default=str)))[:3]
        for v in fresh:
            out[out.index(v)] = self.shrink(v)
        return out

    # ------------------------------------------------------------------ search / known / replay
    def search(self, broken: List[Violation]) -> List[Violation]:
        out: List[Violation] = []
        pkgs: List[Dict[str, Any]] = []
        for b in broken:
            if isinstance(b.case, dict) and 'mods' in b.case:
                pkgs.append({'pkg': b.case['pkg'], 'mods': b.case['mods']})
        for k in range(600):
            pkgs.append(gen.random_package(self.rng, 's%d' % k, 0.0, self.rng.randint(2, 3), self.rng.choice([15, 25, 40])))
        pkgs += exhaustive(3)[:150] if self.tier == 'quick' else []
        for i in range(0, len(pkgs), 400):
            part = pkgs[i:i + 400]
            try:
                a1, a2, mod = self.observe(part, with_model='builder' in self.binaries)
            except Exception as e:  # noqa
                self.notes.append('search: ' + str(e)[:300])
                continue
            found: List[Violation] = []
            try:
                self.judge(part, a1, a2, mod, found, count=False)
            except RuntimeError as e:
                self.notes.append('search: ' + str(e)[:300])
            known, _ = lib.load_known_findings(self.id)
            out.extend(v for v in found if v.kind == 'oracle' and self.classify_known(v, known) is None)
            if out:
                break
        return [self.shrink(v) for v in out[:3]]

    def shrink(self, v: Violation) -> Violation:
        """keep only the module in focus (plus __init__), then drop top-level statements while the oracle still fails"""
        case = v.case
        if not isinstance(case, dict) or 'focus' not in case:
            return v
        known, _ = lib.load_known_findings(self.id)

        def fails(body: List[Any]) -> Optional[Violation]:
            mods = [{'name': '__init__', 'body': [], 'sub': True, 'corr': False}] if case['focus'] != '__init__' else []
            mods.append({'name': case['focus'], 'body': body, 'sub': True, 'corr': False})
            p = [{'pkg': case['pkg'], 'mods': mods}]
            try:
                a1, a2, _ = self.observe(p, with_model=False)
                found: List[Violation] = []
                self.judge(p, a1, a2, {}, found, count=False)
            except Exception:  # noqa
                return None
            for f in found:
                if f.kind == 'oracle' and f.case['focus'] == case['focus'] and self.classify_known(f, known) is None:
                    return f
            return None
        body = [m['body'] for m in case['mods'] if m['name'] == case['focus']][0]
        if any(s[0] == 11 and 'pkg' in s[2] for s in body):
            return v
        best = fails(body)
        if best is None:
            return v
        changed = True
        rounds = 0
        while changed and rounds < 40:
            changed = False
            rounds += 1
            for k in range(len(body)):
                cand = body[:k] + body[k + 1:]
                f = fails(cand)
                if f is not None:
                    body, best, changed = cand, f, True
                    break
        return best

    def classify_known(self, v: Violation, known: List[dict]) -> Optional[dict]:
        if v.kind != 'oracle' or not isinstance(v.observed, list) or not v.observed:
            return None
        by = {k['match']['class']: k for k in known if 'class' in k.get('match', {})}
        first = None
        for d in v.observed:
            k = by.get(d.get('class'))
            if k is None:
                return None
            first = first or k
        return first

    def replay(self, data: Any) -> int:
        case = data['input']
        if isinstance(case, dict) and 'value' in case:
            src = mp.pp_value(case['value'])
            ann, ty = lib.run_impl_worker('c03_infer.py', [src])[0]
            print('value          :', src)
            print('infer_type     :', ann)
            print('CPython type   :', ty)
            ok = ann is None or ann_matches(ann, ty)
            print('property       :', 'holds' if ok else 'VIOLATED: the inferred type does not describe the value')
            return 0 if ok else 1
        self.binaries = {}
        b, _ = lib.build_model(self.id + '_builder', 'XBuilder.v')
        if b is not None:
            self.binaries['builder'] = b
        p = [{'pkg': case['pkg'], 'mods': case['mods']}]
        a1, a2, mod = self.observe(p, with_model=bool(self.binaries))
        found: List[Violation] = []
        try:
            self.judge(p, a1, a2, mod, found, count=False)
        except RuntimeError as e:
            print(e)
            return 2
        known, _ = lib.load_known_findings(self.id)
        for m in case['mods']:
            if 'focus' not in case or m['name'] == case['focus']:
                print('# ---- %s' % fullname(case['pkg'], m['name']))
                print(mp.pp_module(m['body']))
        rc = 0
        for f in found:
            if 'focus' in case and f.case.get('focus') != case['focus']:
                continue
            k = self.classify_known(f, known)
            print('%s: %s%s' % (f.kind, f.what[:800], '   [known finding %s]' % k['id'] if k else ''))
            if f.kind == 'oracle':
                for d in f.observed:
                    print('   ', json.dumps(d))
            else:
                print('    model   :', json.dumps(f.expected)[:1500])
                print('    pydoctor:', json.dumps(f.observed)[:1500])
            if k is None:
                rc = 1
        print('property requires: per namespace, pydoctor documents exactly the definitions CPython binds (instance variables '
              'excepted), with the same kind, is_async, cleaned docstring, and an inferred type that describes the value')
        print('result:', 'still failing' if rc else 'holds on this input')
        return rc
