"""C11 -- every internal link leads to a page and anchor that exist."""
from __future__ import annotations
from c11_check import SiteCheck


class Check(SiteCheck):
    id = 'C11'
    which = 'C11'
    props_module = 'Props.C11'
    manifest = {
        'text': ('Theorems over Model/Site.v (the site computed from a registry and the listing skeleton REGENERATED from /repo on '
                 'every run, Gen/Listings.v): a page is written for o iff o is visible, own-page and reachable through contents '
                 '(C11_pages_for_visible_ownpage); every visible reachable member has its name/fullName anchors on its parent\'s '
                 'written page (C11_anchors_for_visible_members); taglink shortens to #frag only on the target\'s own page and both '
                 'forms denote the same anchor (C11_same_page_shortening, all inputs); every taglink-built href and every url field '
                 'of all-documents/objects.inv is live when nothing registered is unreachable (C11_links_live_partial) -- refuted '
                 'without the guard by superseded duplicates (C11_links_live_refuted), by the pre-fd84d91 taglink '
                 '(C11_taglink_old_refuted) and for names that need percent-encoding (C11_href_encodes_file_refuted/_partial); single '
                 'root => index.html + <root>.html (C11_index_single_root). Tie: listings_checked (vm_compute on the regenerated '
                 'table) + set-for-set correspondence of files / anchors / per-producer (page, href, private) with a crawl of the real '
                 'output of driver.main on generated projects x privacy rules x themes x sidebar depths, and a crawler oracle that '
                 'resolves every href/src/url of every written file.'),
        'note': ('Partial: liveness is proved under all_reachable (no superseded duplicates / collision leftovers); View In Hierarchy '
                 'anchors, member self-links and docutils-internal links are only crawled. Registry (incl. privacy class per object, '
                 'mro, subclasses, parentMod) is an input observed from the real System. Trusted: Coq kernel, gen_listings.py, '
                 'extraction, harness + crawler; quote never emits "#".'),
        'technique': 'Coq proof (invariant over all entry producers of the site model, table-driven by a regenerated listing skeleton) + crawl correspondence',
    }
