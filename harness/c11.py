"""C11 -- every internal link leads to a page and anchor that exist."""
from __future__ import annotations
from c11_check import SiteCheck


class Check(SiteCheck):
    id = 'C11'
    which = 'C11'
    props_module = 'Props.C11'
    manifest = {
        'text': ('Theorems over Model/Site.v (the site computed from a registry and the listing skeleton REGENERATED from /repo on '
                 'every run, Gen/Listings.v): a page is written for o iff o is visible, own-page and reachable through contents '
                 '(C11_pages_for_visible_ownpage); every visible reachable member has its name/fullName anchors on its parent\'s '
                 'written page (C11_anchors_for_visible_members); taglink shortens to #frag only on the target\'s own page and both '
                 'forms denote the same anchor (C11_same_page_shortening, all inputs); UNCONDITIONALLY live: member tables, package '
                 '__init__ tables, the direct sidebar items at every expand depth, moduleIndex (normal and compact form), index.html '
                 'roots, objects.inv (C11_links_live) and the member self-links (C11_member_selflinks_live); every visible class with '
                 'plain names has its <a name> in classIndex.html and "View In Hierarchy" is live (C11_hierarchy_anchor, '
                 'C11_hierarchy_links_live_partial / _refuted: base = superseded duplicate); docstring cross references with the '
                 'resolver as an oracle: origin, liveness when the docstring\'s source is documented on the rendering page '
                 '(C11_xref_origin, C11_xref_links_live_partial) and the exact counterexample otherwise (C11_xref_links_live_refuted = '
                 'known finding inherited-docstring-context); every other taglink-built href and url field under all_reachable '
                 '(C11_links_live_partial / _refuted: superseded duplicates); pre-fd84d91 taglink (C11_taglink_old_refuted); names that '
                 'need percent-encoding (C11_href_encodes_file_refuted/_partial); single root (C11_index_single_root). Tie: '
                 'listings_checked (vm_compute on the regenerated table) + set-for-set correspondence of files / anchors / per-producer '
                 '(page, href, private) incl. docstring and summary cross references with a crawl of the real output of driver.main on '
                 'generated projects x privacy rules x themes x sidebar depths, and a crawler oracle that resolves every href/src/url of '
                 'every written file.'),
        'note': ('Partial: non-contents producers are live only under all_reachable (no superseded duplicates / collision leftovers). '
                 'Oracles / inputs observed from the real System: the registry (parents, contents, mro, subclasses, baseobjects, '
                 'parentMod, System.privacyClass per object, docsource) and the targets the docstring linker resolved. Not modelled: '
                 'class-signature links (annotation linker; checked against the model\'s taglink form and by the crawler), docutils-'
                 'internal links, zope.interface pages. Trusted: Coq kernel, gen_listings.py, extraction, harness + crawler; quote '
                 'never emits "#".'),
        'tie': 'C1x_code_*_is_model: bodies of fullName/privacyClass/isVisible/isPrivate/page_object/url/taglink translated from the current source (Gen/SiteCode.v) and proved equal to the model',
        'technique': 'Coq proof (invariant over all entry producers of the site model, table-driven by a regenerated listing skeleton) + crawl correspondence',
    }
