"""C09: the oracle for whole documents (no pydoctor import): what the generator MEANT vs the text of the rendered HTML."""
from __future__ import annotations
import html as _html, inspect, re, textwrap
from html.parser import HTMLParser
from typing import Any, Dict, List, Optional, Tuple
import c09_gen as G

FORMATS = ['epytext', 'restructuredtext', 'google', 'numpy']


class Dom(HTMLParser):
    """element = [tag, attrs, children]; children are elements or strings"""
    VOID = ('wbr', 'br', 'hr', 'img', 'meta', 'link', 'input')

    def __init__(self) -> None:
        super().__init__(convert_charrefs=True)
        self.root: List[Any] = ['root', {}, []]
        self.stack = [self.root]

    def handle_starttag(self, tag: str, attrs: Any) -> None:
        el = [tag, dict(attrs), []]
        self.stack[-1][2].append(el)
        if tag not in self.VOID:
            self.stack.append(el)

    def handle_startendtag(self, tag: str, attrs: Any) -> None:
        self.stack[-1][2].append([tag, dict(attrs), []])

    def handle_endtag(self, tag: str) -> None:
        if tag in self.VOID:
            return
        for k in range(len(self.stack) - 1, 0, -1):
            if self.stack[k][0] == tag:
                del self.stack[k:]
                return

    def handle_data(self, data: str) -> None:
        self.stack[-1][2].append(data)


def parse(htm: str) -> List[Any]:
    d = Dom()
    d.feed(htm)
    d.close()
    return d.root


def text_of(el: Any) -> str:
    if isinstance(el, str):
        return el
    return ''.join(text_of(c) for c in el[2])


def find_all(el: Any, pred: Any) -> List[Any]:
    out: List[Any] = []
    if isinstance(el, str):
        return out
    for c in el[2]:
        if not isinstance(c, str):
            if pred(c):
                out.append(c)
            else:
                out.extend(find_all(c, pred))
    return out


def split_render(htm: str) -> Tuple[List[str], List[str], List[Any]]:
    """(word tokens of the description, texts of the <pre> blocks in order, field table sections)"""
    root = parse(htm)
    tables = find_all(root, lambda e: e[0] == 'table' and e[1].get('class') == 'fieldTable')
    pres: List[str] = []

    def desc_text(el: Any) -> str:
        if isinstance(el, str):
            return el
        if el[0] == 'table' and el[1].get('class') == 'fieldTable':
            return ' '
        if el[0] == 'pre':
            pres.append(text_of(el))
            return ' '
        inner = ''.join(desc_text(c) for c in el[2])
        if el[0] in ('p', 'li', 'div', 'ul', 'ol', 'h1', 'h2', 'h3', 'h4', 'dd', 'dt', 'tr', 'td', 'blockquote', 'br'):
            return ' ' + inner + ' '
        return inner
    toks = desc_text(root).split()
    sections: List[Any] = []
    for t in tables:
        for tr in find_all(t, lambda e: e[0] == 'tr'):
            tds = [c for c in tr[2] if not isinstance(c, str) and c[0] == 'td']
            if tr[1].get('class') == 'fieldStart':
                sections.append([text_of(tr).strip(), []])
                continue
            if not sections:
                sections.append([None, []])
            if tds and tds[0][1].get('class') == 'fieldArgContainer':
                names = find_all(tds[0], lambda e: e[0] == 'span' and e[1].get('class') == 'fieldArg')
                name = text_of(names[0]) if names else None
                rest = ''.join(text_of(c) for c in tds[0][2] if not (names and c is names[0]))
                body = tds[1] if len(tds) > 1 else None
                sections[-1][1].append({'name': name, 'type': rest, 'body': body})
            else:
                sections[-1][1].append({'name': None, 'type': '', 'body': tds[0] if tds else None})
    return toks, pres, sections


def trim_block(s: str) -> str:
    lines = [l.rstrip() for l in s.split('\n')]
    while lines and lines[0] == '':
        lines.pop(0)
    while lines and lines[-1] == '':
        lines.pop()
    return '\n'.join(lines)


def norm_block(s: str) -> str:
    """verbatim blocks are compared up to their common indentation, trailing blanks of a line and blank lines at the
    two ends (source layout, not text)"""
    lines = [l.rstrip() for l in s.split('\n')]
    while lines and lines[0] == '':
        lines.pop(0)
    while lines and lines[-1] == '':
        lines.pop()
    return textwrap.dedent('\n'.join(lines))


LABEL = {'param': ['Parameters'], 'keyword': ['Parameters'], 'yield': ['Yields'], 'warns': ['Warns'], 'return': ['Returns'], 'raises': ['Raises'], 'note': ['Note', 'Notes'], 'see': ['See Also'],
         'author': ['Author', 'Authors'], 'since': ['Present Since'], 'custom': ['Unknown Field: custom']}


def body_tokens(el: Any) -> List[str]:
    if el is None:
        return []
    return re.sub(r'\s+', ' ', text_of(el)).split()


def oracle_doc(doc: Dict[str, Any], fmt: str, obs: Dict[str, Any]) -> Optional[Dict[str, Any]]:
    """C09 on one generated document rendered by the real pydoctor."""
    if obs.get('exc'):
        return {'class': 'exception', 'what': 'rendering raised ' + obs['exc'][:400]}
    toks, pres, sections = split_render(obs['html'])
    want_toks, want_pres = G.doc_expected(doc)
    warned = ' '.join(m for _, m in obs['msgs'])
    if toks != want_toks:
        # locate
        k = 0
        while k < len(toks) and k < len(want_toks) and toks[k] == want_toks[k]:
            k += 1
        missing = [w for w in want_toks if w not in toks]
        cls = 'description-word-lost' if missing else ('description-reordered-or-altered' if sorted(toks) != sorted(want_toks) and
                                                         len(toks) <= len(want_toks) else 'description-altered')
        return {'class': cls, 'what': 'description text differs at word %d: expected ...%s got ...%s (warnings: %s)'
                % (k, want_toks[max(0, k - 3):k + 4], toks[max(0, k - 3):k + 4], warned[:200])}
    if len(pres) != len(want_pres):
        return {'class': 'verbatim-block-count', 'what': '%d verbatim blocks rendered, %d written' % (len(pres), len(want_pres))}
    for got, (kind, want) in zip(pres, want_pres):
        g, w = norm_block(got), norm_block(want)
        if g == w:
            # character for character includes the indentation: epytext keeps a literal block's indentation relative to
            # the paragraph that introduces it (4 columns as serialised here), everything else is shown flush
            lead = '    ' if (fmt == 'epytext' and kind == 'literal') else ''
            ge = trim_block(got)
            we = '\n'.join((lead + l) if l.strip() else '' for l in textwrap.dedent(trim_block(want)).split('\n'))
            if ge != we:
                return {'class': 'verbatim-indentation', 'what': '%s block: the leading white space of its lines is altered: '
                        'expected %r got %r' % (kind, we, ge)}
        if g != w:
            pat = ''.join(' {1,8}' if ch == '\t' else re.escape(ch) for ch in w)
            if '\t' in w and re.fullmatch(pat, g):
                return {'class': 'verbatim-tabs-expanded', 'what': 'tab characters of a %s block are shown as spaces: '
                        'expected %r got %r' % (kind, w, g)}
            return {'class': 'verbatim-' + kind, 'what': '%s block not reproduced character for character: expected %r got %r'
                    % (kind, w, g)}
    # fields
    for f in doc['fields']:
        kind, name, body, ty = f[:4]
        bt = G.field_tokens(f)
        if kind in ('ivar', 'cvar', 'var'):
            a = (obs.get('attrs') or {}).get(name)
            if a is None:
                if name in warned:
                    continue
                return {'class': 'field-lost', 'what': '@%s %s: no such variable is documented' % (kind, name)}
            atoks = text_of(parse(a['html'])).split()
            if atoks != bt:
                return {'class': 'field-text', 'what': '@%s %s shows %s, written %s' % (kind, name, atoks, bt)}
            if ty is not None:
                tt = re.sub(r'<[^>]*>', '', a['type'] or '')
                if _html.unescape(tt).split() != ty:
                    return {'class': 'field-type', 'what': 'type of %s shows %r, written %s' % (name, tt, ty)}
            continue
        rows = [r for lab, rs in sections if lab in LABEL[kind] for r in rs]
        hit = None
        for r in rows:
            if kind in ('param', 'keyword') and (r['name'] or '').rstrip(':') != name:
                continue
            if kind in ('raises', 'warns') and r['type'].strip() != name:
                continue
            if body_tokens(r['body']) == bt:
                hit = r
                break
        if hit is None:
            if name and name in warned:
                continue
            return {'class': 'field-lost', 'what': 'field %s %s with text %s is not shown under %s (sections: %s; warnings: %s)'
                    % (kind, name, bt, LABEL[kind], [(l, [(r['name'], r['type'], body_tokens(r['body'])) for r in rs])
                                                     for l, rs in sections], warned[:200])}
        if ty is not None and kind in ('param', 'return', 'keyword', 'yield'):
            if hit['type'].split() != ty:
                return {'class': 'field-type', 'what': 'type of %s %s shows %r, written %s' % (kind, name, hit['type'], ty)}
    return None


def oracle_plaintext(raw: str, obs: Dict[str, Any]) -> Optional[Dict[str, Any]]:
    if obs.get('exc'):
        return {'class': 'exception', 'what': 'rendering raised ' + obs['exc'][:400]}
    want = inspect.cleandoc(raw)
    if want.strip() == '':
        # nothing to show: pydoctor treats an all-white-space docstring as no docstring
        if _html.unescape(re.sub(r'<[^>]*>', '', obs['html'])).strip() in ('', 'Undocumented'):
            return None
    root = parse(obs['html'])
    ps = find_all(root, lambda e: e[0] == 'p')
    if len(ps) != 1 or ps[0][1].get('class') != 'pre':
        return {'class': 'plaintext-structure', 'what': 'not exactly one <p class="pre">: %s' % obs['html'][:200]}
    m = re.fullmatch(r'<div><p class="pre">(.*)</p></div>', obs['html'], flags=re.S)
    if not m:
        return {'class': 'plaintext-structure', 'what': 'unexpected markup around the text: %s' % obs['html'][:200]}
    got = _html.unescape(m.group(1))
    if got != want:
        return {'class': 'plaintext-text', 'what': 'plaintext docstring not reproduced exactly: expected %r got %r' % (want, got)}
    return None
