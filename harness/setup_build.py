"""`make setup`: builds the Coq cone (full .vo) and the extracted model binaries of every CLAIMED check
(tools/claimed.txt).  Files of checks that are not claimed yet are not built, so work in progress cannot break setup."""
import importlib, sys
from pathlib import Path
sys.path.insert(0, str(Path(__file__).resolve().parent))
import lib

def main() -> int:
    claimed = (lib.VERIF / 'tools' / 'claimed.txt').read_text().split()
    rc = 0
    gens = set()
    targets = []
    checks = []
    for pid in claimed:
        mod = importlib.import_module(pid.lower())
        chk = mod.Check
        checks.append(chk)
        if chk.needs_gen:
            gens.update(getattr(chk, 'gen_modules', []))
        if chk.props_module:
            targets.append('theories/' + chk.props_module.replace('.', '/') + '.vo')
        targets.extend(chk.extra_targets)
        for xv in chk.models.values():
            targets.extend('theories/' + p for p in lib.model_vo_deps(xv))
    if gens:
        r, out = lib.sh([lib.PY, str(lib.VERIF / 'harness' / 'gen_tables.py')] + sorted(gens), env=lib.impl_env(), timeout=900)
        print(out.strip() or 'gen_tables ok: ' + ' '.join(sorted(gens)))
        rc |= r
    ok, out = lib.coq_make(sorted(set(targets)), timeout=5400, jobs=16)
    print(out[-3000:])
    if not ok:
        rc = 1
    for chk in checks:
        for name, xv in chk.models.items():
            b, out = lib.build_model(chk.id + '_' + name, xv)
            print('%s %s -> %s' % (chk.id, name, b or 'FAILED'))
            if b is None:
                print(out[-2000:])
                rc = 1
    return rc

if __name__ == '__main__':
    sys.exit(main())
